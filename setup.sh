#!/bin/bash
# Build the overlay venv (offline): /venv's interpreter + site-packages, plus crosshair-tool/z3 from the wheelhouse.
set -e
cd "$(dirname "$0")"
V=.venv
(
  flock 9
  if [ ! -x $V/bin/python ] || ! $V/bin/python -c "import crosshair, z3" 2>/dev/null; then
    rm -rf $V
    /venv/bin/python -m venv $V
    echo "import site; site.addsitedir('/venv/lib/python3.12/site-packages')" > $V/lib/python3.12/site-packages/_lsf_overlay.pth
    PIP_NO_INDEX=1 $V/bin/pip install -q --no-index --find-links /opt/veriftools/wheels crosshair-tool >/dev/null
    $V/bin/python -c "import crosshair, z3"
  fi
) 9>.venv.lock
