# Native reproduction through the real Flask / Quart stacks (no harness, no stubs besides a broker-less engine).
import sys, types, json, asyncio
sys.path.insert(0, __import__("os").environ.get("LSF_PY", "/repo/asl-workflow-engine/py"))
import asl_workflow_engine.event_dispatcher as ed
ed.Message = type("Message", (), {"__init__": lambda self, *a, **k: None})
from asl_workflow_engine import rest_api, rest_api_asyncio
from asl_workflow_engine.store import SimpleStore

H = lambda action: {"Content-Type": "application/x-amz-json-1.0", "x-amz-target": "AWSStepFunctions." + action}
ROLE = "arn:aws:iam::0123456789:role/r"; ROLE2 = ROLE + "2"
ASL = '{"StartAt": "A", "States": {"A": {"Type": "Pass", "End": true}}}'
M1 = "arn:aws:states:local:0123456789:stateMachine:m1"
CALLS = [
    ("CreateStateMachine", {"name": "m1", "roleArn": ROLE, "definition": ASL}),
    ("DescribeStateMachine", []),                                                          # D1 body is JSON but not an object
    ("DescribeStateMachine", b"{"),                                                        # D1 body is not JSON
    ("UpdateStateMachine", {"stateMachineArn": M1, "roleArn": ROLE2, "definition": "nope"}),   # D2 InvalidDefinition, but roleArn written
    ("DescribeStateMachine", {"stateMachineArn": M1}),
    ("UpdateStateMachine", {"stateMachineArn": M1, "roleArn": ROLE, "loggingConfiguration": {"level": "BOGUS"}}),  # D3 NameError (asyncio)
    ("CreateStateMachine", {"name": "m2", "roleArn": ROLE, "definition": 5}),              # D4 wrong JSON types
    ("CreateStateMachine", {"name": "m2", "roleArn": ROLE, "definition": ASL, "type": ["STANDARD"]}),
    ("CreateStateMachine", {"name": "m2", "roleArn": ROLE, "definition": ASL, "loggingConfiguration": "x"}),
    ("StartExecution", {"stateMachineArn": M1, "input": 5}),
    ("ListExecutions", {"stateMachineArn": M1, "statusFilter": ["RUNNING"]}),
]

def engine():
    return types.SimpleNamespace(asl_store=SimpleStore(), executions=SimpleStore(), execution_history=SimpleStore(), execution_metrics={},
                                 task_dispatcher=types.SimpleNamespace(task_metrics={}, pending_requests={}, producer=None))
disp = types.SimpleNamespace(publish=lambda *a, **k: None, set_timeout=lambda *a, **k: 1)
cfg = {"rest_api": {"host": "h", "port": 1, "region": "local", "validate_asl": True}}
raw = lambda b: b if isinstance(b, bytes) else json.dumps(b).encode()

def show(tag, action, b, status, text):
    t = text.decode() if isinstance(text, bytes) else text
    try: t = json.loads(t); t = {k: t[k] for k in ("__type", "roleArn", "updateDate", "stateMachineArn") if k in t} or t
    except Exception: pass
    print("%-8s %-22s %-90s -> %s %s" % (tag, action, raw(b)[:90].decode(), status, str(t)[:110]))

print("--- rest_api.py (Flask)")
c = rest_api.RestAPI(engine(), disp, cfg).create_app().test_client()
for action, b in CALLS:
    r = c.post("/", data=raw(b), headers=H(action)); show("blocking", action, b, r.status_code, r.data)

print("--- rest_api_asyncio.py (Quart)")
async def main():
    c = rest_api_asyncio.RestAPI(engine(), disp, cfg).create_app().test_client()
    for action, b in CALLS:
        r = await c.post("/", data=raw(b), headers=H(action)); show("asyncio", action, b, r.status_code, await r.get_data())
asyncio.run(main())
