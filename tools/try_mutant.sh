#!/bin/bash
# tools/try_mutant.sh <seed_id> <PROP> [check args...]  - ad-hoc run of ./check against a scratch worktree with the seeded patch applied (results not recorded)
sid=$1; prop=$2; shift 2
wt=/tmp/trywt_$sid.$$
git -C /repo worktree add -q $wt HEAD || exit 2
git -C $wt apply /verif/seeded/$sid/patch.diff || { git -C /repo worktree remove --force $wt; exit 2; }
LSF_REPO=$wt VERIF_EVIDENCE_DIR=/tmp/try_evidence /verif/check $prop "$@"
rc=$?
git -C /repo worktree remove --force $wt
echo "exit=$rc"
