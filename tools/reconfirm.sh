#!/bin/bash
# tools/reconfirm.sh - re-confirm every seeded change against the current /repo HEAD: patch applies, suite unchanged, demo 1 with / 0 without
cd /verif
for d in seeded/*/; do
  id=$(basename $d); wt=/tmp/rc_$id
  git -C /repo worktree add -q $wt HEAD || continue
  if git -C $wt apply /verif/$d/patch.diff 2>/dev/null; then
    t=$(cd $wt && /venv/bin/python -m pytest -q -p no:cacheprovider --timeout=900 --continue-on-collection-errors 2>&1 | tail -1)
    REPO_ROOT=$wt timeout 300 /venv/bin/python $d/demo.py >/dev/null 2>&1; a=$?
    REPO_ROOT=/repo timeout 300 /venv/bin/python $d/demo.py >/dev/null 2>&1; b=$?
    echo "$id | $t | with=$a without=$b"
  else
    echo "$id | PATCH DOES NOT APPLY"
  fi
  git -C /repo worktree remove --force $wt
done
