#!/bin/bash
# tools/run_all.sh [tier] [IDs...]  - run every check sequentially, summarise exit codes and wall time
cd "$(dirname "$0")/.."
tier=${1:-quick}; shift
ids=${@:-C01 C02 C03 C04 C05 C06 C07 C08 C09 C10 C11 C12 C13 C14 C15 C16 C17 C18 C19 C20}
mkdir -p /tmp/runall
for id in $ids; do
  t0=$(date +%s)
  ./check $id --tier $tier > /tmp/runall/$id.$tier.log 2>&1
  rc=$?
  echo "$id $tier exit=$rc wall=$(( $(date +%s) - t0 ))s $(grep -c '^KNOWN-FINDING' /tmp/runall/$id.$tier.log) known $(grep -E '^C[0-9]+ tier=' /tmp/runall/$id.$tier.log)"
done
