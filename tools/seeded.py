#!/usr/bin/env python3
"""Seeded-change bookkeeping.

  tools/seeded.py import <src_dir> <seed_id> <property>   verify a sub-agent's change and store it under /verif/seeded/<seed_id>/
  tools/seeded.py run <seed_id> [PROP ...] [--tier T]      run ./check against a scratch worktree of /repo with the change applied
  tools/seeded.py run-in-repo <seed_id> [PROP ...]         same, but apply to /repo itself and undo straight afterwards
  tools/seeded.py matrix                                   print the catch matrix recorded in seeded/*/meta.json
"""
import sys, os, json, subprocess, shutil, time

ROOT = os.path.dirname(os.path.dirname(os.path.abspath(__file__)))
SEEDED = os.path.join(ROOT, "seeded")
# VERIF_SNAP=<dir>: run ./check from a frozen copy of /verif (made by `tools/seeded.py snapshot`), so that harness
# files can be edited while a long matrix run is in progress; results are still recorded under /verif/seeded
CHECK_ROOT = os.environ.get("VERIF_SNAP") or ROOT
TEST = ["/venv/bin/python", "-m", "pytest", "-q", "-p", "no:cacheprovider", "--timeout=900", "--continue-on-collection-errors"]


def sh(cmd, cwd=None, env=None, timeout=3600):
    p = subprocess.run(cmd, cwd=cwd, env=env, capture_output=True, text=True, timeout=timeout)
    return p.returncode, p.stdout + p.stderr


def worktree(path):
    if os.path.exists(path):
        sh(["git", "-C", "/repo", "worktree", "remove", "--force", path])
    rc, out = sh(["git", "-C", "/repo", "worktree", "add", "-q", path, "HEAD"])
    assert rc == 0, out


def drop(path):
    sh(["git", "-C", "/repo", "worktree", "remove", "--force", path])
    shutil.rmtree(path, ignore_errors=True)


def do_import(src, sid, prop):
    dst = os.path.join(SEEDED, sid)
    os.makedirs(dst, exist_ok=True)
    for f in ("patch.diff", "demo.py", "README.txt"):
        shutil.copy(os.path.join(src, f), os.path.join(dst, f))
    wt = "/tmp/seedwt_%s" % sid
    worktree(wt)
    meta = {"seed_id": sid, "property": prop, "source": "independent sub-agent given only the property text and a scratch worktree"}
    try:
        rc, out = sh(["git", "-C", wt, "apply", os.path.join(dst, "patch.diff")])
        meta["patch_applies"] = rc == 0
        if rc != 0:
            meta["error"] = out[-500:]
        rc, out = sh(TEST, cwd=wt)
        tail = [l for l in out.splitlines() if " passed" in l or " failed" in l][-1:]
        meta["tests_with_patch"] = tail[0] if tail else out[-200:]
        env = dict(os.environ, REPO_ROOT=wt)
        rc1, out1 = sh(["/venv/bin/python", os.path.join(dst, "demo.py")], cwd="/tmp", env=env, timeout=600)
        env = dict(os.environ, REPO_ROOT="/repo")
        rc0, out0 = sh(["/venv/bin/python", os.path.join(dst, "demo.py")], cwd="/tmp", env=env, timeout=600)
        meta["demo_exit_with_patch"] = rc1
        meta["demo_exit_without_patch"] = rc0
        meta["demo_output_with_patch"] = out1[-600:]
        meta["confirmed"] = bool(meta["patch_applies"] and "66 passed" in meta["tests_with_patch"] and rc1 != 0 and rc0 == 0)
        try:
            meta["needs_to_manifest"] = open(os.path.join(dst, "README.txt")).read()[:1500]
        except Exception:
            pass
    finally:
        sh(["git", "-C", wt, "checkout", "--", "."])
        drop(wt)
    meta["ran"] = ["git apply patch.diff (scratch worktree of /repo HEAD)", " ".join(TEST), "REPO_ROOT=<patched> demo.py", "REPO_ROOT=/repo demo.py"]
    meta.setdefault("checks", {})
    with open(os.path.join(dst, "meta.json"), "w") as f:
        json.dump(meta, f, indent=1)
    print(sid, "confirmed" if meta["confirmed"] else "NOT CONFIRMED", meta["tests_with_patch"], "demo with/without:", meta["demo_exit_with_patch"], meta["demo_exit_without_patch"])
    return meta["confirmed"]


def do_run(sid, props, tier="quick", in_repo=False, only=None):
    dst = os.path.join(SEEDED, sid)
    meta = json.load(open(os.path.join(dst, "meta.json")))
    props = props or [meta["property"]]
    if in_repo:
        target = "/repo"
        rc, out = sh(["git", "-C", "/repo", "apply", os.path.join(dst, "patch.diff")])
        assert rc == 0, out
    else:
        target = "/tmp/seedrun_%s" % sid
        worktree(target)
        rc, out = sh(["git", "-C", target, "apply", os.path.join(dst, "patch.diff")])
        assert rc == 0, out
    try:
        for p in props:
            env = dict(os.environ, LSF_REPO=target, VERIF_EVIDENCE_DIR="/tmp/seed_evidence")
            cmd = [os.path.join(CHECK_ROOT, "check"), p, "--tier", tier]
            for o in only or []:
                cmd += ["--only", o]
            t0 = time.time()
            rc, out = sh(cmd, cwd=CHECK_ROOT, env=env, timeout=7200)
            viol = [l for l in out.splitlines() if l.startswith("VIOLATION") or l.strip().startswith("counterexample in")]
            herr = [l for l in out.splitlines() if l.startswith("HARNESS-ERROR")]
            head = sh(["git", "-C", "/repo", "rev-parse", "--short", "HEAD"])[1].strip()
            meta.setdefault("checks", {})[p + ":" + tier] = {"exit": rc, "caught": rc == 1, "wall_s": round(time.time() - t0, 1), "repo_head": head,
                                                             "conditions_run": list(only) if only else "all",
                                                             "violations": [v[:300] for v in viol][:6], "harness_errors": [h[:300] for h in herr][:3],
                                                             "how": ("git -C /repo apply; ./check; git -C /repo checkout -- ." if in_repo else "LSF_REPO=<scratch worktree with patch> ./check")}
            print(sid, p, tier, "exit", rc, "CAUGHT" if rc == 1 else ("HARNESS-ERROR" if rc == 2 else "MISSED"))
            for v in viol[:4]:
                print("   ", v[:260])
            for h in herr[:2]:
                print("   ", h[:260])
    finally:
        if in_repo:
            sh(["git", "-C", "/repo", "checkout", "--", "."])
        else:
            drop(target)
    with open(os.path.join(dst, "meta.json"), "w") as f:
        json.dump(meta, f, indent=1)


def refresh(sid):
    """Re-run the recorded checks of one change against /repo HEAD: first only the conditions that caught it before
    (a subset of the full check, so a catch there is a catch of the full check); the whole check when that does not
    catch it or when it was missed before."""
    import re
    meta = json.load(open(os.path.join(SEEDED, sid, "meta.json")))
    for key, v in sorted(meta.get("checks", {}).items()):
        prop, tier = key.split(":")
        if tier != "quick":
            continue
        conds = []
        for t in v.get("violations", []):
            mm = re.search(r"counterexample in (\w+)", t)
            if mm and mm.group(1) not in conds:
                conds.append(mm.group(1))
        if v.get("caught") and conds:
            do_run(sid, [prop], tier, False, conds[:3])
            m2 = json.load(open(os.path.join(SEEDED, sid, "meta.json")))
            if m2["checks"][key]["caught"]:
                continue
        do_run(sid, [prop], tier, False, None)


def matrix():
    for sid in sorted(os.listdir(SEEDED)):
        mp = os.path.join(SEEDED, sid, "meta.json")
        if not os.path.exists(mp):
            continue
        m = json.load(open(mp))
        row = ", ".join("%s=%s" % (k, "caught" if v["caught"] else ("err" if v["exit"] == 2 else "MISSED")) for k, v in m.get("checks", {}).items())
        print("%-8s %-4s confirmed=%s  %s" % (sid, m["property"], m.get("confirmed"), row))


def table():
    """Markdown catch table for DESIGN.md."""
    import re
    print("| seed | property | change (needs to manifest: see seeded/<id>/README.txt) | caught by |")
    print("|---|---|---|---|")
    for sid in sorted(os.listdir(SEEDED)):
        mp = os.path.join(SEEDED, sid, "meta.json")
        if not os.path.exists(mp):
            continue
        m = json.load(open(mp))
        try:
            lines = [l.strip() for l in open(os.path.join(SEEDED, sid, "README.txt")).read().splitlines() if l.strip() and not set(l.strip()) <= set("=-")]
            cand = [l for l in lines[:12] if re.search(r"(?i)(^change\b|the change|^c\d\d[ab]? *[-:]|regression|^\d\. )", l)]
            summary = (cand[0] if cand else lines[0])[:140]
        except Exception:
            summary = ""
        try:
            files = sorted(set(re.findall(r"^\+\+\+ b/.*/([^/\n]+)$", open(os.path.join(SEEDED, sid, "patch.diff")).read(), re.M)))
            summary = "`" + ", ".join(files) + "` " + summary
        except Exception:
            pass
        cells = []
        for k, v in sorted(m.get("checks", {}).items()):
            prop, tier = k.split(":")
            if v["caught"]:
                conds = []
                for t in v.get("violations", []):
                    mm = re.search(r"counterexample in (\w+)", t)
                    if mm and mm.group(1) not in conds:
                        conds.append(mm.group(1))
                cells.append("**%s** %s (%s)" % (prop, tier, ", ".join(conds[:3]) or "violation"))
            else:
                cells.append("%s %s: %s" % (prop, tier, "harness error" if v["exit"] == 2 else "missed"))
        if m.get("confirmed") is False:
            cells.append("*superseded by a later repair: verdict recorded when it was seeded (note in meta.json)*")
        print("| %s | %s | %s | %s |" % (sid, m["property"], summary.replace("|", "/"), "; ".join(cells)))


if __name__ == "__main__":
    a = sys.argv[1:]
    if a[0] == "import":
        sys.exit(0 if do_import(a[1], a[2], a[3]) else 1)
    elif a[0] in ("run", "run-in-repo"):
        tier = "quick"; only = []
        rest = []
        i = 1
        while i < len(a):
            if a[i] == "--tier":
                tier = a[i + 1]; i += 2
            elif a[i] == "--only":
                only.append(a[i + 1]); i += 2
            else:
                rest.append(a[i]); i += 1
        do_run(rest[0], rest[1:], tier, a[0] == "run-in-repo", only)
    elif a[0] == "refresh":
        refresh(a[1])
    elif a[0] == "matrix":
        matrix()
    elif a[0] == "table":
        table()
    elif a[0] == "snapshot":
        dst = a[1] if len(a) > 1 else "/tmp/verif_snap"
        shutil.rmtree(dst, ignore_errors=True)
        shutil.copytree(ROOT, dst, ignore=shutil.ignore_patterns(".git", "evidence", ".venv", ".venv.lock", "__pycache__", "seeded"), symlinks=True)
        os.symlink(os.path.join(ROOT, ".venv"), os.path.join(dst, ".venv"))
        print(dst)
