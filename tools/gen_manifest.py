#!/usr/bin/env python3
"""Regenerate /verif/MANIFEST.json from the table below (claimed checks = harness modules that exist)."""
import json, os
ROOT = os.path.dirname(os.path.dirname(os.path.abspath(__file__)))

CHECKS = {
 "C14": dict(
   technique="bounded symbolic execution of the real Choice handler (CrossHair + z3), one condition per comparison operator",
   text=("Each of the 39 comparison operators, the *Path variants, And/Or/Not trees (depth <= 2) and rule ordering/Default/"
         "NoChoiceMatched is run symbolically through the real StateEngine.notify -> asl_state_Choice -> choose() closures and compared "
         "with a reference written from the States Language; the solver closes every path inside the stated value bounds or returns "
         "a counterexample that is replayed natively. Bounded: strings <= 1-3 chars, floats/timestamps from concrete pools."),
   note=("Trusted: CrossHair/z3, recording dispatcher stubs, constant json.dumps shim, clock/uuid stubs, the reference semantics in vf/ref/choice.py. "
         "Outside: longer strings, backslash before a non-'*' character in StringMatches patterns, type tests on a missing Variable."),
   design="4/C14"),
 "C17": dict(
   technique="bounded symbolic execution (CrossHair + z3) of create_arn/parse_arn/valid_name and the ARN minting/derivation sites",
   text=("Names are symbolic strings over an alphabet containing every ARN-significant and forbidden character; for every name the "
         "validator accepts the minted ARN must parse back into its parts and re-assemble to the same string, and every derivation site "
         "(start_execution, EXPRESS end_execution, history recovery, time-out back-stop, notifications) must arrive at the same state machine ARN."),
   note="Trusted: CrossHair/z3 regex and string models. Outside: names longer than the tier bound (3/4 characters); the parser is length-oblivious.",
   design="4/C17"),
}

NOT_YET = {}

def main():
    props = [json.loads(l) for l in open(os.path.join(ROOT, "properties.jsonl"))]
    checks = []; na = []
    for p in props:
        pid = p["id"]
        have = os.path.exists(os.path.join(ROOT, "harness", "vh_%s.py" % pid.lower()))
        if pid in CHECKS and have:
            c = CHECKS[pid]
            checks.append({
                "property_id": pid,
                "quick_cmd": "./check %s --tier quick" % pid,
                "thorough_cmd": "./check %s --tier thorough" % pid,
                "evidence_file": "/verif/evidence/%s.json" % pid,
                "replay_cmd_template": "./check %s --replay {path}" % pid,
                "engine": "vf",
                "level_claimed": {"category": "other", "text": c["text"], "design_ref": c["design"]},
                "level_note": c["note"],
                "technique": c["technique"],
            })
        else:
            na.append({"property_id": pid, "reason": NOT_YET.get(pid, "check not built yet (work in progress; see DESIGN.md section 4/%s for the planned solver-based encoding)" % pid)})
    m = {
        "version": 1,
        "setup_cmd": "./setup.sh",
        "hooks": {"guard": "LSF_VERIF", "enable": "no source hooks are needed: harnesses import /repo/asl-workflow-engine/py at run time and plant stubs in their own process (LSF_VERIF=1 is exported by ./check for completeness)",
                  "baseline_off_cmd": "cd /repo && /venv/bin/python -m pytest -ra -q -p no:cacheprovider --timeout=900 --continue-on-collection-errors",
                  "source_commits": [], "add_only": True},
        "engines": [{"name": "vf", "path": "/verif/vf", "serves_properties": [c["property_id"] for c in checks],
                     "kind_free_text": "solver-based checking of the real code: CrossHair 0.0.110 (z3 5.1) symbolic execution of harnesses over the repository's functions and extracted closures; symnum (operator-overloading symbolic reals over z3, cvc5 cross-check) for numeric kernels; native replay of every counterexample"}],
        "checks": checks,
        "not_applicable": na,
        "notes": "Repository fixes (unguarded 'fix:' commits) are listed in /verif/known_findings.json with status=fixed.",
    }
    with open(os.path.join(ROOT, "MANIFEST.json"), "w") as f:
        json.dump(m, f, indent=1)
    print("claimed:", [c["property_id"] for c in checks], "not claimed:", len(na))

if __name__ == "__main__":
    main()
