#!/usr/bin/env python3
"""Regenerate /verif/MANIFEST.json from the table below (claimed checks = harness modules that exist)."""
import json, os
ROOT = os.path.dirname(os.path.dirname(os.path.abspath(__file__)))

S2NOTE = 'Trusted: SimBroker/sim_messaging (vf/sim.py) as the AMQP 0.9.1 contract (FIFO queues, unacked-until-acked, redelivery, mandatory returns, per-connection timers on a virtual clock), CrossHair/z3, clock/uuid/logger stubs, native json codec. The schedule variables branch in the simulated broker; symbolic failure flags / item counts / MaxConcurrency flow into the engine. Unwinding assertion on the decision vector. Outside: runs longer than the decision bound, fan-out > 2-3, the 1 s heartbeat back-stop, real RabbitMQ.'

CHECKS = {
 "C01": dict(
   technique="bounded symbolic execution (CrossHair + z3) of the real state handlers against a reference ASL interpreter, canonical schedule",
   text=("Selector-built machine families (every optional field of Pass/Task by presence flag and path pool, Choice/Wait/Fail/Succeed, Parallel and Map with "
         "symbolic item count and failing invocation, a 4-state chain) are run through the real StateEngine.notify under the canonical FIFO schedule and the terminal "
         "status and output/error name are compared with a reference interpreter written from the States Language. The solver closes every selector/leaf combination "
         "inside the bounds or returns a counterexample that is replayed natively. The in-band 'Error' member convention is a recorded known finding."),
   note="Trusted: vf/ref/asl_step.py, recording dispatchers, FastJson, clock/uuid stubs. Outside: other schedules (C02-C06), Retry/Catch (C07), paths outside the pool, documents deeper than 2, intrinsic functions (C13).",
   design="4/C01"),
 "C02": dict(
   technique="bounded whole-run model checking of the real engine over a simulated broker with a symbolic schedule (CrossHair + z3)",
   text=("The real StateEngine, TaskDispatcher and EventDispatcher run over SimBroker; a vector of symbolic integers chooses the next enabled action at every step and symbolic flags assign task failures. "
         "After every step a monitor checks that each execution's notifications are a prefix of [RUNNING, terminal], the record invariants (stopDate iff terminal, output iff SUCCEEDED, error/cause iff FAILED) "
         "and that the terminal record never changes; at quiescence every started execution has exactly one terminal notification. 'Confirmed' = every schedule of the scenario inside the decision bound."),
   note=S2NOTE, design="4/C02"),
 "C03": dict(
   technique="bounded whole-run model checking over a simulated broker with a symbolic schedule (CrossHair + z3)",
   text=("Same whole-run harness as C02 with the drain/carrier monitor: while an execution is RUNNING something carries it (queued or unacknowledged message, pending request, armed timer); no delivery is acknowledged twice; "
         "at quiescence unacknowledged_messages, branch_metadata, pending_requests, cancellers, orphaned_responses, broker-side unacked deliveries, timers and queues are empty - for sequential, Parallel, Map, Catch and Retry scenarios with every failure assignment and every schedule inside the bound."),
   note=S2NOTE + " The per-handler 'ack after consequences' ordering is observed on the broker op-log of these runs, not proved per handler.", design="4/C03"),
 "C05": dict(
   technique="bounded whole-run model checking with symbolic schedule, item count and MaxConcurrency (CrossHair + z3)",
   text=("Parallel (2-3 branches) and Map (0..3 items, MaxConcurrency 0..n+1, both symbolic and flowing into the engine's Range arithmetic) are run under every schedule inside the bound: "
         "output[i] is branch/item i's marker output, the state after the join is entered only after the last branch state exited, MapIterationStarted indices are exactly 0..n-1 once each and the number of in-flight iterations never exceeds MaxConcurrency."),
   note=S2NOTE, design="4/C05"),
 "C06": dict(
   technique="bounded whole-run model checking with symbolic schedule and failure assignment (CrossHair + z3)",
   text=("Parallel/Map scenarios with every failure assignment (none/one/both), with and without Catch and Retry, sibling kinds Task/Wait/Pass, under every schedule inside the bound; monitors C02+C03+C09 after every step: "
         "one terminal notification, immutable record, nothing appended to the history after the terminal event, no sibling state entered/exited after the fan-out failed, everything drained. "
         "Three genuine defects found here were repaired (57fdf5b, 195a6e3, ab88dc9)."),
   note=S2NOTE, design="4/C06"),
 "C07": dict(
   technique="CrossHair + z3 on the real handle_error (discrete policy), symnum z3 engine on the back-off arithmetic, whole-run timing on a virtual clock",
   text=("Per error name, retrier/catcher lists, MaxAttempts and RetryCount are symbolic selectors; the real notify -> on_response -> handle_error outcome (retry with RetryCount+1 / catch to Next with the Error Output placed by ResultPath into the original input / fail with E) must equal a reference policy. "
         "IntervalSeconds x BackoffRate^k x 1000, the <1 clamp, EnteredTime and the re-armed deferral are decided over unbounded symbolic integers/reals by z3 (unsat on every path, cvc5 cross-check). Outcome sequences err^j,success and a retried Parallel are run on the virtual clock."),
   note="Trusted: vf/ref/retry_policy.py, recording dispatchers, symnum (floats as exact reals), SimBroker. Outside: States.TaskFailed-as-wildcard cases (unspecified), RetryCount > 6 in the arithmetic kernel, ill-formed handler lists.",
   design="4/C07"),
 "C08": dict(
   technique="symnum (z3 over reals, real code executed on symbolic numbers) for deadlines; CrossHair for RFC 3339 offsets; virtual-clock whole runs",
   text=("The real asl_state_Wait and asl_state_Task_delegate are executed natively on symbolic instants (now, EnteredTime, StartTime, Seconds/Timestamp, TimeoutSeconds): the armed delay equals max(now, min(target, deadline)) - now and is never early, and the outcome (complete vs States.Timeout, task vs execution deadline) is the prescribed one - unsat on every path. "
         "parse_rfc3339_datetime is decided for every offset +-hh:mm (symbolic 6-character offset) and the Z form; whole runs check exact terminal instants for reply-before/never and Catch cases."),
   note="Trusted: symnum (floats as exact reals; IEEE rounding outside), recording shims for datetime in the parser kernel (cross-checked natively on 256 timestamps), SimBroker virtual clock. Unconstrained: ties target == deadline and events handled at/after the execution deadline.",
   design="4/C08"),
 "C09": dict(
   technique="bounded whole-run model checking with a history monitor after every step (CrossHair + z3)",
   text=("On every schedule of the scenario corpus (sequential, two concurrent executions, start routes, Parallel/Map with and without failures, Catch, Retry) the complete history is checked after every step: ids 1..n contiguous, previousEventId = id-1, non-decreasing timestamps, ExecutionStarted first with the input, "
         "terminal iff exactly one ExecutionSucceeded/Failed that is last and agrees with the record, StateExited only after a matching StateEntered, EXPRESS stores nothing."),
   note=S2NOTE, design="4/C09"),
 "C10": dict(
   technique="solver-enumerated call histories and argument combinations (CrossHair + z3 close the selector space) executed against the real handle_post of both front ends and compared with a map-based reference model after every call",
   text=("Every response (status, __type, body) and the three stores are compared with a reference model after each call of all histories of <= 3 (quick) / <= 4 (thorough) calls and of single calls over the product of argument pools (names incl. symbolic strings, ARNs, definitions, roles, types, logging configurations, status filters, wrong JSON types, non-object bodies), on both the asyncio and the blocking front end. "
         "Error responses must leave all stores deep-equal, no 5xx is admitted, a successful StartExecution publishes exactly one shared-queue start event carrying the returned ARN."),
   note="Trusted: CrossHair/z3 for exhausting the selector space, vf/ref/api_model.py, fake request/jsonify, recording dispatcher; the payload is concrete on each path and the handler runs natively on it. Outside: Quart/Flask HTTP layer, pagination, Redis/JSON stores.",
   design="4/C10"),
 "C11": dict(
   technique="bounded whole-run model checking with an agreement monitor after every step (CrossHair + z3)",
   text=("After every scheduling step the DescribeExecution record, the latest status-change notification and the last history event must agree on status, input, output/error; subject is '<stateMachineArn>.<status>', the CloudWatch envelope is complete, each status is published once, notification dates are int(seconds*1000) while the stored record keeps float seconds; EXPRESS stores nothing."),
   note=S2NOTE + " Redis-backed stores and two instances sharing a store are covered by C20's fake-Redis conditions, not here.", design="4/C11"),
 "C12": dict(
   technique="bounded symbolic execution (CrossHair + z3) of apply_path/apply_jsonpath/apply_resultpath/merge_result and the Pass handler against reference path semantics",
   text=("Selector-built documents with symbolic member names and leaves: selection never modifies the document, '$'/null/'$$'/definite paths return exactly the addressed value, misses raise PathMatchFailure; placement yields a finite tree with get(put(d,p,r),p)==r and an unchanged frame, for dot/bracket/index write paths built from symbolic strings and for results that alias the input. "
         "Two genuine defects were repaired (88753d8, 592d2e5); the null-document convention is a recorded known finding."),
   note="Trusted: vf/ref/paths.py, memoised jsonpath.normalize for the concrete read paths. Outside: indefinite paths (wildcards, filters, slices), names outside the alphabet, documents deeper/wider than 3.",
   design="4/C12"),
 "C14": dict(
   technique="bounded symbolic execution of the real Choice handler (CrossHair + z3), one condition per comparison operator",
   text=("Each of the 39 comparison operators, the *Path variants, And/Or/Not trees (depth <= 2) and rule ordering/Default/"
         "NoChoiceMatched is run symbolically through the real StateEngine.notify -> asl_state_Choice -> choose() closures and compared "
         "with a reference written from the States Language; the solver closes every path inside the stated value bounds or returns "
         "a counterexample that is replayed natively. Bounded: strings <= 1-3 chars, floats/timestamps from concrete pools."),
   note=("Trusted: CrossHair/z3, recording dispatcher stubs, constant json.dumps shim, clock/uuid stubs, the reference semantics in vf/ref/choice.py. "
         "Outside: longer strings, backslash before a non-'*' character in StringMatches patterns, type tests on a missing Variable."),
   design="4/C14"),
 "C16": dict(
   technique="CrossHair + z3 with unbounded symbolic sizes (opaque texts whose len() is a solver integer) at every enforcement point",
   text=("Each limit site (state output in change_state for Pass/Task/Map, task reply in handle_rpcmessage_response, history length guard, name length) is executed for real with the JSON codec replaced by a shim returning a text of symbolic length n; accept/reject is compared with n <= L for all n >= 0, in both directions, including the error name. "
         "Forbidden characters are decided over all names up to 3-4 characters. The terminal-state output gap is a recorded known finding."),
   note="Trusted: the size shim ('the JSON text has n characters' is an assumption). Outside: byte vs character length of non-ASCII task replies. API-side limits (StartExecution input, definition size, SendTaskSuccess output) are exercised with concrete boundary sizes by C10/C15.",
   design="4/C16"),
 "C17": dict(
   technique="bounded symbolic execution (CrossHair + z3) of create_arn/parse_arn/valid_name and the ARN minting/derivation sites",
   text=("Names are symbolic strings over an alphabet containing every ARN-significant and forbidden character; for every name the "
         "validator accepts the minted ARN must parse back into its parts and re-assemble to the same string, and every derivation site "
         "(start_execution, EXPRESS end_execution, history recovery, time-out back-stop, notifications) must arrive at the same state machine ARN."),
   note="Trusted: CrossHair/z3 regex and string models. Outside: names longer than the tier bound (3/4 characters); the parser is length-oblivious.",
   design="4/C17"),
 "C19": dict(
   technique="bounded symbolic execution (CrossHair + z3) of the real AMQP modules, EventDispatcher and TaskDispatcher over a recording fake of pika; differential blocking vs asyncio",
   text=("Address parsing and declared frames for all engine-built address strings (classic/quorum) and grammar-generated addresses, message field round trips incl. the expiration clamp, acknowledge for unbounded delivery tags, transport parity, and the routing decisions of publish / rpcmessage / child executions are closed by the solver inside the bounds. One genuine defect (infinite expiration) was repaired (5d1112b)."),
   note="Trusted: vf/fake_pika.py as the pika/AMQP contract. Outside: asyncio connection life-cycle under a real event loop, publisher confirms, real RabbitMQ; whole-run instance affinity is bounded to the scenarios of the S2 harness.",
   design="4/C19"),
}


CHECKS["C04"] = dict(
   technique="bounded whole-run model checking with a symbolic crash point and schedule over a simulated broker (CrossHair + z3)",
   text=("The engine process is killed either between two scheduling steps or inside a handler after the k-th broker operation (k symbolic), restarted with the same instance id over the surviving broker state (unacked deliveries requeued with redelivered=True) and run to quiescence: every started execution must reach a terminal status, all terminal notifications agree, nothing stays unacknowledged; for between-handler crashes the outcome equals the crash-free one and no task is requested twice. "
         "Corpus: Pass/Task chain, Wait, Parallel with a Task branch, Map with MaxConcurrency 1; two crashes in the thorough tier. One defect was repaired (fcd0ce1); the volatility of join results is a recorded known finding whose region is decided from the engine's state at the instant of the crash."),
   note=S2NOTE + " Crash = BaseException from the broker op hook / kill between steps; the definition store survives, everything else in the process is lost. Outside: broker crashes, crashes inside the broker client library, crashes during start().",
   design="4/C04")
CHECKS["C13"] = dict(
   technique="bounded symbolic execution (CrossHair + z3) of the real evaluate_payload_template against a reference evaluator written from the States Language, one condition per intrinsic x argument-shape class",
   text=("79 conditions call the real evaluate_payload_template with templates whose member names are symbolic and with intrinsic invocation strings assembled from symbolic pieces (2-3 character strings over an alphabet with , ' \\ ( ) { } [ ] ^ -, unbounded integers by reference, every JSON type, nesting up to depth 4) and compare value, exception class (only IntrinsicFailure / path failures may escape) and non-modification of template, input and context with the reference. "
         "Ten genuine defects were repaired (4e44408 ... 92cec11); the tokeniser's escape handling (D2) and the documented array-item extension (D12) are recorded known findings with exact regions."),
   note="Trusted: vf/ref/intrinsics.py, hashlib/base64/json.loads, CrossHair's model of randrange; set() restored to the real builtin (CrossHair's insertion-ordered model hides hash-order dependence). Outside: Format's text for booleans/null/floats, MathRandom distribution, UUID randomness, longer strings.",
   design="4/C13")
CHECKS["C18"] = dict(
   technique="solver-enumerated definition and event families (CrossHair + z3 close the selector space) run through the real StateLint validator, the real engine and the real dispatch/acknowledge",
   text=("(A) StateLint.validate returns a list, never raises, for 13 JSON kinds at every member of every role and for symbolic strings at the sinks that look inside strings; (B) for machine skeletons with symbolic targets, types, required-field presence and duplicated names, problems == [] implies that running the real engine never ends in one of the four 'Illegal State Machine' defences nor restarts itself; (C) 14 kinds x 8 shapes of poison events through the real dispatch: no exception escapes, the poison is acknowledged exactly once and healthy executions are unaffected. "
         "Four genuine defects were repaired (7275df8, 0157199, edc2805, 02205a4); the restart-forever behaviour of unvalidated definitions is a recorded known finding."),
   note="Trusted: CrossHair/z3, recording dispatchers; concrete definitions run outside the tracer once the selectors are decoded (cross-checked traced on a slice). Outside: definitions larger than the skeleton; the J2119 grammar text is taken as given; Parallel with Branches: [] (accepted, never terminates) is outside C18's text.",
   design="4/C18")
CHECKS["C20"] = dict(
   technique="bounded symbolic exploration (CrossHair + z3) of operation sequences over the real store classes, with in-memory contract models of redis/pottery/the file system and harness-controlled delivery of cache invalidations",
   text=("Every sequence of up to 4 (quick) / 5 (thorough) store operations - set, nested update, get-mutate-reassign, delete, append, set_ttl, re-open, cached read, delivery of the next pending invalidation - chosen by symbolic selectors over 2 keys, small value pools and one or two store instances is executed on the real JSONStore, SimpleStore, RedisDictStore and RedisListStore and every read is compared with a plain-dict oracle after every step; cached views must be current whenever no invalidation for the key is outstanding and the cache order must equal a reference LRU. "
         "Unreadable store files, the EXPIRE issued by set_ttl (unbounded symbolic ttl) and by the real start_execution/update_execution_history, and the factories are separate conditions. Two defects were repaired (3f2972f, 417edef); the shared-connection tracking defect is a recorded known finding."),
   note="Trusted: vf/fake_redis.py (Redis hash/list/DEL/EXISTS/EXPIRE/SCAN/PUBLISH and RESP2 client-tracking-with-redirect contract, pottery views), vf/memfs.py; sequence bodies run concretely once the selectors are decoded. Outside: real Redis/redis-py/pottery, thread scheduling, longer sequences, JSONStore nested updates never re-assigned before a restart, the 'empty value = absent key' convention.",
   design="4/C20")

CHECKS["C15"] = dict(
   technique="CrossHair + z3 on the real token/callback/child-launch kernels; bounded whole-run model checking of parent/child and callback scenarios over the simulated broker",
   text=("Tokens minted by the real apply_path are presented to the real SendTaskSuccess/SendTaskFailure handlers (symbolic event/instance ids): they decode to exactly (id+'.waitForTaskToken', reply queue); ill-formed, truncated and forged tokens and missing members are answered 400 and send nothing. "
         "handle_rpcmessage_response (callback vs ordinary reply, duplicate callbacks), handle_sfn_response (Output as JSON for :2, as string otherwise; failed child => error) and asl_service_states_startExecution (invalid combinations fail the task; routing and correlation id per form) are decided over all selector combinations. "
         "Whole runs: parent/child pairs (child succeeds, fails, outlives the parent's timeout; parent in a Parallel branch) for every integration form and callback streams (valid, duplicate, forged-then-valid, ordinary reply first, failure, forged only) under every schedule inside the bound."),
   note=S2NOTE + " Trusted additionally: vh_c10's request/jsonify driver. Known finding: tokens are not authenticated (well-formed forged tokens are accepted). Outside: grandchildren, more than one concurrent child, instance ids containing ':'.",
   design="4/C15")


# additions of the third session, appended to the texts above (see DESIGN.md section 0)
EXTRA = {
 "C12": " Added: ResultPath in bracket notation with member names that are not identifiers (recorded known finding), every spelling of a Context Object selection of the Task token.",
 "C13": " Added: numeric literal tokens (integers, fractions; exponent forms outside the claim), States.Format rendering of JSON scalars.",
 "C14": " Added: ...Path operands are read from the effective input (InputPath applied), the same Variable used by several rules.",
 "C15": " Added: the child result under its documented member names, a child or grandchild must stop when the parent Task timed out, cancelled children with a fan-out, callback streams with two callback Tasks / a retried callback Task, every spelling of the token selection ($$.Task.Token, bracket forms, whole $$.Task), callback output with an errorType member (recorded known finding).",
 "C16": " Added: the history limit cannot be intercepted by Retry/Catch, payload type validation of StartSyncExecution / SendTaskSuccess.",
 "C17": " Added: the Name a child execution is launched with (validated like the API's), names rebuilt by every deriving site for wordy names.",
 "C18": " Added: states named like keywords (Next, End, States ...) with each defect placed in them, ill-formed Task replies on the reply queue, numeric fields (MaxConcurrency, Seconds, TimeoutSeconds, HeartbeatSeconds) - validator-accepted values must run, the same definitions stored without validation must still end.",
 "C20": " Added: an execution record lost from the store while its events are in flight is restored, over the file and Redis stores; a symbolic crash point inside a JSON store write (the restarted store holds the state before or after the interrupted operation).",
 "C01": " Third session: $$.Execution.Input and $$ selections read by later states, and generated two-level fan-out machines (Parallel/Map roots, nested Parallel/Map, MaxConcurrency, Catch at three places, one failing leaf) compared with the reference interpreter under the canonical schedule.",
 "C02": " After quiescence the engine's periodic time-out back-stop is invoked long after the time-out and must find nothing to do; scenarios added for execution time-outs, three-level nesting, queue starts without message ids, the back-stop meeting an already ended execution.",
 "C03": " A further monitor requires that no timer of an ended execution stays armed (the uncancellable retry-delay timer is a recorded known finding); scenarios added for nested fan-out states entered after termination, empty Maps ending a Branch, ItemSelector failures.",
 "C04": " Added: a retried Task around the crash, Catch/Choice/Wait chain, the same crash points with Redis-backed records that survive the crash, and the redelivered flag through the REAL blocking and asyncio transports (fake pika) down to TaskDispatcher.execute_task; a parent blocked on a synchronous child execution across the crash (in-memory and Redis-backed records).",
 "C05": " One-step kernels run the fan-out site and the join's batch window of a Map on a symbolic-length list (<= 48 / 96) and symbolic MaxConcurrency; generated two-level machines, a fan-out state entered twice in a loop, Map in Map with MaxConcurrency, falsy outputs (null is a recorded known finding).",
 "C06": " Added: generated two-level machines with one failing leaf and Catchers at the nested state / root / leaf (first six scheduling decisions free in the quick tier), caught nested failure followed by an outer failure, three-level nesting, retried states sitting out their delay when a sibling fails.",
 "C07": " Added whole runs: Map retry budget across MaxConcurrency batches, Catcher ResultPath on fan-out states, ItemSelector and join (ResultSelector) failures retried/caught.",
 "C08": " Added: which deadline a timed-out Task blames (symnum, incl. events dispatched after the execution deadline), Wait/Task deadlines across a kill and restart on the virtual clock, fraction digits beyond six and lower case t/z (native cross-check).",
 "C09": " Added: Redis-backed runs whose history is read back through the REST handlers of the engine's own and of a second process after every step, re-used execution names, StateEntered counts over retried Map runs.",
 "C11": " Added: invariant fields must agree across all notifications of an execution; Redis-backed runs read through either process with cache invalidations delivered or pending (DescribeExecution, GetExecutionHistory, ListExecutions against the latest notification).",
}

NOT_YET = {}

def main():
    props = [json.loads(l) for l in open(os.path.join(ROOT, "properties.jsonl"))]
    checks = []; na = []
    for p in props:
        pid = p["id"]
        have = os.path.exists(os.path.join(ROOT, "harness", "vh_%s.py" % pid.lower()))
        if pid in CHECKS and have:
            c = CHECKS[pid]
            checks.append({
                "property_id": pid,
                "quick_cmd": "./check %s --tier quick" % pid,
                "thorough_cmd": "./check %s --tier thorough" % pid,
                "evidence_file": "/verif/evidence/%s.json" % pid,
                "replay_cmd_template": "./check %s --replay {path}" % pid,
                "engine": "vf",
                "level_claimed": {"category": "other", "text": c["text"] + EXTRA.get(pid, ""), "design_ref": c["design"]},
                "level_note": c["note"],
                "technique": c["technique"],
            })
        else:
            na.append({"property_id": pid, "reason": NOT_YET.get(pid, "check not built yet (work in progress; see DESIGN.md section 4/%s for the planned solver-based encoding)" % pid)})
    m = {
        "version": 1,
        "setup_cmd": "./setup.sh",
        "hooks": {"guard": "LSF_VERIF", "enable": "no source hooks are needed: harnesses import /repo/asl-workflow-engine/py at run time and plant stubs in their own process (LSF_VERIF=1 is exported by ./check for completeness)",
                  "baseline_off_cmd": "cd /repo && /venv/bin/python -m pytest -ra -q -p no:cacheprovider --timeout=900 --continue-on-collection-errors",
                  "source_commits": [], "add_only": True},
        "engines": [{"name": "vf", "path": "/verif/vf", "serves_properties": [c["property_id"] for c in checks],
                     "kind_free_text": "solver-based checking of the real code: CrossHair 0.0.110 (z3 5.1) symbolic execution of harnesses over the repository's functions and extracted closures; symnum (operator-overloading symbolic reals over z3, cvc5 cross-check) for numeric kernels; native replay of every counterexample"}],
        "checks": checks,
        "not_applicable": na,
        "notes": "Repository fixes (unguarded 'fix:' commits) are listed in /verif/known_findings.json with status=fixed.",
    }
    with open(os.path.join(ROOT, "MANIFEST.json"), "w") as f:
        json.dump(m, f, indent=1)
    print("claimed:", [c["property_id"] for c in checks], "not claimed:", len(na))

if __name__ == "__main__":
    main()
