#!/bin/bash
# tools/run_thorough.sh [IDs...] - run thorough commands one after the other without touching /verif/evidence (scratch evidence dir)
cd "$(dirname "$0")/.."
ids=${@:-C01 C02 C03 C04 C05 C06 C07 C08 C09 C10 C11 C12 C13 C14 C15 C16 C17 C18 C19 C20}
mkdir -p /tmp/runthor /tmp/thorough_ev
for id in $ids; do
  t0=$(date +%s)
  VERIF_EVIDENCE_DIR=/tmp/thorough_ev ./check $id --tier thorough > /tmp/runthor/$id.log 2>&1
  rc=$?
  echo "$id thorough exit=$rc wall=$(( $(date +%s) - t0 ))s $(grep -c '^KNOWN-FINDING' /tmp/runthor/$id.log) known $(grep -E '^C[0-9]+ tier=' /tmp/runthor/$id.log)"
done
