#!/usr/bin/env python3
"""Native smoke run of every whole-run scenario under a few fixed schedules (development aid, not a check)."""
import sys, os, itertools
sys.path.insert(0, os.path.dirname(os.path.dirname(os.path.abspath(__file__))))
import vf; vf.setup_paths()
import s2_scenarios as s
ALL = {"C02", "C03", "C06", "C09", "C11"}
SCHEDS = [[0] * 12, [1] * 12, [2, 1, 0, 1, 2, 0, 1, 1, 0, 2, 0, 1], [-1] * 12]


def go(name, *fixed):
    import inspect
    fn = getattr(s, name)
    n = len(inspect.signature(fn).parameters) - 1 - len(fixed)
    for sch in SCHEDS:
        try:
            r = fn(ALL, *fixed, *sch[:n])
        except Exception as e:
            r = "EXC %s: %s" % (type(e).__name__, e)
        if r:
            print(name, fixed, sch[:n], "->", r[:220])


for fail in (False, True):
    for typ in (0, 1):
        go("seq_chain", fail, 0, typ)
for v in range(8):
    go("seq_misc", v, 0)
go("two_execs", True, 0); go("two_execs", False, 1)
for r in range(3):
    go("start_routes", r, 0)
for fa, fb in itertools.product((False, True), repeat=2):
    go("par2", fa, fb, 0)
    for sib in range(3):
        go("par_catch", fa, fb, sib)
go("par_pass_task", False); go("par_pass_task", True)
for nf in range(3):
    for sib in range(2):
        go("par_retry", nf, sib)
for n in range(4):
    for mc in range(0, n + 2):
        go("map_conc", n, mc)
    for f in range(-1, n):
        go("map_items", n, 2, f)
go("par3")
go("par_wait_fail")
for b in (False, True):
    go("par_branch_retry", b); go("par_inner_catch", b)
print("smoke done")
