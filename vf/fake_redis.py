"""In-memory stand-ins for the `redis` and `pottery` packages (neither is installed).

Only documented contracts are modelled; this file is part of the trusted base of
the properties that use it (C20, C11).

Redis server (class FakeServer, one global instance SERVER):
  * a keyspace of hashes and lists (field/element values are bytes), DEL, EXISTS,
    EXPIRE (recorded; a key's ttl is dropped by DEL, a ttl <= 0 deletes the key;
    keys never expire by themselves: virtual time does not advance),
    SCAN (one batch: returns (0, [matching keys as bytes])), INFO server,
    CLIENT ID, PUBLISH / SUBSCRIBE.
  * Server-assisted client-side caching in RESP2 redirect mode
    (https://redis.io/topics/client-side-caching):
      - CLIENT TRACKING ON REDIRECT <id> marks the issuing connection as tracking;
        re-issuing it replaces the redirect target; CLIENT TRACKING OFF clears it.
      - every key named by a read-only command issued on a tracking connection is
        remembered for that connection (whether or not the key exists);
      - when a remembered key is modified by anybody (including the same
        connection: NOLOOP is not used) - created, written, deleted, EXPIREd - one
        invalidation message for it is sent to the redirect connection of every
        connection remembering it, and the key is forgotten (one message per read);
      - the message travels as a Pub/Sub message on channel __redis__:invalidate
        whose data is a list with the key (bytes); it is only sent when the target
        connection is in Pub/Sub mode.
    Messages are QUEUED per target connection in FIFO order; nothing is delivered
    until the harness calls SERVER.deliver(target_id) (this replaces the tracker
    thread: thread scheduling is outside every claim).

redis-py (class Redis): one `Redis` object = one logical connection with its own
client id (single-threaded use of a redis-py pool re-uses one connection);
`Redis(connection_pool=p)` = a further connection to the same server; values come
back as bytes (decode_responses is off).

pottery: `RedisDict(mapping?, redis=, key=)` is a MutableMapping view over the
Redis hash `key` whose fields and values are JSON texts; `RedisList(iterable?,
redis=, key=)` a MutableSequence view over the Redis list `key`; constructing
either with initial content raises KeyExistsError if the key exists.
"""
import sys
import json
import types
import fnmatch
from collections.abc import MutableMapping, MutableSequence

INVALIDATE = "__redis__:invalidate"


class RedisError(Exception):
    pass


class ResponseError(RedisError):
    pass


class DataError(RedisError):
    pass


class ConnectionError(RedisError):   # same name as in redis.exceptions
    pass


def _s(x):
    """Key / channel names as str."""
    if isinstance(x, bytes):
        return x.decode("utf-8")
    if isinstance(x, str):
        return x
    raise DataError("Invalid input of type: %r" % type(x).__name__)


def _b(x):
    """Values as redis-py encodes them on the wire."""
    if isinstance(x, bytes):
        return x
    if isinstance(x, str):
        return x.encode("utf-8")
    if isinstance(x, bool):
        raise DataError("Invalid input of type: 'bool'")
    if isinstance(x, (int, float)):
        return repr(x).encode("utf-8")
    raise DataError("Invalid input of type: %r" % type(x).__name__)


class _ClientState:
    def __init__(self, cid):
        self.id = cid
        self.open = True
        self.tracking = False
        self.redirect = None
        self.subs = {}        # channel -> handler or None   (non-empty == Pub/Sub mode)
        self.unhandled = []   # messages for channels without a handler (what listen() yields)


class FakeServer:
    def __init__(self, version="6.2.0"):
        self.reset(version)

    def reset(self, version="6.2.0"):
        self.version = version
        self.data = {}        # key -> ("hash", {field: value}) | ("list", [value, ...])
        self.expiry = {}      # key -> seconds given to the last EXPIRE
        self.clients = {}     # id -> _ClientState
        self.next_id = 7
        self.tracked = {}     # key -> [client ids remembering it]
        self.pending = {}     # target client id -> [message, ...] (FIFO, undelivered)
        self.log = []         # (client id, COMMAND, args...) for every keyspace/tracking command
        self.ping_failures = 0

    # -- connections ------------------------------------------------------
    def connect(self):
        cid = self.next_id
        self.next_id += 1
        self.clients[cid] = _ClientState(cid)
        return cid

    # -- tracking ---------------------------------------------------------
    def _read(self, cid, key):
        st = self.clients.get(cid)
        if st is not None and st.tracking:
            ids = self.tracked.setdefault(key, [])
            if cid not in ids:
                ids.append(cid)

    def _modified(self, key):
        ids = self.tracked.pop(key, None)
        if not ids:
            return
        for cid in ids:
            st = self.clients.get(cid)
            if st is None or not st.open or not st.tracking:
                continue
            if st.redirect is None:
                continue          # RESP2 without redirection cannot carry push messages
            target = self.clients.get(st.redirect)
            if target is None or not target.open or not target.subs:
                continue          # redirect broken / target not in Pub/Sub mode
            self._queue(target.id, INVALIDATE, [key.encode("utf-8")])

    def _queue(self, target_id, channel, data):
        msg = {"type": "message", "pattern": None, "channel": channel.encode("utf-8"), "data": data}
        self.pending.setdefault(target_id, []).append(msg)

    def owed(self, target_id, key):
        """Is an invalidation for `key` queued for `target_id` and not yet delivered?"""
        for m in self.pending.get(target_id, ()):
            d = m["data"]
            if m["channel"] == INVALIDATE.encode("utf-8") and isinstance(d, list) and key.encode("utf-8") in d:
                return True
        return False

    def n_pending(self, target_id):
        return len(self.pending.get(target_id, ()))

    def deliver(self, target_id):
        """Deliver the oldest queued message of `target_id` (what its listener thread
        would do next).  Returns False when nothing is queued.  Exceptions raised by
        the handler propagate (in the real client they would kill the listener)."""
        q = self.pending.get(target_id)
        if not q:
            return False
        msg = q.pop(0)
        st = self.clients.get(target_id)
        if st is None or not st.open:
            return True
        ch = msg["channel"].decode("utf-8")
        if ch not in st.subs:
            return True
        handler = st.subs[ch]
        if handler is None:
            st.unhandled.append(msg)
        else:
            handler(msg)
        return True

    # -- keyspace helpers -------------------------------------------------
    def _get(self, key, kind):
        e = self.data.get(key)
        if e is None:
            return None
        if e[0] != kind:
            raise ResponseError("WRONGTYPE Operation against a key holding the wrong kind of value")
        return e[1]

    def _delete(self, key):
        if key in self.data:
            del self.data[key]
            self.expiry.pop(key, None)
            self._modified(key)
            return 1
        return 0


SERVER = FakeServer()


class ConnectionPool:
    def __init__(self, server=None, url=None):
        self.server = server if server is not None else SERVER
        self.url = url

    def disconnect(self):
        pass


class PubSub:
    def __init__(self, client, ignore_subscribe_messages=False):
        self.client = client
        self.ignore_subscribe_messages = ignore_subscribe_messages

    @property
    def channels(self):
        return self.client._st.subs

    def subscribe(self, *args, **kwargs):
        for ch in args:
            self.client._st.subs[_s(ch)] = None
        for ch, handler in kwargs.items():
            self.client._st.subs[_s(ch)] = handler

    def unsubscribe(self, *args):
        subs = self.client._st.subs
        for ch in (args or list(subs)):
            subs.pop(_s(ch), None)

    def get_message(self, ignore_subscribe_messages=False, timeout=0):
        u = self.client._st.unhandled
        return u.pop(0) if u else None

    def listen(self):
        """Non-blocking stand-in: yields the messages already delivered to channels
        that have no handler and returns (the real one blocks on the socket)."""
        u = self.client._st.unhandled
        while u:
            yield u.pop(0)

    def close(self):
        self.client._st.subs.clear()


class Redis:
    def __init__(self, host="localhost", port=6379, db=0, connection_pool=None, **kwargs):
        self.connection_pool = connection_pool if connection_pool is not None else ConnectionPool()
        self.server = self.connection_pool.server
        self._id = self.server.connect()

    @classmethod
    def from_url(cls, url, **kwargs):
        return cls(connection_pool=ConnectionPool(SERVER, url))

    @property
    def _st(self):
        return self.server.clients[self._id]

    def _log(self, *entry):
        self.server.log.append((self._id,) + entry)

    # -- connection level -------------------------------------------------
    def ping(self):
        if self.server.ping_failures > 0:
            self.server.ping_failures -= 1
            raise ConnectionError("Error 111 connecting to fake. Connection refused.")
        return True

    def info(self, section=None):
        return {"redis_version": self.server.version}

    def client_id(self):
        return self._id

    def pubsub(self, **kwargs):
        return PubSub(self, **kwargs)

    def close(self):
        pass

    def execute_command(self, *args):
        cmd = [a.upper() if isinstance(a, str) else a for a in args]
        if len(cmd) >= 3 and cmd[0] == "CLIENT" and cmd[1] == "TRACKING":
            self._log(*cmd)
            if cmd[2] == "OFF":
                self._st.tracking = False
                self._st.redirect = None
                return b"OK"
            if cmd[2] == "ON":
                redirect = None
                if len(cmd) >= 5 and cmd[3] == "REDIRECT":
                    redirect = int(cmd[4])
                    if redirect == self._id:
                        raise ResponseError("A client can't redirect its tracking to itself")
                    if redirect not in self.server.clients or not self.server.clients[redirect].open:
                        raise ResponseError("The client ID you want redirect to does not exist")
                elif len(cmd) > 3:
                    raise ResponseError("unsupported CLIENT TRACKING option in fake: %r" % (cmd[3:],))
                self._st.tracking = True
                self._st.redirect = redirect
                return b"OK"
        raise ResponseError("fake redis: unsupported command %r" % (args,))

    def publish(self, channel, message):
        ch = _s(channel)
        n = 0
        for st in self.server.clients.values():
            if st.open and ch in st.subs:
                self.server._queue(st.id, ch, _b(message))
                n += 1
        return n

    # -- generic keys -----------------------------------------------------
    def delete(self, *keys):
        n = 0
        for k in keys:
            k = _s(k)
            self._log("DEL", k)
            n += self.server._delete(k)
        return n

    def exists(self, *keys):
        n = 0
        for k in keys:
            k = _s(k)
            self._log("EXISTS", k)
            self.server._read(self._id, k)
            if k in self.server.data:
                n += 1
        return n

    def expire(self, name, time):
        k = _s(name)
        self._log("EXPIRE", k, time)
        if k not in self.server.data:
            return False
        if time <= 0:
            self.server._delete(k)
            return True
        self.server.expiry[k] = time
        self.server._modified(k)
        return True

    def ttl(self, name):
        k = _s(name)
        self.server._read(self._id, k)
        if k not in self.server.data:
            return -2
        return self.server.expiry.get(k, -1)

    def scan(self, cursor=0, match=None, count=None, _type=None):
        self._log("SCAN", cursor, match)
        pat = None if match is None else _s(match)
        out = []
        for k in self.server.data:
            if pat is None or _glob(pat, k):
                out.append(k.encode("utf-8"))
        return 0, out

    def scan_iter(self, match=None, count=None, _type=None):
        return iter(self.scan(0, match)[1])

    def keys(self, pattern="*"):
        return self.scan(0, pattern)[1]

    # -- hashes -----------------------------------------------------------
    def hset(self, name, key=None, value=None, mapping=None):
        k = _s(name)
        items = []
        if key is not None:
            items.append((_b(key), _b(value)))
        if mapping:
            for f, v in mapping.items():
                items.append((_b(f), _b(v)))
        if not items:
            raise DataError("'hset' with no key value pairs")
        self._log("HSET", k)
        h = self.server._get(k, "hash")
        if h is None:
            h = {}
            self.server.data[k] = ("hash", h)
        added = 0
        for f, v in items:
            if f not in h:
                added += 1
            h[f] = v
        self.server._modified(k)
        return added

    def hget(self, name, key):
        k = _s(name)
        self._log("HGET", k)
        self.server._read(self._id, k)
        h = self.server._get(k, "hash")
        return None if h is None else h.get(_b(key))

    def hdel(self, name, *keys):
        k = _s(name)
        self._log("HDEL", k)
        h = self.server._get(k, "hash")
        if h is None:
            return 0
        n = 0
        for f in keys:
            f = _b(f)
            if f in h:
                del h[f]
                n += 1
        if n:
            if not h:
                del self.server.data[k]
                self.server.expiry.pop(k, None)
            self.server._modified(k)
        return n

    def hlen(self, name):
        k = _s(name)
        self._log("HLEN", k)
        self.server._read(self._id, k)
        h = self.server._get(k, "hash")
        return 0 if h is None else len(h)

    def hexists(self, name, key):
        k = _s(name)
        self._log("HEXISTS", k)
        self.server._read(self._id, k)
        h = self.server._get(k, "hash")
        return False if h is None else _b(key) in h

    def hkeys(self, name):
        k = _s(name)
        self._log("HKEYS", k)
        self.server._read(self._id, k)
        h = self.server._get(k, "hash")
        return [] if h is None else list(h)

    def hgetall(self, name):
        k = _s(name)
        self._log("HGETALL", k)
        self.server._read(self._id, k)
        h = self.server._get(k, "hash")
        return {} if h is None else dict(h)

    def hscan(self, name, cursor=0, match=None, count=None):
        return 0, self.hgetall(name)

    # -- lists ------------------------------------------------------------
    def _push(self, name, values, left):
        k = _s(name)
        vals = [_b(v) for v in values]
        if not vals:
            raise ResponseError("wrong number of arguments for push command")
        self._log("LPUSH" if left else "RPUSH", k)
        l = self.server._get(k, "list")
        if l is None:
            l = []
            self.server.data[k] = ("list", l)
        for v in vals:
            if left:
                l.insert(0, v)
            else:
                l.append(v)
        self.server._modified(k)
        return len(l)

    def rpush(self, name, *values):
        return self._push(name, values, False)

    def lpush(self, name, *values):
        return self._push(name, values, True)

    def llen(self, name):
        k = _s(name)
        self._log("LLEN", k)
        self.server._read(self._id, k)
        l = self.server._get(k, "list")
        return 0 if l is None else len(l)

    def lindex(self, name, index):
        k = _s(name)
        self._log("LINDEX", k)
        self.server._read(self._id, k)
        l = self.server._get(k, "list")
        if l is None:
            return None
        n = len(l)
        if index < 0:
            index += n
        if index < 0 or index >= n:
            return None
        return l[index]

    def lrange(self, name, start, end):
        k = _s(name)
        self._log("LRANGE", k)
        self.server._read(self._id, k)
        l = self.server._get(k, "list")
        if l is None:
            return []
        n = len(l)
        if start < 0:
            start = max(n + start, 0)
        if end < 0:
            end = n + end
        return list(l[start:end + 1]) if end >= start else []

    def lset(self, name, index, value):
        k = _s(name)
        self._log("LSET", k)
        l = self.server._get(k, "list")
        if l is None:
            raise ResponseError("no such key")
        n = len(l)
        if index < 0:
            index += n
        if index < 0 or index >= n:
            raise ResponseError("index out of range")
        l[index] = _b(value)
        self.server._modified(k)
        return True

    def _ldel_index(self, name, index):
        """Remove one element by position (pottery does it with LSET sentinel + LREM)."""
        k = _s(name)
        self._log("LREM", k)
        l = self.server._get(k, "list")
        n = 0 if l is None else len(l)
        if index < 0:
            index += n
        if l is None or index < 0 or index >= n:
            raise ResponseError("index out of range")
        del l[index]
        if not l:
            del self.server.data[k]
            self.server.expiry.pop(k, None)
        self.server._modified(k)


StrictRedis = Redis


def _glob(pat, s):
    """Redis glob-style MATCH.  The only patterns the store issues are '<prefix>:*'."""
    if pat.endswith("*") and not any(c in pat[:-1] for c in "*?[]\\"):
        return s.startswith(pat[:-1])
    return fnmatch.fnmatchcase(s, pat)


# ---------------------------------------------------------------------------
# pottery
# ---------------------------------------------------------------------------
class PotteryError(Exception):
    pass


class KeyExistsError(PotteryError):
    pass


class _Base:
    _n = 0

    def __init__(self, *, redis=None, key=None):
        self.redis = redis if redis is not None else Redis()
        if key is None:
            _Base._n += 1
            key = "pottery:%06d" % _Base._n
        self.key = key

    @staticmethod
    def _encode(value):
        return json.dumps(value, sort_keys=True)

    @staticmethod
    def _decode(value):
        return json.loads(value.decode("utf-8"))

    def _same(self, other):
        return (type(self) is type(other) and self.redis.connection_pool is other.redis.connection_pool
                and self.key == other.key)


class RedisDict(_Base, MutableMapping):
    def __init__(self, arg=(), *, redis=None, key=None, **kwargs):
        _Base.__init__(self, redis=redis, key=key)
        if arg or kwargs:
            if self.redis.exists(self.key):
                raise KeyExistsError(self.key)
            to_set = {}
            if hasattr(arg, "items"):
                arg = arg.items()
            for k, v in arg:
                to_set[k] = v
            for k, v in kwargs.items():
                to_set[k] = v
            enc = {self._encode(k): self._encode(v) for k, v in to_set.items()}
            if enc:
                self.redis.hset(self.key, mapping=enc)

    def __getitem__(self, key):
        v = self.redis.hget(self.key, self._encode(key))
        if v is None:
            raise KeyError(key)
        return self._decode(v)

    def __setitem__(self, key, value):
        self.redis.hset(self.key, self._encode(key), self._encode(value))

    def __delitem__(self, key):
        if not self.redis.hdel(self.key, self._encode(key)):
            raise KeyError(key)

    def __iter__(self):
        for f in self.redis.hkeys(self.key):
            yield self._decode(f)

    def __len__(self):
        return self.redis.hlen(self.key)

    def __contains__(self, key):
        try:
            return bool(self.redis.hexists(self.key, self._encode(key)))
        except TypeError:
            return False

    def to_dict(self):
        return {self._decode(f): self._decode(v) for f, v in self.redis.hgetall(self.key).items()}

    def __eq__(self, other):
        if self._same(other):
            return True
        r = MutableMapping.__eq__(self, other)
        return False if r is NotImplemented else r

    def __ne__(self, other):
        return not self.__eq__(other)

    __hash__ = None

    def __repr__(self):
        return "RedisDict" + repr(self.to_dict())


class RedisList(_Base, MutableSequence):
    def __init__(self, iterable=(), *, redis=None, key=None):
        _Base.__init__(self, redis=redis, key=key)
        if iterable:
            if self.redis.exists(self.key):
                raise KeyExistsError(self.key)
            enc = [self._encode(v) for v in iterable]
            if enc:
                self.redis.rpush(self.key, *enc)

    def __getitem__(self, index):
        if isinstance(index, slice):
            return [self._decode(v) for v in self.redis.lrange(self.key, 0, -1)][index]
        v = self.redis.lindex(self.key, index)
        if v is None:
            raise IndexError("list index out of range")
        return self._decode(v)

    def __setitem__(self, index, value):
        if isinstance(index, slice):
            raise NotImplementedError("fake pottery: slice assignment")
        try:
            self.redis.lset(self.key, index, self._encode(value))
        except ResponseError:
            raise IndexError("list assignment index out of range")

    def __delitem__(self, index):
        if isinstance(index, slice):
            raise NotImplementedError("fake pottery: slice deletion")
        try:
            self.redis._ldel_index(self.key, index)
        except ResponseError:
            raise IndexError("list assignment index out of range")

    def __len__(self):
        return self.redis.llen(self.key)

    def insert(self, index, value):
        enc = self._encode(value)
        n = self.redis.llen(self.key)
        if index < 0:
            index = max(n + index, 0)
        if index <= 0:
            self.redis.lpush(self.key, enc)
        elif index >= n:
            self.redis.rpush(self.key, enc)
        else:
            tail = self.redis.lrange(self.key, index, -1)
            for _ in tail:
                self.redis._ldel_index(self.key, index)
            self.redis.rpush(self.key, enc, *tail)

    def append(self, value):
        self.redis.rpush(self.key, self._encode(value))

    def extend(self, values):
        enc = [self._encode(v) for v in values]
        if enc:
            self.redis.rpush(self.key, *enc)

    def to_list(self):
        return [self._decode(v) for v in self.redis.lrange(self.key, 0, -1)]

    def __iter__(self):
        return iter(self.to_list())

    def __eq__(self, other):
        if self._same(other):
            return True
        if not isinstance(other, (list, tuple, MutableSequence)):
            return False
        mine = self.to_list()
        theirs = list(other)
        return mine == theirs

    def __ne__(self, other):
        return not self.__eq__(other)

    __hash__ = None

    def __repr__(self):
        return "RedisList" + repr(self.to_list())


# ---------------------------------------------------------------------------
# threading stand-in for store.py's namespace: the tracker thread is never run;
# the harness delivers queued messages itself via SERVER.deliver().
# ---------------------------------------------------------------------------
class FakeThread:
    def __init__(self, group=None, target=None, name=None, args=(), kwargs=None, daemon=None):
        self.target = target
        self.daemon = daemon
        self.started = False

    def start(self):
        self.started = True

    def join(self, timeout=None):
        pass

    def is_alive(self):
        return False


class FakeThreading:
    Thread = FakeThread

    @staticmethod
    def current_thread():
        return FakeThread()


def install():
    """Make `import redis` / `import pottery` resolve to these fakes (only when the
    real packages are absent, which is the case in this environment)."""
    this = sys.modules[__name__]
    if "redis" not in sys.modules:
        m = types.ModuleType("redis")
        for n in ("Redis", "StrictRedis", "ConnectionPool", "RedisError", "ResponseError", "DataError", "ConnectionError"):
            setattr(m, n, getattr(this, n))
        ex = types.ModuleType("redis.exceptions")
        for n in ("RedisError", "ResponseError", "DataError", "ConnectionError"):
            setattr(ex, n, getattr(this, n))
        m.exceptions = ex
        m.__fake__ = True
        sys.modules["redis"] = m
        sys.modules["redis.exceptions"] = ex
    if "pottery" not in sys.modules:
        p = types.ModuleType("pottery")
        for n in ("RedisDict", "RedisList", "KeyExistsError", "PotteryError"):
            setattr(p, n, getattr(this, n))
        p.__fake__ = True
        sys.modules["pottery"] = p
    return this
