"""fake_pika - a synchronous, recording stand-in for the `pika` package (pika is
not installed in the verification environment).

    from vf import fake_pika
    fake_pika.install()                 # BEFORE importing asl_workflow_engine.amqp_0_9_1_messaging*
    broker = fake_pika.new_broker()     # fresh simulated AMQP 0.9.1 broker (per path / per test)

What is modelled (the *trusted* contract, written from the pika 1.x API
documentation and the AMQP 0.9.1 / RabbitMQ semantics the repository relies on):

* `pika.BlockingConnection` / `BlockingChannel` (synchronous methods that return
  the reply frame or raise `pika.exceptions.ChannelClosedByBroker`) and
  `pika.adapters.asyncio_connection.AsyncioConnection` / `pika.channel.Channel`
  (same methods taking `callback=`; the reply is delivered by calling the
  callback *synchronously*, a broker error closes the channel and is reported to
  the `add_on_close_callback` callbacks).  Both front ends share one `Broker`.
* Every method frame sent by the client is appended to `broker.frames` as
  `(method, channel_id, {argument: value})` *before* the broker acts on it.
* exchange.declare (passive -> 404 NOT_FOUND when absent; re-declaration with
  another type/durability -> 406), queue.declare (server-named queues for "",
  passive 404, exclusive owner 405 RESOURCE_LOCKED, property mismatch 406),
  queue.bind (404 for unknown queue/exchange), basic.qos (prefetch applies to
  consumers started afterwards on that channel), basic.consume (exclusive: 403
  ACCESS_REFUSED when the queue already has a consumer, or has an exclusive
  one), basic.publish (default/direct/fanout/topic routing; `mandatory` +
  unroutable -> basic.return; str bodies are UTF-8 encoded like pika does; the
  properties are copied as the wire would; an `expiration` that is not the
  decimal text of a non-negative integer, or a non-str short-string field,
  closes the channel with 406 PRECONDITION_FAILED like RabbitMQ),
  basic.ack (single / multiple / tag 0 + multiple = all; unknown tag -> 406),
  basic.recover(requeue), channel/connection close (unacked messages are
  requeued with redelivered=True, exclusive queues deleted).
* Delivery happens only inside `Broker.pump()` (called by
  `BlockingChannel.start_consuming()` / `BlockingConnection.process_data_events()`
  or by the harness): one message at a time, to the highest `x-priority`
  consumer of the queue that has prefetch credit (`broker.choose` may override
  the choice among equals), with a per-channel increasing delivery tag.
  `start_consuming()` returns when nothing is deliverable any more (the real
  one blocks for ever); `broker.on_start_consuming` lets a harness run a script
  "inside the event loop".
* Timers (`call_later`, `_adapter_call_later`) and thread-safe callbacks are
  recorded; the harness fires them (`connection.fire_timers()`), thread-safe
  callbacks run at the next pump.

Tables are association *lists* searched with `==`, never dicts keyed by names:
under CrossHair a symbolic queue name then forks on equality instead of being
realised by hashing.

NOT modelled: sockets, heart-beats, flow control, publisher confirms beyond
recording `confirm_delivery`, headers exchanges, TTL expiry, dead-lettering,
queue length limits, alternate exchanges, transactions.
"""
import sys, types, urllib.parse

# --------------------------------------------------------------------------- exceptions


class AMQPError(Exception):
    pass


class AMQPConnectionError(AMQPError):
    pass


class ConnectionClosed(AMQPConnectionError):
    def __init__(self, reply_code=0, reply_text=""):
        super().__init__(reply_code, reply_text)
        self.reply_code = reply_code
        self.reply_text = reply_text


class ConnectionClosedByBroker(ConnectionClosed):
    pass


class ConnectionWrongStateError(AMQPConnectionError):
    pass


class IncompatibleProtocolError(AMQPConnectionError):
    pass


class AMQPChannelError(AMQPError):
    pass


class ChannelWrongStateError(AMQPChannelError):
    pass


class ChannelClosed(AMQPChannelError):
    def __init__(self, reply_code=0, reply_text=""):
        super().__init__(reply_code, reply_text)
        self.reply_code = reply_code
        self.reply_text = reply_text


class ChannelClosedByBroker(ChannelClosed):
    pass


class ChannelClosedByClient(ChannelClosed):
    pass


class NackError(AMQPChannelError):
    def __init__(self, messages=()):
        super().__init__(messages)
        self.messages = messages


class UnroutableError(AMQPChannelError):
    def __init__(self, messages=()):
        super().__init__(messages)
        self.messages = messages


# --------------------------------------------------------------------------- spec


class BasicProperties(object):
    FIELDS = ("content_type", "content_encoding", "headers", "delivery_mode", "priority", "correlation_id",
              "reply_to", "expiration", "message_id", "timestamp", "type", "user_id", "app_id", "cluster_id")
    SHORTSTR = ("content_type", "content_encoding", "correlation_id", "reply_to", "expiration", "message_id",
                "type", "user_id", "app_id", "cluster_id")

    def __init__(self, content_type=None, content_encoding=None, headers=None, delivery_mode=None, priority=None,
                 correlation_id=None, reply_to=None, expiration=None, message_id=None, timestamp=None, type=None,
                 user_id=None, app_id=None, cluster_id=None):
        self.content_type = content_type
        self.content_encoding = content_encoding
        self.headers = headers
        self.delivery_mode = delivery_mode
        self.priority = priority
        self.correlation_id = correlation_id
        self.reply_to = reply_to
        self.expiration = expiration
        self.message_id = message_id
        self.timestamp = timestamp
        self.type = type
        self.user_id = user_id
        self.app_id = app_id
        self.cluster_id = cluster_id

    def as_dict(self):
        return {f: getattr(self, f) for f in self.FIELDS}

    def wire_copy(self):
        """What the receiving side decodes: an independent object with equal fields
        (the headers table is copied one level deep)."""
        d = self.as_dict()
        if isinstance(d["headers"], dict):
            d["headers"] = dict(d["headers"])
        return BasicProperties(**d)

    def __repr__(self):
        return "<BasicProperties %r>" % ({k: v for k, v in self.as_dict().items() if v is not None},)


def is_decimal_nonneg(text):
    """The decimal text of a non-negative integer (what RabbitMQ accepts as `expiration`)."""
    if not isinstance(text, str) or len(text) == 0:
        return False
    for ch in text:
        if not ("0" <= ch <= "9"):
            return False
    return True


class _Method(object):
    NAME = "?"

    def __init__(self, **kw):
        self.__dict__.update(kw)

    def __repr__(self):
        return "<%s %r>" % (self.NAME, self.__dict__)


class Basic(object):
    class Ack(_Method):
        NAME = "Basic.Ack"

    class Nack(_Method):
        NAME = "Basic.Nack"

    class Deliver(_Method):
        NAME = "Basic.Deliver"

    class Return(_Method):
        NAME = "Basic.Return"

    class ConsumeOk(_Method):
        NAME = "Basic.ConsumeOk"

    class QosOk(_Method):
        NAME = "Basic.QosOk"


class Queue(object):
    class DeclareOk(_Method):
        NAME = "Queue.DeclareOk"

    class BindOk(_Method):
        NAME = "Queue.BindOk"


class Exchange(object):
    class DeclareOk(_Method):
        NAME = "Exchange.DeclareOk"


class Frame(object):
    """pika.frame.Method: the reply handed back by a synchronous method / callback."""
    def __init__(self, channel_number, method):
        self.channel_number = channel_number
        self.method = method


# --------------------------------------------------------------------------- parameters


class URLParameters(object):
    def __init__(self, url="amqp://localhost:5672"):
        p = urllib.parse.urlparse(url)
        self.host = p.hostname or "localhost"
        self.port = p.port or 5672
        q = urllib.parse.parse_qs(p.query)
        self.connection_attempts = int(q.get("connection_attempts", ["1"])[0])
        self.retry_delay = float(q.get("retry_delay", ["2.0"])[0])
        self.heartbeat = q.get("heartbeat", [None])[0]
        self.virtual_host = urllib.parse.unquote(p.path[1:]) if len(p.path) > 1 else "/"


ConnectionParameters = URLParameters

# --------------------------------------------------------------------------- broker

PREDECLARED = (("", "direct"), ("amq.direct", "direct"), ("amq.fanout", "fanout"), ("amq.topic", "topic"),
               ("amq.match", "headers"), ("amq.headers", "headers"))


def topic_match(pattern, key):
    """AMQP 0.9.1 topic matching: words separated by '.', '*' = one word, '#' = zero or more."""
    def rec(p, k):
        if not p:
            return not k
        if p[0] == "#":
            return rec(p[1:], k) or (bool(k) and rec(p, k[1:]))
        if not k:
            return False
        return (p[0] == "*" or p[0] == k[0]) and rec(p[1:], k[1:])
    return rec(pattern.split("."), key.split("."))


class _Rec(object):
    def __init__(self, **kw):
        self.__dict__.update(kw)

    def __repr__(self):
        return "<%s>" % ", ".join("%s=%r" % kv for kv in self.__dict__.items() if kv[0] not in ("channel", "callback", "owner"))


class Broker(object):
    def __init__(self):
        self.up = True
        self.frames = []        # (method, channel_id, {args}) in the order sent
        self.exchanges = [_Rec(name=n, type=t, durable=True, auto_delete=False, internal=False, arguments=None)
                          for n, t in PREDECLARED]
        self.queues = []        # _Rec(name, durable, exclusive, auto_delete, arguments, owner, messages[])
        self.bindings = []      # _Rec(queue, exchange, key, arguments)
        self.consumers = []     # _Rec(tag, queue, channel, callback, auto_ack, exclusive, arguments, prefetch)
        self.deliveries = []    # delivery log: _Rec(queue, consumer_tag, channel_id, delivery_tag, redelivered, msg)
        self.returns = []       # pending basic.return: (channel, msg)
        self.connections = []
        self.gen = 0
        self.chan_ids = 0
        self.on_start_consuming = None
        self.choose = None      # optional: fn(queue_name, [eligible consumers]) -> consumer

    # -- lookups (linear, equality based: see module docstring)
    def exchange(self, name):
        for e in self.exchanges:
            if e.name == name:
                return e
        return None

    def queue(self, name):
        for q in self.queues:
            if q.name == name:
                return q
        return None

    def consumers_of(self, qname):
        return [c for c in self.consumers if c.queue == qname]

    def calls(self, method, channel_id=None):
        return [a for (m, ch, a) in self.frames if m == method and (channel_id is None or ch == channel_id)]

    def record(self, method, channel, args):
        self.frames.append((method, channel.channel_id, args))

    # -- routing
    def route(self, exchange, routing_key):
        """Names of the queues a message published to (exchange, routing_key) is copied to."""
        ex = self.exchange(exchange)
        if ex is None:
            return None
        if ex.name == "":
            return [q.name for q in self.queues if q.name == routing_key]
        out = []
        for b in self.bindings:
            if b.exchange != exchange or b.queue in out:
                continue
            if ex.type == "fanout":
                hit = True
            elif ex.type == "topic":
                hit = topic_match(b.key or "", routing_key)
            elif ex.type == "direct":
                hit = (b.key or "") == routing_key
            else:
                hit = False          # headers exchanges are not modelled
            if hit:
                out.append(b.queue)
        return out

    # -- delivery
    def _eligible(self, q):
        cs = []
        for c in self.consumers:
            if c.queue != q.name or not c.channel.is_open:
                continue
            if not c.auto_ack and c.prefetch and len([u for u in c.channel.unacked if u[1] is c]) >= c.prefetch:
                continue
            cs.append(c)
        if not cs:
            return []

        def prio(c):
            a = c.arguments or {}
            return a.get("x-priority", 0)
        top = max(prio(c) for c in cs)
        return [c for c in cs if prio(c) == top]

    def pump(self, limit=1000):
        """Deliver queued messages (and pending returns / thread-safe callbacks) until
        nothing more can be delivered.  Returns the number of deliveries made."""
        n = 0
        progress = True
        while progress and n < limit:
            progress = False
            for conn in list(self.connections):
                while conn.pending:
                    cb = conn.pending.pop(0)
                    cb()
                    progress = True
            while self.returns:
                ch, msg = self.returns.pop(0)
                for cb in list(ch.return_callbacks):
                    cb(ch.async_facade(), Basic.Return(reply_code=312, reply_text="NO_ROUTE", exchange=msg.exchange,
                                                       routing_key=msg.routing_key), msg.properties.wire_copy(), msg.body)
                progress = True
            for q in list(self.queues):
                if not q.messages:
                    continue
                cs = self._eligible(q)
                if not cs:
                    continue
                c = self.choose(q.name, cs) if self.choose else cs[0]
                msg = q.messages.pop(0)
                ch = c.channel
                ch.next_tag += 1
                tag = ch.next_tag
                if not c.auto_ack:
                    ch.unacked.append((tag, c, q.name, msg))
                self.deliveries.append(_Rec(queue=q.name, consumer_tag=c.tag, channel_id=ch.channel_id,
                                            delivery_tag=tag, redelivered=msg.redelivered, msg=msg))
                n += 1
                progress = True
                c.callback(ch.facade_for_callbacks(), Basic.Deliver(consumer_tag=c.tag, delivery_tag=tag,
                                                                     redelivered=msg.redelivered, exchange=msg.exchange,
                                                                     routing_key=msg.routing_key),
                           msg.properties.wire_copy(), msg.body)
                break
        return n

    def requeue(self, entries):
        for tag, c, qname, msg in sorted(entries, key=lambda e: e[0], reverse=True):
            q = self.queue(qname)
            if q is not None:
                msg.redelivered = True
                q.messages.insert(0, msg)


_CURRENT = Broker()


def new_broker():
    global _CURRENT
    _CURRENT = Broker()
    return _CURRENT


def broker():
    return _CURRENT


# --------------------------------------------------------------------------- channel core


class CallbackManager(object):
    """Just enough of pika.callback.CallbackManager for make_future()."""
    def __init__(self):
        self.table = []    # (prefix, key, callback)

    def add(self, prefix, key, callback, one_shot=True, only_caller=None, arguments=None):
        self.table.append((prefix, key, callback))

    def remove(self, prefix, key, callback_value=None, arguments=None):
        before = len(self.table)
        self.table = [t for t in self.table
                      if not (t[0] == prefix and t[1] == key and (callback_value is None or t[2] is callback_value))]
        return len(self.table) != before

    def get(self, prefix, key):
        return [t[2] for t in self.table if t[0] == prefix and t[1] == key]


class _Core(object):
    """Broker-side state of one AMQP channel + the method semantics shared by the
    blocking and the callback-style front ends.  Methods raise ChannelClosedByBroker."""

    def __init__(self, connection):
        self.connection = connection
        self.broker = connection.broker
        self.broker.chan_ids += 1
        self.channel_id = self.broker.chan_ids
        self.channel_number = self.channel_id
        self.is_open = True
        self.prefetch = 0
        self.next_tag = 0
        self.unacked = []          # (tag, consumer, queue, msg)
        self.consumer_seq = 0
        self.return_callbacks = []
        self.confirms = None
        self.callbacks = CallbackManager()
        self.front = None
        self.last_queue = None     # AMQP: an empty queue name means "the queue last declared on this channel"
        connection.channels.append(self)

    # facades: what user callbacks get as their `channel` argument
    def facade_for_callbacks(self):
        return self.front

    def async_facade(self):
        return getattr(self.front, "_impl", self.front)

    def fail(self, code, text):
        exc = ChannelClosedByBroker(code, text)
        self.shutdown(exc)
        raise exc

    def shutdown(self, exc=None):
        if not self.is_open:
            return
        self.is_open = False
        b = self.broker
        b.consumers = [c for c in b.consumers if c.channel is not self]
        entries, self.unacked = self.unacked, []
        b.requeue(entries)
        for cb in self.callbacks.get(self.channel_number, "_on_channel_close"):
            cb(self.front, exc if exc is not None else ChannelClosedByClient(0, "Normal shutdown"))

    def check_open(self):
        if not self.is_open:
            raise ChannelWrongStateError("Channel is closed.")
        if not self.connection.is_open:
            raise ConnectionWrongStateError("Connection is closed.")

    # -- methods
    def exchange_declare(self, exchange, exchange_type="direct", passive=False, durable=False, auto_delete=False,
                         internal=False, arguments=None):
        self.check_open()
        b = self.broker
        b.record("exchange_declare", self, dict(exchange=exchange, exchange_type=exchange_type, passive=passive,
                                                durable=durable, auto_delete=auto_delete, internal=internal,
                                                arguments=arguments))
        ex = b.exchange(exchange)
        if passive:
            if ex is None:
                self.fail(404, "NOT_FOUND - no exchange '%s' in vhost '/'" % (exchange,))
        elif ex is None:
            b.exchanges.append(_Rec(name=exchange, type=exchange_type, durable=durable, auto_delete=auto_delete,
                                    internal=internal, arguments=arguments))
        elif ex.type != exchange_type or ex.durable != durable or ex.auto_delete != auto_delete:
            self.fail(406, "PRECONDITION_FAILED - inequivalent arg for exchange '%s' in vhost '/'" % (exchange,))
        return Frame(self.channel_number, Exchange.DeclareOk())

    def queue_declare(self, queue, passive=False, durable=False, exclusive=False, auto_delete=False, arguments=None):
        self.check_open()
        b = self.broker
        b.record("queue_declare", self, dict(queue=queue, passive=passive, durable=durable, exclusive=exclusive,
                                             auto_delete=auto_delete, arguments=arguments))
        name = queue
        if name == "":
            b.gen += 1
            name = "amq.gen-%d" % b.gen
        q = b.queue(name)
        if q is not None and q.owner is not None and q.owner is not self.connection:
            self.fail(405, "RESOURCE_LOCKED - cannot obtain exclusive access to locked queue '%s' in vhost '/'" % (name,))
        if passive:
            if q is None:
                self.fail(404, "NOT_FOUND - no queue '%s' in vhost '/'" % (name,))
        elif q is None:
            q = _Rec(name=name, durable=durable, exclusive=exclusive, auto_delete=auto_delete, arguments=arguments,
                     owner=self.connection if exclusive else None, messages=[])
            b.queues.append(q)
        elif (q.durable != durable or q.exclusive != exclusive or q.auto_delete != auto_delete
              or (q.arguments or {}) != (arguments or {})):
            self.fail(406, "PRECONDITION_FAILED - inequivalent arg for queue '%s' in vhost '/'" % (name,))
        self.last_queue = name
        return Frame(self.channel_number, Queue.DeclareOk(queue=name, message_count=len(q.messages),
                                                          consumer_count=len(b.consumers_of(name))))

    def queue_bind(self, queue, exchange, routing_key=None, arguments=None):
        self.check_open()
        b = self.broker
        b.record("queue_bind", self, dict(queue=queue, exchange=exchange, routing_key=routing_key, arguments=arguments))
        if queue == "" and self.last_queue is not None:
            queue = self.last_queue
        if b.queue(queue) is None:
            self.fail(404, "NOT_FOUND - no queue '%s' in vhost '/'" % (queue,))
        if b.exchange(exchange) is None:
            self.fail(404, "NOT_FOUND - no exchange '%s' in vhost '/'" % (exchange,))
        key = routing_key if routing_key is not None else queue
        for x in b.bindings:
            if x.queue == queue and x.exchange == exchange and x.key == key and x.arguments == arguments:
                break
        else:
            b.bindings.append(_Rec(queue=queue, exchange=exchange, key=key, arguments=arguments))
        return Frame(self.channel_number, Queue.BindOk())

    def basic_qos(self, prefetch_size=0, prefetch_count=0, global_qos=False):
        self.check_open()
        self.broker.record("basic_qos", self, dict(prefetch_size=prefetch_size, prefetch_count=prefetch_count,
                                                   global_qos=global_qos))
        self.prefetch = prefetch_count
        return Frame(self.channel_number, Basic.QosOk())

    def basic_consume(self, queue, on_message_callback, auto_ack=False, exclusive=False, consumer_tag=None,
                      arguments=None):
        self.check_open()
        b = self.broker
        b.record("basic_consume", self, dict(queue=queue, auto_ack=auto_ack, exclusive=exclusive,
                                             consumer_tag=consumer_tag, arguments=arguments,
                                             on_message_callback=on_message_callback))
        if queue == "" and self.last_queue is not None:
            queue = self.last_queue
        q = b.queue(queue)
        if q is None:
            self.fail(404, "NOT_FOUND - no queue '%s' in vhost '/'" % (queue,))
        if q.owner is not None and q.owner is not self.connection:
            self.fail(405, "RESOURCE_LOCKED - cannot obtain exclusive access to locked queue '%s' in vhost '/'" % (queue,))
        existing = b.consumers_of(queue)
        if existing and (exclusive or any(c.exclusive for c in existing)):
            self.fail(403, "ACCESS_REFUSED - queue '%s' in vhost '/' in exclusive use" % (queue,))
        if consumer_tag is None:
            self.consumer_seq += 1
            consumer_tag = "ctag%d.%d" % (self.channel_id, self.consumer_seq)
        b.consumers.append(_Rec(tag=consumer_tag, queue=queue, channel=self, callback=on_message_callback,
                                auto_ack=auto_ack, exclusive=exclusive, arguments=arguments, prefetch=self.prefetch))
        return consumer_tag

    def basic_publish(self, exchange, routing_key, body, properties=None, mandatory=False):
        self.check_open()
        b = self.broker
        props = properties if properties is not None else BasicProperties()
        b.record("basic_publish", self, dict(exchange=exchange, routing_key=routing_key, body=body,
                                             properties=props, mandatory=mandatory))
        if isinstance(body, str):
            body = body.encode("utf-8")       # pika: unicode bodies are UTF-8 encoded
        for f in BasicProperties.SHORTSTR:
            v = getattr(props, f)
            if v is not None and not isinstance(v, str):
                self.fail(406, "PRECONDITION_FAILED - property '%s' is not a short string" % f)
        if props.expiration is not None and not is_decimal_nonneg(props.expiration):
            self.fail(406, "PRECONDITION_FAILED - invalid expiration '%s'" % (props.expiration,))
        targets = b.route(exchange, routing_key)
        if targets is None:
            self.fail(404, "NOT_FOUND - no exchange '%s' in vhost '/'" % (exchange,))
        if not targets:
            if mandatory:
                b.returns.append((self, _Rec(exchange=exchange, routing_key=routing_key, body=body,
                                             properties=props.wire_copy(), redelivered=False)))
            return
        for qn in targets:
            b.queue(qn).messages.append(_Rec(exchange=exchange, routing_key=routing_key, body=body,
                                             properties=props.wire_copy(), redelivered=False))

    def basic_ack(self, delivery_tag=0, multiple=False):
        self.check_open()
        self.broker.record("basic_ack", self, dict(delivery_tag=delivery_tag, multiple=multiple))
        if multiple:
            if delivery_tag == 0:
                self.unacked = []
            else:
                if not any(u[0] == delivery_tag for u in self.unacked):
                    self.fail(406, "PRECONDITION_FAILED - unknown delivery tag %s" % (delivery_tag,))
                self.unacked = [u for u in self.unacked if u[0] > delivery_tag]
        else:
            if not any(u[0] == delivery_tag for u in self.unacked):
                self.fail(406, "PRECONDITION_FAILED - unknown delivery tag %s" % (delivery_tag,))
            self.unacked = [u for u in self.unacked if u[0] != delivery_tag]

    def basic_recover(self, requeue=False):
        self.check_open()
        self.broker.record("basic_recover", self, dict(requeue=requeue))
        entries, self.unacked = self.unacked, []
        self.broker.requeue(entries)

    def close(self):
        self.broker.record("channel_close", self, {})
        self.shutdown(None)


# --------------------------------------------------------------------------- blocking front end


class _Impl(object):
    """BlockingChannel._impl: the underlying callback-style channel (only what the repository touches)."""
    def __init__(self, core):
        self._core = core

    def add_on_return_callback(self, callback):
        self._core.broker.record("add_on_return_callback", self._core, {})
        self._core.return_callbacks.append(callback)

    def confirm_delivery(self, ack_nack_callback, callback=None):
        self._core.broker.record("confirm_delivery", self._core, {})
        self._core.confirms = ack_nack_callback


class BlockingChannel(object):
    def __init__(self, connection):
        self._core = _Core(connection._core_conn)
        self._core.front = self
        self._impl = _Impl(self._core)
        self.connection = connection

    channel_number = property(lambda self: self._core.channel_number)
    is_open = property(lambda self: self._core.is_open)
    is_closed = property(lambda self: not self._core.is_open)

    def exchange_declare(self, exchange, exchange_type="direct", passive=False, durable=False, auto_delete=False,
                         internal=False, arguments=None):
        return self._core.exchange_declare(exchange, exchange_type, passive, durable, auto_delete, internal, arguments)

    def queue_declare(self, queue, passive=False, durable=False, exclusive=False, auto_delete=False, arguments=None):
        return self._core.queue_declare(queue, passive, durable, exclusive, auto_delete, arguments)

    def queue_bind(self, queue, exchange, routing_key=None, arguments=None):
        return self._core.queue_bind(queue, exchange, routing_key, arguments)

    def basic_qos(self, prefetch_size=0, prefetch_count=0, global_qos=False):
        self._core.basic_qos(prefetch_size, prefetch_count, global_qos)

    def basic_consume(self, queue, on_message_callback, auto_ack=False, exclusive=False, consumer_tag=None,
                      arguments=None):
        return self._core.basic_consume(queue, on_message_callback, auto_ack, exclusive, consumer_tag, arguments)

    def basic_publish(self, exchange, routing_key, body, properties=None, mandatory=False):
        self._core.basic_publish(exchange, routing_key, body, properties, mandatory)

    def basic_ack(self, delivery_tag=0, multiple=False):
        self._core.basic_ack(delivery_tag, multiple)

    def basic_recover(self, requeue=False):
        self._core.basic_recover(requeue)

    def confirm_delivery(self):
        self._core.broker.record("confirm_delivery", self._core, {})

    def start_consuming(self):
        b = self._core.broker
        if b.on_start_consuming is not None:
            b.on_start_consuming(self)
        b.pump()

    def stop_consuming(self, consumer_tag=None):
        pass

    def close(self, reply_code=0, reply_text="Normal shutdown"):
        self._core.close()


class _CoreConnection(object):
    def __init__(self, broker_):
        self.broker = broker_
        self.is_open = True
        self.channels = []
        self.timers = []     # [id, delay_seconds, callback]
        self.timer_seq = 0
        self.pending = []    # thread-safe callbacks
        self.close_callbacks = []
        broker_.connections.append(self)

    def call_later(self, delay, callback):
        self.timer_seq += 1
        self.timers.append([self.timer_seq, delay, callback])
        return self.timer_seq

    def remove_timeout(self, timer_id):
        self.timers = [t for t in self.timers if t[0] != timer_id]

    def fire_timers(self, up_to=None):
        """Harness helper: run (and remove) the timers whose delay is <= up_to (all when None), earliest first."""
        due = sorted([t for t in self.timers if up_to is None or t[1] <= up_to], key=lambda t: (t[1], t[0]))
        for t in due:
            if t in self.timers:
                self.timers.remove(t)
                t[2]()
        return len(due)

    def close(self, exc=None):
        if not self.is_open:
            return
        for ch in list(self.channels):
            ch.shutdown(exc)
        self.is_open = False
        b = self.broker
        gone = [q.name for q in b.queues if q.owner is self]
        b.queues = [q for q in b.queues if q.owner is not self]
        b.bindings = [x for x in b.bindings if x.queue not in gone]
        if self in b.connections:
            b.connections.remove(self)
        for cb in list(self.close_callbacks):
            cb(self, exc if exc is not None else ConnectionClosed(200, "Normal shutdown"))


class BlockingConnection(object):
    def __init__(self, parameters=None):
        b = broker()
        self.parameters = parameters
        if not b.up:
            raise AMQPConnectionError("connection refused")
        self._core_conn = _CoreConnection(b)

    is_open = property(lambda self: self._core_conn.is_open)
    is_closed = property(lambda self: not self._core_conn.is_open)
    timers = property(lambda self: self._core_conn.timers)

    def channel(self, channel_number=None):
        if not self.is_open:
            raise ConnectionWrongStateError("Connection is closed.")
        return BlockingChannel(self)

    def call_later(self, delay, callback):
        return self._core_conn.call_later(delay, callback)

    def remove_timeout(self, timeout_id):
        self._core_conn.remove_timeout(timeout_id)

    def add_callback_threadsafe(self, callback):
        self._core_conn.pending.append(callback)

    def process_data_events(self, time_limit=0):
        self._core_conn.broker.pump()

    def fire_timers(self, up_to=None):
        return self._core_conn.fire_timers(up_to)

    def close(self, reply_code=200, reply_text="Normal shutdown"):
        self._core_conn.broker.frames.append(("connection_close", 0, {}))
        self._core_conn.close()


# --------------------------------------------------------------------------- callback-style front end


class Channel(object):
    """pika.channel.Channel as used with AsyncioConnection.  Replies are delivered by
    calling `callback` synchronously; broker errors close the channel and go to the
    on-close callbacks (nothing is raised), exactly the two routes make_future() wires up."""

    def __init__(self, connection):
        self._core = _Core(connection._core_conn)
        self._core.front = self
        self.connection = connection

    channel_number = property(lambda self: self._core.channel_number)
    callbacks = property(lambda self: self._core.callbacks)
    is_open = property(lambda self: self._core.is_open)
    is_closed = property(lambda self: not self._core.is_open)

    def _rpc(self, callback, fn, *args):
        try:
            frame = fn(*args)
        except ChannelClosedByBroker:
            return None          # reported through the on-close callbacks by _Core.shutdown
        if callback is not None:
            callback(frame)
        return frame

    def add_on_close_callback(self, callback):
        self._core.callbacks.add(self.channel_number, "_on_channel_close", callback, False, self)

    def add_on_return_callback(self, callback):
        self._core.broker.record("add_on_return_callback", self._core, {})
        self._core.return_callbacks.append(callback)

    def exchange_declare(self, exchange, exchange_type="direct", passive=False, durable=False, auto_delete=False,
                         internal=False, arguments=None, callback=None):
        self._rpc(callback, self._core.exchange_declare, exchange, exchange_type, passive, durable, auto_delete,
                  internal, arguments)

    def queue_declare(self, queue, passive=False, durable=False, exclusive=False, auto_delete=False, arguments=None,
                      callback=None):
        self._rpc(callback, self._core.queue_declare, queue, passive, durable, exclusive, auto_delete, arguments)

    def queue_bind(self, queue, exchange, routing_key=None, arguments=None, callback=None):
        self._rpc(callback, self._core.queue_bind, queue, exchange, routing_key, arguments)

    def basic_qos(self, prefetch_size=0, prefetch_count=0, global_qos=False, callback=None):
        self._rpc(callback, self._core.basic_qos, prefetch_size, prefetch_count, global_qos)

    def basic_consume(self, queue, on_message_callback, auto_ack=False, exclusive=False, consumer_tag=None,
                      arguments=None, callback=None):
        try:
            tag = self._core.basic_consume(queue, on_message_callback, auto_ack, exclusive, consumer_tag, arguments)
        except ChannelClosedByBroker:
            return None
        if callback is not None:
            callback(Frame(self.channel_number, Basic.ConsumeOk(consumer_tag=tag)))
        return tag

    def basic_publish(self, exchange, routing_key, body, properties=None, mandatory=False):
        try:
            self._core.basic_publish(exchange, routing_key, body, properties, mandatory)
        except ChannelClosedByBroker:
            pass                 # asynchronous channel: the error arrives as a channel close

    def basic_ack(self, delivery_tag=0, multiple=False):
        try:
            self._core.basic_ack(delivery_tag, multiple)
        except ChannelClosedByBroker:
            pass

    def basic_recover(self, requeue=False, callback=None):
        self._core.basic_recover(requeue)

    def confirm_delivery(self, ack_nack_callback, callback=None):
        self._core.broker.record("confirm_delivery", self._core, {})
        self._core.confirms = ack_nack_callback

    def close(self, reply_code=0, reply_text="Normal shutdown"):
        self._core.close()


class AsyncioConnection(object):
    def __init__(self, parameters=None, on_open_callback=None, on_open_error_callback=None, on_close_callback=None,
                 custom_ioloop=None, internal_connection_workflow=True):
        b = broker()
        self.parameters = parameters
        self._open_error_callbacks = []
        self._up = b.up
        if on_open_error_callback is not None:
            self._open_error_callbacks.append(on_open_error_callback)
        if not b.up:
            self._core_conn = None
            return               # the error is reported to callbacks added with add_on_open_error_callback
        self._core_conn = _CoreConnection(b)
        if on_close_callback is not None:
            self._core_conn.close_callbacks.append(on_close_callback)
        if on_open_callback is not None:
            on_open_callback(self)

    is_open = property(lambda self: self._core_conn is not None and self._core_conn.is_open)
    is_closed = property(lambda self: not self.is_open)
    timers = property(lambda self: self._core_conn.timers)

    def add_on_open_error_callback(self, callback):
        self._open_error_callbacks.append(callback)
        if not self._up:
            callback(self, AMQPConnectionError("connection refused"))

    def add_on_close_callback(self, callback):
        self._core_conn.close_callbacks.append(callback)

    def channel(self, channel_number=None, on_open_callback=None):
        if not self.is_open:
            raise ConnectionWrongStateError("Connection is closed.")
        ch = Channel(self)
        if on_open_callback is not None:
            on_open_callback(ch)
        return ch

    def _adapter_call_later(self, delay, callback):
        return self._core_conn.call_later(delay, callback)

    def _adapter_remove_timeout(self, timeout_id):
        self._core_conn.remove_timeout(timeout_id)

    def _adapter_add_callback_threadsafe(self, callback):
        self._core_conn.pending.append(callback)

    def fire_timers(self, up_to=None):
        return self._core_conn.fire_timers(up_to)

    def close(self, reply_code=200, reply_text="Normal shutdown"):
        self._core_conn.broker.frames.append(("connection_close", 0, {}))
        self._core_conn.close()


# --------------------------------------------------------------------------- synchronous stand-in for the asyncio loop


class SyncFuture(object):
    """Future of the synchronous loop: awaiting a completed future returns at once;
    awaiting a pending one suspends the coroutine (the driver sees it as 'blocked')."""
    def __init__(self):
        self._done = False
        self._result = None
        self._exc = None

    def done(self):
        return self._done

    def set_result(self, value):
        if self._done:
            raise RuntimeError("invalid state: future already done")
        self._done = True
        self._result = value

    def set_exception(self, exc):
        if self._done:
            raise RuntimeError("invalid state: future already done")
        self._done = True
        self._exc = exc

    def result(self):
        if self._exc is not None:
            raise self._exc
        return self._result

    def __await__(self):
        while not self._done:
            yield self
        return self.result()


class SyncLoop(object):
    def __init__(self):
        self.tasks = []

    def create_future(self):
        return SyncFuture()

    def create_task(self, coro):
        self.tasks.append(run(coro))


LOOP = SyncLoop()


def run(coro):
    """Drive a coroutine on the synchronous loop.  Returns ("done", value) or
    ("blocked", future) when it awaits something that is not complete."""
    try:
        y = coro.send(None)
    except StopIteration as e:
        return ("done", e.value)
    return ("blocked", y)


def asyncio_shim():
    """Replacement for the name `asyncio` inside amqp_0_9_1_messaging_asyncio: the same
    entry points, backed by the synchronous loop above."""
    import asyncio as real

    async def sleep(delay, result=None):
        return result
    return types.SimpleNamespace(get_event_loop=lambda: LOOP, iscoroutinefunction=real.iscoroutinefunction,
                                 sleep=sleep, Future=SyncFuture)


# --------------------------------------------------------------------------- installation


def install():
    """Register the fake as `pika` (+ the sub-modules the repository imports) in sys.modules."""
    if isinstance(sys.modules.get("pika"), types.ModuleType) and getattr(sys.modules["pika"], "__fake__", False):
        return sys.modules["pika"]
    me = sys.modules[__name__]
    pika = types.ModuleType("pika")
    pika.__fake__ = True
    pika.__path__ = []
    exceptions = types.ModuleType("pika.exceptions")
    for n in ("AMQPError", "AMQPConnectionError", "ConnectionClosed", "ConnectionClosedByBroker",
              "ConnectionWrongStateError", "IncompatibleProtocolError", "AMQPChannelError", "ChannelWrongStateError",
              "ChannelClosed", "ChannelClosedByBroker", "ChannelClosedByClient", "NackError", "UnroutableError"):
        setattr(exceptions, n, getattr(me, n))
    spec = types.ModuleType("pika.spec")
    spec.Basic = Basic
    spec.Queue = Queue
    spec.Exchange = Exchange
    spec.BasicProperties = BasicProperties
    channel = types.ModuleType("pika.channel")
    channel.Channel = Channel
    compat = types.ModuleType("pika.compat")
    compat.urlparse = urllib.parse.urlparse
    adapters = types.ModuleType("pika.adapters")
    adapters.__path__ = []
    aioc = types.ModuleType("pika.adapters.asyncio_connection")
    aioc.AsyncioConnection = AsyncioConnection
    blk = types.ModuleType("pika.adapters.blocking_connection")
    blk.BlockingConnection = BlockingConnection
    blk.BlockingChannel = BlockingChannel
    adapters.asyncio_connection = aioc
    adapters.blocking_connection = blk
    adapters.BlockingConnection = BlockingConnection
    pika.exceptions = exceptions
    pika.spec = spec
    pika.channel = channel
    pika.compat = compat
    pika.adapters = adapters
    pika.BasicProperties = BasicProperties
    pika.BlockingConnection = BlockingConnection
    pika.URLParameters = URLParameters
    pika.ConnectionParameters = ConnectionParameters
    for name, mod in (("pika", pika), ("pika.exceptions", exceptions), ("pika.spec", spec), ("pika.channel", channel),
                      ("pika.compat", compat), ("pika.adapters", adapters),
                      ("pika.adapters.asyncio_connection", aioc), ("pika.adapters.blocking_connection", blk)):
        sys.modules[name] = mod
    return pika
