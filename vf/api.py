"""Declarative registration of verification conditions in harness modules."""
import re, inspect

_TOKEN = re.compile(r"@([A-Za-z_][A-Za-z_0-9]*)@")


class Cond:
    def __init__(self, fn, kind, tiers, timeout, bounds, functions, note, expect, outside):
        self.fn = fn
        self.kind = kind              # crosshair | symnum | native
        self.tiers = tiers
        self.timeout = timeout        # {"quick": s, "thorough": s}
        self.bounds = bounds          # {"quick": {...}, "thorough": {...}} token values
        self.functions = functions    # repository functions encoded by this condition
        self.note = note
        self.expect = expect          # "closed" | "explored"
        self.outside = outside

    @property
    def name(self):
        return self.fn.__name__

    def tokens(self, tier):
        return dict(self.bounds.get(tier, {}))

    def contract(self, tier):
        """Parse the PEP-316 lines of the harness docstring, with @TOKEN@ bounds
        substituted for the tier. Returns (pre[], post[], raises[])."""
        doc = inspect.getdoc(self.fn) or ""
        tok = self.tokens(tier)
        doc = _TOKEN.sub(lambda m: str(tok[m.group(1)]), doc)
        pre, post, raises = [], [], []
        for line in doc.splitlines():
            s = line.strip()
            # Keywords differ from PEP-316's on purpose: CrossHair would otherwise
            # also *enforce* the contract on the inner call made by the generated
            # wrapper (which carries the real pre:/post: lines).
            if s.startswith("requires:"):
                pre.append(s[9:].strip())
            elif s.startswith("ensures:"):
                post.append(s[8:].strip())
            elif s.startswith("may_raise:"):
                raises.extend(x.strip() for x in s[10:].split(",") if x.strip())
        return pre, post, raises


def condition(kind="crosshair", tiers=("quick", "thorough"), timeout=None, bounds=None,
              functions=(), note="", expect="closed", outside=()):
    timeout = timeout or {"quick": 40, "thorough": 300}
    if isinstance(timeout, (int, float)):
        timeout = {"quick": timeout, "thorough": timeout}

    def deco(fn):
        fn._vf = Cond(fn, kind, tuple(tiers), dict(timeout), bounds or {}, list(functions),
                      note, expect, list(outside))
        return fn
    return deco


def conditions_of(module, tier):
    out = []
    for name, obj in vars(module).items():
        c = getattr(obj, "_vf", None)
        if isinstance(c, Cond) and c.fn is obj and getattr(obj, "__module__", None) == module.__name__ and tier in c.tiers:
            out.append(c)
    out.sort(key=lambda c: c.fn.__code__.co_firstlineno)
    return out


def tolerated_signatures(prop):
    """Known findings that are identified by the *signature* of the violation they
    produce (schedule-dependent defects cannot be fenced by a predicate over the
    inputs).  A monitor that meets a violation matching one of these regexes records
    it and keeps checking everything else.  Disabled (VF_NO_TOLERANCE=1) when the
    runner replays the witness of a finding, which must then still fail."""
    import os, json, re
    if os.environ.get("VF_NO_TOLERANCE"):
        return []
    path = os.path.join(os.path.dirname(os.path.dirname(os.path.abspath(__file__))), "known_findings.json")
    try:
        with open(path) as f:
            data = json.load(f)
    except Exception:
        return []
    out = []
    for e in data.get("findings", []):
        if e.get("status", "known") == "known" and e.get("signature") and prop in (e.get("property"), *e.get("also_seen_in", [])):
            out.append(re.compile(e["signature"]))
    return out


def variants(glob, fn, parts, keep_original=False):
    """Split a condition into several that run in parallel: `parts` is a list of (suffix, extra-requires).
    Each variant has the same body, bounds, timeouts and metadata plus the extra precondition line."""
    import functools
    c = fn._vf
    for suffix, extra in parts:
        def make(extra=extra, suffix=suffix):
            @functools.wraps(fn)
            def v(*a, **k):
                return fn(*a, **k)
            v.__name__ = v.__qualname__ = fn.__name__ + suffix
            v.__doc__ = (fn.__doc__ or "").rstrip() + "\n    requires: " + extra + "\n    "
            v.__module__ = glob["__name__"]
            try:
                del v.__wrapped__
            except AttributeError:
                pass
            v.__signature__ = inspect.signature(fn)
            return condition(kind=c.kind, tiers=c.tiers, timeout=c.timeout, bounds=c.bounds, functions=c.functions, note=c.note,
                             expect=c.expect, outside=c.outside)(v)
        nv = make()
        glob[nv.__name__] = nv
    if not keep_original:
        del fn._vf
