"""vf - solver-based verification framework for fadams/local-step-functions.

Everything here runs the repository's own code (imported from REPO_PY at run
time); nothing is a hand model of the engine.
"""
import os, sys, logging

VERIF = os.path.dirname(os.path.dirname(os.path.abspath(__file__)))
REPO = os.environ.get("LSF_REPO", "/repo")
REPO_PY = os.path.join(REPO, "asl-workflow-engine", "py")
HARNESS = os.path.join(VERIF, "harness")
EVIDENCE = os.environ.get("VERIF_EVIDENCE_DIR") or os.path.join(VERIF, "evidence")
GUARD = "LSF_VERIF"


def setup_paths():
    """Put the repository first and the harness directory last on sys.path."""
    if REPO_PY not in sys.path:
        sys.path.insert(0, REPO_PY)
    if VERIF not in sys.path:
        sys.path.insert(1, VERIF)
    if HARNESS not in sys.path:
        sys.path.append(HARNESS)
    logging.disable(logging.CRITICAL)


def tier():
    return os.environ.get("VERIF_TIER", "quick")


def seed():
    try:
        return int(os.environ.get("VERIF_SEED", "0"))
    except ValueError:
        return 0
