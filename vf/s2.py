"""S2 toolkit: whole-run scenarios over the simulated broker, with monitors that
are evaluated after every scheduling step.  Used by the C02/C03/C05/C06/C09/C11
(and C01/C04/C15) harnesses; each harness chooses which monitors decide its verdict.

A run returns "" when every selected monitor held, else a short description of
the first violation (so a counterexample explains itself when replayed)."""
import copy

import vf
vf.setup_paths()
from vf import sim, stubs
json = stubs.FastJson

TERMINAL = ("SUCCEEDED", "FAILED")


class _Null:
    def __enter__(self): return self
    def __exit__(self, *a): return False


def untraced():
    """Monitors read only concrete data (parsed JSON from the topic log, store
    records); run them outside CrossHair's opcode tracer for speed."""
    try:
        from crosshair.tracers import NoTracing, is_tracing
        if is_tracing():
            return NoTracing()
    except Exception:
        pass
    return _Null()


def plain(v):
    """A store value as plain JSON data (Redis-backed stores hand out views; an empty view is an absent key)."""
    if v is None:
        return None
    if hasattr(v, "to_dict"):
        return v.to_dict() or None
    if hasattr(v, "to_list"):
        return v.to_list() or None
    return v


class Monitors:
    def __init__(self, inst, which, sm_types=None):
        from vf.api import tolerated_signatures
        self.inst = inst
        self.which = set(which)
        self.tolerated = [r for p in sorted(self.which) for r in tolerated_signatures(p)]
        self.known_hits = []
        self.op_mark = 0
        self.had_join = False
        self.hist_mark = {}
        self.start_exec = {}    # message id of a start event -> execution ARN it started
        self.snap = {}          # arn -> record snapshot taken when first seen terminal
        self.hist_len_at_term = {}
        self.err = ""
        self.sm_types = sm_types or {}

    def fail(self, msg):
        for r in self.tolerated:
            if r.search(msg):
                if msg not in self.known_hits:
                    self.known_hits.append(msg)
                return
        if not self.err:
            self.err = msg

    # -- helpers ----------------------------------------------------------
    def per_exec(self):
        out = {}
        for subj, m in sim.BROKER.topic:
            d = m["detail"]
            out.setdefault(d["executionArn"], []).append((subj, m))
        return out

    def after_step(self, run=None, final=False):
        if self.err:
            return
        with untraced():
            self._after_step(run)

    def _after_step(self, run=None):
        inst = self.inst
        eng = inst.eng
        per = self.per_exec()
        for arn, notes in per.items():
            sts = [m["detail"]["status"] for _, m in notes]
            # ---- C02: one RUNNING then exactly one terminal -------------------
            if "C02" in self.which or "C11" in self.which:
                if sts[0] != "RUNNING":
                    self.fail("C02 first notification of %s is %s" % (arn, sts[0]))
                if len(sts) > 2 or (len(sts) == 2 and sts[1] not in TERMINAL):
                    self.fail("C02 notification sequence %s for %s" % (sts, arn))
            rec = plain(eng.executions.get(arn))
            term = len(sts) >= 2
            if rec is not None and "C02" in self.which:
                st = rec["status"]
                if (rec.get("stopDate") is not None) != (st in TERMINAL):
                    self.fail("C02 stopDate/status mismatch %s %s" % (st, rec.get("stopDate")))
                if (rec.get("output") is not None) != (st == "SUCCEEDED"):
                    self.fail("C02 output set iff SUCCEEDED violated: %s output=%r" % (st, rec.get("output")))
                if (rec.get("error") is not None) != (st == "FAILED") or ("cause" in rec) != (st == "FAILED"):
                    self.fail("C02 error/cause set iff FAILED violated: %s %r" % (st, {k: rec.get(k) for k in ("error", "cause")}))
                if term:
                    key = {k: rec.get(k) for k in ("status", "output", "error", "cause", "stopDate")}
                    if arn not in self.snap:
                        self.snap[arn] = key
                    elif self.snap[arn] != key:
                        self.fail("C02 terminal record of %s changed: %s -> %s" % (arn, self.snap[arn], key))
            # ---- C11: surfaces agree -------------------------------------------
            if "C11" in self.which:
                last_subj, last = notes[-1]
                d = last["detail"]
                if last_subj != d["stateMachineArn"] + "." + d["status"]:
                    self.fail("C11 subject %r" % (last_subj,))
                for k in ("version", "id", "detail-type", "source", "account", "time", "region", "resources", "detail"):
                    if k not in last:
                        self.fail("C11 CloudWatch envelope lacks %s" % k)
                if last.get("resources") != [arn]:
                    self.fail("C11 resources %r" % (last.get("resources"),))
                if len(set(sts)) != len(sts):
                    self.fail("C11 status published twice: %s" % sts)
                # every notification of one execution tells the same story about what does not change
                first = notes[0][1]["detail"]
                for k in ("executionArn", "stateMachineArn", "name", "input", "startDate"):
                    if d.get(k) != first.get(k):
                        self.fail("C11 %s notification reports %s=%r but the RUNNING notification reported %r" % (d["status"], k, d.get(k), first.get(k)))
                if rec is not None:
                    if rec["status"] != d["status"]:
                        self.fail("C11 record status %s vs notification %s" % (rec["status"], d["status"]))
                    if rec.get("input") != d.get("input") or rec.get("output") != d.get("output") or rec.get("error") != d.get("error"):
                        self.fail("C11 record/notification disagree on input/output/error")
                    if not isinstance(rec["startDate"], float) or d["startDate"] != int(rec["startDate"] * 1000):
                        self.fail("C11 startDate record %r notification %r" % (rec["startDate"], d["startDate"]))
                    if rec.get("stopDate") is not None and (not isinstance(rec["stopDate"], float) or d["stopDate"] != int(rec["stopDate"] * 1000)):
                        self.fail("C11 stopDate record %r notification %r" % (rec.get("stopDate"), d.get("stopDate")))
                    if rec.get("stopDate") is None and d.get("stopDate") is not None:
                        self.fail("C11 stopDate only in notification")
                elif self.sm_types.get(d["stateMachineArn"], "STANDARD") == "STANDARD" and inst.alive:
                    self.fail("C11 STANDARD execution %s has a notification but no record" % arn)
            # ---- C09 / C11: history ---------------------------------------------
            hist = plain(eng.execution_history.get(arn))
            if hist is not None and ("C09" in self.which or "C11" in self.which):
                self.check_history(arn, list(hist), rec, sts, term)
            if self.sm_types.get(per[arn][0][1]["detail"]["stateMachineArn"], "STANDARD") == "EXPRESS":
                if ("C09" in self.which or "C11" in self.which) and (rec is not None or hist is not None):
                    self.fail("EXPRESS execution %s stored a record/history" % arn)
        # ---- C03: ordering inside one handler invocation -----------------------------
        if "C03" in self.which:
            ops = sim.BROKER.oplog[self.op_mark:]
            self.op_mark = len(sim.BROKER.oplog)
            # did this step append a *Failed history event (failure path of a fan-out)?
            failed_now = False
            joined_now = False      # a Parallel/Map state that is the LAST state of its Branch (or of the machine) completed
            for arn_, h in list(inst.eng.execution_history.items()):
                k0 = self.hist_mark.get(arn_, 0)
                new_events = list(h)[k0:]
                self.hist_mark[arn_] = len(h)
                if any(("Failed" in e["type"] or "TimedOut" in e["type"]) for e in new_events):
                    failed_now = True
                for e in new_events:
                    if e["type"] in ("ParallelStateExited", "MapStateExited"):
                        nm = (e.get("stateExitedEventDetails") or {}).get("name")
                        if self.join_is_terminal(inst, nm):
                            joined_now = True
            acked = {}          # execution ARN -> first event acknowledged for it in this step
            pending_start = None
            for o in ops:
                if o[0] == "multi-ack":
                    self.fail("C03 delivery %s acknowledged by a multiple-ack of another message" % (o[2],))
                # a start event carries no execution ARN: it belongs to the execution whose RUNNING notification
                # its handler sends
                if o[0] == "deliver" and o[1].startswith("ev"):
                    pending_start = o[2]
                elif o[0] == "broadcast" and o[1].endswith(".RUNNING") and pending_start is not None:
                    self.start_exec.setdefault(pending_start, o[2]); pending_start = None
                if o[0] == "ack" and o[1].startswith("ev"):
                    ex_a = (o[3] if len(o) > 3 else None) or self.start_exec.get(o[2])
                    acked.setdefault(ex_a, o)
                elif acked and (o[0] == "broadcast" or (o[0] == "publish" and o[1].startswith("ev"))):
                    # consequences are attributed per execution: one step can complete a child execution and, from
                    # inside the child's end_execution, resume and finish its parent (whose own event is then
                    # acknowledged, rightly, before the child's terminal notification goes out)
                    ex = o[2] if o[0] == "broadcast" else (o[4] if len(o) > 4 else None)
                    a = acked.get(ex) if ex is not None else next(iter(acked.values()))
                    if a is None and None in acked:
                        a = acked[None]
                    if a is None:
                        continue
                    tag = ""
                    if self.had_join or inst.eng.branch_metadata:
                        # (a join that has a Next publishes its successor first: only what is published or announced
                        # after a fan-out state with End:true has completed - by the enclosing join, or the terminal
                        # notification - falls under the finding)
                        if o[0] == "broadcast" or joined_now:
                            tag = "[join-end] "          # known finding: a completed fan-out acks its held events before the terminal record / the successor of the enclosing join
                        elif failed_now:
                            tag = "[join-failure] "      # known finding: check_pending_results acks before retry/catch successor
                    self.fail("C03 %sevent %s acknowledged before a consequence of the same handler was issued (%s %s)" % (tag, a[2], o[0], o[1]))
                    break
            self.had_join = bool(inst.eng.branch_metadata)
        # ---- C03: carrier -------------------------------------------------------
        if "C03" in self.which and run is not None:
            running = [a for a, n in per.items() if len(n) == 1]
            b = sim.BROKER
            carrier = (any(b.queues.values()) or b.unacked or inst.td.pending_requests
                       or [t for t in b.timers if not inst.is_heartbeat(t)])
            if running and not carrier:
                self.fail("C03 execution(s) %s RUNNING with nothing queued, unacked, pending or armed" % running)
            if any(o[0] == "double-ack" for o in b.oplog):
                self.fail("C03 a delivery was acknowledged twice")
            # once every execution is terminal and nothing is in flight, no timer of theirs may still be armed
            # (a cancelled Task's time-out timer, a cancelled Wait): "holds no per-execution state (... timers)"
            if per and not running and not any(b.queues.values()) and not b.unacked and not inst.td.pending_requests and not inst.td.orphaned_responses:
                left = [t for t in b.timers if not inst.is_heartbeat(t) and getattr(t[2], "__name__", "") not in ("handle_orphaned_responses",)
                        and "heartbeat" not in getattr(t[2], "__qualname__", "") and not getattr(t[2], "__name__", "").startswith("harness_")]
                delay = [t for t in left if getattr(t[2], "__qualname__", "").endswith("_delegate")]
                other = [t for t in left if t not in delay]
                if other:
                    self.fail("C03 %d timer(s) still armed after every execution has ended: %s" % (len(other), [getattr(t[2], "__qualname__", repr(t[2]))[-60:] for t in other]))
                elif delay:
                    # known finding: the retry-delay timer of a retried state cannot be cancelled (the engine keeps no handle)
                    self.fail("C03 [retry-delay-timer] %d retry-delay timer(s) of a terminated Branch still armed after every execution has ended" % len(delay))

    @staticmethod
    def join_is_terminal(inst, name):
        """True when some stored definition has a state `name` with End:true (searched through Branches/Iterators)."""
        def walk(sm):
            if not isinstance(sm, dict):
                return False
            for k, st in (sm.get("States") or {}).items():
                if not isinstance(st, dict):
                    continue
                if k == name and st.get("End"):
                    return True
                for b in st.get("Branches") or []:
                    if walk(b):
                        return True
                if walk(st.get("Iterator")) or walk(st.get("ItemProcessor")):
                    return True
            return False
        try:
            with untraced():
                return any(walk(plain(v).get("definition")) for v in list(inst.eng.asl_store.values()))
        except Exception:
            return True

    def check_history(self, arn, hist, rec, sts, term):
        prev_ts = None
        for i, e in enumerate(hist):
            if e["id"] != i + 1 or e["previousEventId"] != i:
                self.fail("C09 history ids not contiguous at %d: %r" % (i, (e["id"], e["previousEventId"]))); return
            if prev_ts is not None and e["timestamp"] < prev_ts:
                self.fail("C09 timestamps decrease at event %d" % (i + 1)); return
            prev_ts = e["timestamp"]
        if hist:
            if hist[0]["type"] != "ExecutionStarted":
                self.fail("C09 first history event is %s" % hist[0]["type"]); return
            if rec is not None and rec.get("input") is not None and hist[0]["executionStartedEventDetails"].get("input") != rec["input"]:
                self.fail("C09 ExecutionStarted input differs from record input"); return
        ends = [i for i, e in enumerate(hist) if e["type"] in ("ExecutionSucceeded", "ExecutionFailed")]
        if not term and ends and rec is not None and rec["status"] == "RUNNING":
            self.fail("C09 terminal history event while execution is RUNNING"); return
        if term:
            if len(ends) != 1:
                self.fail("C09 %d terminal history events for %s" % (len(ends), arn)); return
            if ends[0] != len(hist) - 1:
                self.fail("C09 %d history event(s) appended after the terminal one (%s)" % (len(hist) - 1 - ends[0], hist[-1]["type"])); return
            e = hist[-1]
            if rec is not None:
                if e["type"] == "ExecutionSucceeded":
                    if rec["status"] != "SUCCEEDED" or e["executionSucceededEventDetails"]["output"] != rec["output"]:
                        self.fail("C09 ExecutionSucceeded disagrees with record"); return
                else:
                    det = e["executionFailedEventDetails"]
                    if rec["status"] != "FAILED" or det.get("error") != rec.get("error") or det.get("cause") != rec.get("cause"):
                        self.fail("C09 ExecutionFailed disagrees with record"); return
        # entered/exited discipline
        open_states = {}
        for e in hist:
            t = e["type"]
            if t.endswith("StateEntered"):
                n = e["stateEnteredEventDetails"]["name"]
                open_states[n] = open_states.get(n, 0) + 1
            elif t.endswith("StateExited"):
                n = e["stateExitedEventDetails"]["name"]
                if open_states.get(n, 0) <= 0:
                    self.fail("C09 StateExited(%s) without a preceding StateEntered" % n); return
                open_states[n] -= 1
        failed_somewhere = any(("Failed" in e["type"] or "TimedOut" in e["type"] or "Aborted" in e["type"]) for e in hist)
        if term and hist[-1]["type"] == "ExecutionSucceeded" and not failed_somewhere:
            left = {n: c for n, c in open_states.items() if c}
            if left:
                self.fail("C09 SUCCEEDED execution has entered-but-never-exited states %s" % left); return

    def at_quiescence(self, expect_execs=None):
        if self.err:
            return
        with untraced():
            self._at_quiescence(expect_execs)

    def _at_quiescence(self, expect_execs=None):
        per = self.per_exec()
        if "C02" in self.which:
            for arn, notes in per.items():
                if len(notes) != 2:
                    self.fail("C02 execution %s has notifications %s at quiescence" % (arn, [m["detail"]["status"] for _, m in notes]))
            if expect_execs is not None and len(per) != expect_execs:
                self.fail("C02 %d executions notified, expected %d" % (len(per), expect_execs))
        if "C03" in self.which:
            inst = self.inst
            b = sim.BROKER
            left = {
                "unacknowledged_messages": len(inst.ed.unacknowledged_messages), "branch_metadata": len(inst.eng.branch_metadata),
                "pending_requests": len(inst.td.pending_requests), "cancellers": len(inst.td.cancellers),
                "orphaned_responses": len(inst.td.orphaned_responses), "broker_unacked": len(b.unacked),
                "timers": len([t for t in b.timers if not inst.is_heartbeat(t)]),
                "queued": sum(len(q) for q in b.queues.values()),
            }
            bad = {k: v for k, v in left.items() if v}
            if bad:
                self.fail("C03 not drained at quiescence: %s" % bad)


def result_of(arn=None):
    ts = sim.terminals(arn)
    if len(ts) != 1:
        return ("?", len(ts))
    d = ts[0]
    if d["status"] == "SUCCEEDED":
        return ("SUCCEEDED", json.loads(d["output"]))
    return ("FAILED", d.get("error"))


def run_scenario(asl, data, picks, workers, which, sm_type="STANDARD", expect=None, max_steps=80, children=(),
                 timer_horizon=None, eager_timer=None, ttl=500, n_exec=1, pre_run=None, canonical=True,
                 extra_check=None, start_ctx=None, expect_each=None, fast=False, store="simple", on_step_extra=None):
    """Run one execution of `asl` to quiescence under the schedule `picks`.
    Returns "" or the first monitor/oracle violation.
    fast=True: every engine action (delivery, reply, timer) runs outside CrossHair's tracer. Only legal when no
    symbolic datum flows into the engine (all scenario arguments except the schedule vector were made concrete
    by explicit branching in the scenario): the solver then decides the schedule space exactly as before, the
    tracer merely stops interpreting ~10^6 opcodes of concrete engine code per path."""
    U = untraced if fast else _Null
    with U():
        sim.reset()
        dur = sim.Durable(store)
        arn = dur.add_machine(asl, sm_type)
        types = {arn: sm_type}
        for name, casl, ctype in children:
            types[dur.add_machine(casl, ctype, name)] = ctype
        inst = sim.Instance(dur, ttl=ttl)
        inst.alive = True
        mon = Monitors(inst, which, types)
        def _on_step(r):
            mon.after_step(r)
            if on_step_extra is not None and not mon.err:
                with untraced():
                    e = on_step_extra(r, inst, mon)
                if e:
                    mon.fail(e)
        run = sim.Run(picks, workers, max_steps=max_steps, eager_timer=eager_timer, on_step=_on_step, fast=fast)
        run.instances = [inst]
        for i in range(n_exec):
            ev = sim.start_event(copy.deepcopy(data), arn)
            if start_ctx is not None:
                ev["context"].update(copy.deepcopy(start_ctx(i)))
            inst.ed.publish(ev, use_shared_queue=True)
        if pre_run:
            pre_run(run, inst)
    run.run(timer_horizon)          # the schedule decisions (Run.choose) are always traced
    with U():
        if canonical:
            run.unused_must_be_zero()
        mon.after_step(run)
        mon.at_quiescence(expect_execs=None)
        if mon.err:
            return mon.err
        if "C02" in which and not mon.err:
            # long after everything has ended the engine's periodic back-stop (EventDispatcher.heartbeat -> every 60th
            # beat StateEngine.heartbeat -> check_for_expired_branch_results) must find nothing to do: no further
            # notification, no change of a terminal record
            n_topic = len(sim.BROKER.topic)
            stubs.CLOCK.now += float(ttl) + 100.0
            inst.eng.heartbeat(60)
            k = 0
            while k < 20 and run.step(timer_horizon):
                k += 1
            mon.after_step(run)
            if not mon.err and len(sim.BROKER.topic) != n_topic:
                mon.fail("C02 the time-out back-stop published %d more notification(s) after every execution had ended" % (len(sim.BROKER.topic) - n_topic))
            if mon.err:
                return mon.err
        if expect is not None:
            got = result_of()
            if got != expect:
                return "outcome %r, expected %r" % (got, expect)
        if expect_each is not None:
            with untraced():
                for arn_, notes in mon.per_exec().items():
                    got = result_of(arn_)
                    if got != expect_each:
                        return "outcome %r of %s, expected %r" % (got, arn_, expect_each)
                if len(mon.per_exec()) != n_exec:
                    return "%d executions notified, expected %d" % (len(mon.per_exec()), n_exec)
        if extra_check is not None:
            r = extra_check(run, inst, mon)
            if r:
                return r
    return ""


def history_of(inst, arn=None):
    h = inst.eng.execution_history
    if arn is None:
        arns = list(h.keys())
        if len(arns) != 1:
            return []
        arn = arns[0]
    return list(h.get(arn, []))
