"""symnum - Engine B: operator-overloading symbolic numbers over z3.

The *real function objects* of the repository are executed natively with
arguments that are SymInt / SymReal proxies.  Arithmetic builds z3 terms; every
truth test of a comparison asks z3 which outcomes are feasible and a DFS driver
re-runs the function once per feasible decision vector.  At the end of each
path the harness returns a z3 Bool `ok` (the property over the captured
symbolic outputs); `pc AND NOT ok` must be unsat.  Every final query is also
written as SMT-LIB2 and re-decided by the cvc5 binary where it answers.

Modelling statement: Python floats are treated as exact reals (IEEE rounding is
outside the claim); ints are mathematical integers (exact for Python).
"""
import time, subprocess, tempfile, os, shutil
import z3


class Unsupported(Exception):
    pass


class Explorer:
    def __init__(self, prefix, assume):
        self.prefix = prefix
        self.trace = []
        self.pc = []
        self.assume = assume
        self.queries = 0
        self.solver_s = 0.0

    def check(self, *extra):
        s = z3.Solver()
        s.set("timeout", 20000)
        s.add(*self.assume); s.add(*self.pc); s.add(*extra)
        t = time.time()
        r = s.check()
        self.solver_s += time.time() - t
        self.queries += 1
        return r, s

    def decide(self, cond):
        i = len(self.trace)
        if i < len(self.prefix):
            b = self.prefix[i]
        else:
            r, _ = self.check(cond)
            if r == z3.unknown:
                raise Unsupported("z3 unknown on branch condition")
            b = (r == z3.sat)
            if not b:
                r2, _ = self.check(z3.Not(cond))
                if r2 != z3.sat:
                    raise Unsupported("both branches infeasible/unknown")
        self.trace.append(b)
        self.pc.append(cond if b else z3.Not(cond))
        return b


EX = None


def _lift(v):
    if isinstance(v, Sym):
        return v.e
    if isinstance(v, bool):
        raise TypeError("bool in arithmetic")
    if isinstance(v, int):
        return z3.IntVal(v)
    if isinstance(v, float):
        return z3.RealVal(repr(v))
    raise TypeError(type(v))


def _both(a, b):
    """Coerce two z3 arithmetic terms to a common sort."""
    if a.sort() == b.sort():
        return a, b
    if z3.is_int(a):
        a = z3.ToReal(a)
    if z3.is_int(b):
        b = z3.ToReal(b)
    return a, b


class SymBool:
    def __init__(self, e):
        self.e = e

    def __bool__(self):
        return EX.decide(self.e)

    def __deepcopy__(self, memo):
        return self


class Sym:
    """Symbolic number (z3 Int or Real term)."""
    __hash__ = None

    def __init__(self, e):
        self.e = e

    def __deepcopy__(self, memo):
        return self

    def __copy__(self):
        return self

    @property
    def is_int(self):
        return z3.is_int(self.e)

    def _bin(self, o, f, swap=False):
        try:
            b = _lift(o)
        except TypeError:
            return NotImplemented
        a, b = _both(self.e, b)
        return Sym(z3.simplify(f(b, a) if swap else f(a, b)))

    def __add__(s, o): return s._bin(o, lambda a, b: a + b)
    def __radd__(s, o): return s._bin(o, lambda a, b: a + b, True)
    def __sub__(s, o): return s._bin(o, lambda a, b: a - b)
    def __rsub__(s, o): return s._bin(o, lambda a, b: a - b, True)
    def __mul__(s, o): return s._bin(o, lambda a, b: a * b)
    def __rmul__(s, o): return s._bin(o, lambda a, b: a * b, True)
    def __neg__(s): return Sym(-s.e)
    def __pos__(s): return s

    def __truediv__(s, o):
        try:
            b = _lift(o)
        except TypeError:
            return NotImplemented
        a = s.e
        a = z3.ToReal(a) if z3.is_int(a) else a
        b = z3.ToReal(b) if z3.is_int(b) else b
        return Sym(a / b)

    def __rtruediv__(s, o):
        a = _lift(o)
        a = z3.ToReal(a) if z3.is_int(a) else a
        b = z3.ToReal(s.e) if z3.is_int(s.e) else s.e
        return Sym(a / b)

    def __pow__(s, o):
        if isinstance(o, int) and not isinstance(o, bool) and o >= 0:
            r = z3.IntVal(1) if s.is_int else z3.RealVal(1)
            for _ in range(o):
                r = r * s.e
            return Sym(r)
        if isinstance(o, Sym) and o.is_int:
            for k in range(0, POW_BOUND + 1):
                if SymBool(o.e == k):
                    return s ** k
            raise Unsupported("symbolic exponent above the unrolling bound %d" % POW_BOUND)
        return NotImplemented

    def __rpow__(s, base):
        if not s.is_int:
            return NotImplemented
        for k in range(0, POW_BOUND + 1):
            if SymBool(s.e == k):
                return base ** k
        raise Unsupported("symbolic exponent above the unrolling bound %d" % POW_BOUND)

    def _cmp(self, o, f):
        try:
            b = _lift(o)
        except TypeError:
            return NotImplemented
        a, b = _both(self.e, b)
        return SymBool(f(a, b))

    def __lt__(s, o): return s._cmp(o, lambda a, b: a < b)
    def __le__(s, o): return s._cmp(o, lambda a, b: a <= b)
    def __gt__(s, o): return s._cmp(o, lambda a, b: a > b)
    def __ge__(s, o): return s._cmp(o, lambda a, b: a >= b)

    def __eq__(s, o):
        r = s._cmp(o, lambda a, b: a == b)
        return False if r is NotImplemented else r

    def __ne__(s, o):
        r = s._cmp(o, lambda a, b: a != b)
        return True if r is NotImplemented else r

    def __bool__(s):
        return EX.decide(s.e != 0)

    def __int__(s):
        raise Unsupported("int() of a symbolic number")

    def __float__(s):
        raise Unsupported("float() of a symbolic number")

    def __index__(s):
        raise Unsupported("index() of a symbolic number")

    def __format__(s, spec): return "<sym>"
    def __str__(s): return "<sym>"
    __repr__ = __str__


POW_BOUND = 6


def Int(name):
    return Sym(z3.Int(name))


def Real(name):
    return Sym(z3.Real(name))


def term(v):
    """z3 term of a captured output (Sym or concrete number)."""
    if isinstance(v, Sym):
        return v.e
    return _lift(v)


def real(v):
    t = term(v)
    return z3.ToReal(t) if z3.is_int(t) else t


def _cvc5_check(smt2, timeout_s=20):
    exe = shutil.which("cvc5")
    if not exe:
        return "absent"
    d = tempfile.mkdtemp(prefix="vfsmt_")
    path = os.path.join(d, "q.smt2")
    try:
        with open(path, "w") as f:
            f.write(smt2)
        p = subprocess.run([exe, "--tlimit=%d" % (timeout_s * 1000), path], capture_output=True, text=True, timeout=timeout_s + 10)
        out = (p.stdout + p.stderr).strip()
        if "(error" in out or "error" in out.lower().split("\n")[0:1]:
            return "error"
        first = out.splitlines()[0].strip() if out else "unknown"
        return first if first in ("sat", "unsat", "unknown") else "unknown"
    except Exception:
        return "unknown"
    finally:
        shutil.rmtree(d, ignore_errors=True)


def explore(fn, assume=(), max_paths=2000, cross_check=True, names=None):
    """Run fn() once per feasible decision vector.  fn returns a z3 Bool (or Python
    bool) `ok`, optionally a tuple (ok, label).  Returns a result dict in the
    worker's format."""
    global EX
    t0 = time.time()
    stack = [[]]
    paths = queries = 0
    solver_s = 0.0
    cex = []
    labels = {}
    cvc = {"unsat": 0, "sat": 0, "unknown": 0, "error": 0, "absent": 0}
    samples = []
    while stack:
        prefix = stack.pop()
        EX = ex = Explorer(prefix, list(assume))
        try:
            out = fn()
        except Unsupported as e:
            return {"status": "error", "message": "symnum unsupported: %s" % e, "paths": paths}
        label = None
        if isinstance(out, tuple):
            out, label = out
        paths += 1
        labels[label] = labels.get(label, 0) + 1
        for i in range(len(prefix), len(ex.trace)):
            alt = ex.trace[:i] + [not ex.trace[i]]
            s = z3.Solver(); s.set("timeout", 20000)
            s.add(*ex.assume); s.add(*ex.pc[:i]); s.add(z3.Not(ex.pc[i]))
            t = time.time(); r = s.check(); solver_s += time.time() - t; queries += 1
            if r == z3.sat:
                stack.append(alt)
            elif r == z3.unknown:
                return {"status": "error", "message": "z3 unknown while enumerating branches", "paths": paths}
        ok = out if not isinstance(out, bool) else z3.BoolVal(out)
        r, s = ex.check(z3.Not(ok))
        queries += ex.queries; solver_s += ex.solver_s
        if r == z3.unknown:
            return {"status": "error", "message": "z3 unknown on a final query (label %s)" % label, "paths": paths}
        if cross_check:
            c = _cvc5_check("(set-logic ALL)\n" + s.to_smt2()) if hasattr(s, "to_smt2") else "absent"
            cvc[c] = cvc.get(c, 0) + 1
            if (c == "sat" and r == z3.unsat) or (c == "unsat" and r == z3.sat):
                return {"status": "error", "message": "z3 (%s) and cvc5 (%s) disagree on a final query (label %s)" % (r, c, label), "paths": paths}
        if len(samples) < 3:
            samples.append({"label": label, "path_condition": [str(c) for c in ex.pc][:8], "verdict": str(r)})
        if r == z3.sat:
            m = s.model()
            vals = {}
            for d in m.decls():
                v = m[d]
                vals[d.name()] = str(v)
            cex.append({"model": vals, "label": label, "decisions": list(ex.trace)})
        if paths > max_paths:
            return {"status": "error", "message": "more than %d paths" % max_paths, "paths": paths}
    res = {"paths": paths, "queries": queries, "solver_s": round(solver_s, 3), "wall_s": round(time.time() - t0, 3),
           "detail": {"outcome_classes": {str(k): v for k, v in labels.items()}, "cvc5": {k: v for k, v in cvc.items() if v}, "samples": samples}}
    if cex:
        res.update(status="refuted", message="%d path(s) with a satisfiable negated property" % len(cex), cex=cex[:5])
    else:
        res.update(status="confirmed", message="unsat on all %d paths (%d z3 queries)" % (paths, queries))
    return res


def frac(s):
    """Parse a z3 model value string ('3', '7/2', '-1/3', '2.5?') into a Fraction."""
    from fractions import Fraction
    s = s.replace("?", "").strip()
    if s.startswith("(") and s.endswith(")"):
        s = s[1:-1]
    if s.startswith("- "):
        return -frac(s[2:])
    if s.startswith("/ "):
        a, b = s[2:].split()
        return Fraction(a) / Fraction(b)
    return Fraction(s)


# ---------------------------------------------------------------------------
# Polymorphic property helpers: z3 terms when any operand is symbolic, plain
# Python values otherwise (used for the native replay of a counterexample).
# ---------------------------------------------------------------------------
def _is_sym(x):
    return isinstance(x, (Sym, SymBool, z3.ExprRef))


class P:
    @staticmethod
    def _t(x):
        if isinstance(x, SymBool):
            return x.e
        if isinstance(x, z3.ExprRef):
            return x
        return real(x)

    @staticmethod
    def _cmp(a, b, fz, fp):
        if _is_sym(a) or _is_sym(b):
            return fz(P._t(a), P._t(b))
        return fp(a, b)

    @staticmethod
    def eq(a, b): return P._cmp(a, b, lambda x, y: x == y, lambda x, y: x == y)
    @staticmethod
    def le(a, b): return P._cmp(a, b, lambda x, y: x <= y, lambda x, y: x <= y)
    @staticmethod
    def lt(a, b): return P._cmp(a, b, lambda x, y: x < y, lambda x, y: x < y)
    @staticmethod
    def ge(a, b): return P.le(b, a)
    @staticmethod
    def gt(a, b): return P.lt(b, a)

    @staticmethod
    def _b(x):
        if isinstance(x, SymBool):
            return x.e
        if isinstance(x, z3.ExprRef):
            return x
        return z3.BoolVal(bool(x))

    @staticmethod
    def and_(*xs):
        if any(_is_sym(x) for x in xs):
            return z3.And(*[P._b(x) for x in xs])
        return all(xs)

    @staticmethod
    def or_(*xs):
        if any(_is_sym(x) for x in xs):
            return z3.Or(*[P._b(x) for x in xs])
        return any(xs)

    @staticmethod
    def not_(x):
        return z3.Not(P._b(x)) if _is_sym(x) else (not x)

    @staticmethod
    def implies(a, b):
        if _is_sym(a) or _is_sym(b):
            return z3.Implies(P._b(a), P._b(b))
        return (not a) or bool(b)

    @staticmethod
    def ite(c, a, b):
        if _is_sym(c) or _is_sym(a) or _is_sym(b):
            return Sym(z3.If(P._b(c), P._t(a), P._t(b)))
        return a if c else b

    @staticmethod
    def min(a, b): return P.ite(P.le(a, b), a, b)
    @staticmethod
    def max(a, b): return P.ite(P.le(a, b), b, a)


def run_kernel(kernel, spec, assume=None, replay=None, max_paths=2000):
    """spec: {name: "int"|"real"}.  kernel(**values) -> ok | (ok, label) using P.* for the
    property; assume(**values) -> list of P.* conditions (the quantifier's domain)."""
    from fractions import Fraction
    if replay is None:
        syms = {n: (Int(n) if t == "int" else Real(n)) for n, t in spec.items()}
        asm = [P._b(a) for a in (assume(**syms) if assume else [])]
        return explore(lambda: kernel(**syms), asm, max_paths=max_paths)
    model = replay.get("model", {})
    vals = {}
    for n, t in spec.items():
        v = frac(model.get(n, "0"))
        vals[n] = int(v) if t == "int" else Fraction(v)
    if assume:
        for a in assume(**vals):
            if not a:
                return {"reproduced": False, "reason": "model violates the assumed domain", "values": {k: str(v) for k, v in vals.items()}}
    try:
        out = kernel(**vals)
    except Exception as e:
        return {"reproduced": True, "reason": "real code raised %s: %s" % (type(e).__name__, e), "values": {k: str(v) for k, v in vals.items()}}
    label = None
    if isinstance(out, tuple):
        out, label = out
    return {"reproduced": not bool(out), "reason": "property %s natively (outcome class %s)" % ("fails" if not out else "holds", label),
            "values": {k: str(v) for k, v in vals.items()}}
