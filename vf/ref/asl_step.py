"""Reference interpreter for the supported subset of the Amazon States Language,
written from the specification (https://states-language.net/spec.html), not from
the implementation.  Used as the oracle of C01 (and by C04/C15 for expected
outcomes).  Retry is deliberately absent (C07's oracle); Catch is honoured only when run(..., catch=True)
(nested fan-out generator): first matching catcher, Error Output {Error, Cause} placed by the catcher's ResultPath
into the state's raw input, States.ALL matching everything but the unrecoverable States.Runtime family.

run(asl, data, ctx, task) -> ("SUCCEEDED", output) | ("FAILED", error_name)
`task(resource, effective_input)` -> ("ok", value) | ("err", name)
"""
import copy


class Failure(Exception):
    def __init__(self, error):
        self.error = error


MISSING = object()


def get_path(doc, ctx, path):
    """Reference Paths of the supported grammar: $, $.a.b, $.a[0], $['a'], $$...; None -> {}."""
    if path is None:
        return {}
    if not isinstance(path, str) or not path.startswith("$"):
        raise Failure("States.Runtime")
    if path.startswith("$$"):
        doc = ctx
        path = path[1:]
    cur = doc
    i = 1
    n = len(path)
    while i < n:
        if path[i] == ".":
            j = i + 1
            while j < n and path[j] not in ".[":
                j += 1
            key = path[i + 1:j]
            if not isinstance(cur, dict) or key not in cur:
                raise Failure("States.Runtime")
            cur = cur[key]
            i = j
        elif path[i] == "[":
            j = path.index("]", i)
            tok = path[i + 1:j]
            if tok[:1] in "'\"":
                key = tok[1:-1]
                if not isinstance(cur, dict) or key not in cur:
                    raise Failure("States.Runtime")
                cur = cur[key]
            else:
                k = int(tok)
                if not isinstance(cur, list) or not (0 <= k < len(cur)):
                    raise Failure("States.Runtime")
                cur = cur[k]
            i = j + 1
        else:
            raise Failure("States.Runtime")
    return cur


def template(tpl, doc, ctx):
    """Payload Template: members named '*.$' are replaced by the value of their path."""
    if tpl is None:
        return doc
    if isinstance(tpl, dict):
        out = {}
        for k, v in tpl.items():
            if isinstance(k, str) and k.endswith(".$") and not isinstance(v, (dict, list)):
                out[k[:-2]] = copy.deepcopy(get_path(doc, ctx, v))
            else:
                out[k] = template(v, doc, ctx) if isinstance(v, (dict, list)) else v
        return out
    if isinstance(tpl, list):
        return [template(v, doc, ctx) if isinstance(v, (dict, list)) else v for v in tpl]
    return tpl


def put_path(doc, path, value):
    """ResultPath: '$' replaces, None discards, '$.a.b' places (creating objects on the way)."""
    if path is None:
        return doc
    if path == "$":
        return value
    doc = copy.deepcopy(doc)
    if not isinstance(doc, dict):
        raise Failure("States.ResultPathMatchFailure")
    keys = path[2:].split(".")
    cur = doc
    for k in keys[:-1]:
        if k not in cur:
            cur[k] = {}
        if not isinstance(cur[k], dict):
            raise Failure("States.ResultPathMatchFailure")
        cur = cur[k]
    cur[keys[-1]] = copy.deepcopy(value)
    return doc


def _f(state, name, default="$"):
    return state[name] if name in state else default


CATCH = [False]
UNRECOVERABLE = ("States.Runtime", "States.ResultPathMatchFailure", "States.ParameterPathFailure", "States.IntrinsicFailure",
                 "States.DataLimitExceeded", "States.ExecutionTimeout", "Task.Terminated")
CAUSE = "<cause>"


def run_states(sm, data, ctx, task, depth=0):
    """Run one (sub) state machine to its end; returns the output or raises Failure."""
    name = sm["StartAt"]
    for _ in range(50):
        st = sm["States"][name]
        if CATCH[0] and st.get("Catch") and st["Type"] in ("Task", "Parallel", "Map"):
            try:
                one = {"StartAt": name, "States": {name: dict(st, End=True)}}
                one["States"][name].pop("Next", None); one["States"][name].pop("Catch", None)
                out = run_states(one, data, ctx, task, depth)
            except Failure as f:
                if f.error in UNRECOVERABLE:
                    raise
                nxt = None
                for c in st["Catch"]:
                    if f.error in c["ErrorEquals"] or "States.ALL" in c["ErrorEquals"]:
                        nxt = c; break
                if nxt is None:
                    raise
                data = put_path(data, _f(nxt, "ResultPath"), {"Error": f.error, "Cause": CAUSE})
                name = nxt["Next"]
                continue
            if st.get("End"):
                return out
            data = out
            name = st["Next"]
            continue
        t = st["Type"]
        if t == "Fail":
            raise Failure(st.get("Error", "Unspecified"))
        if t == "Succeed":
            eff = get_path(data, ctx, _f(st, "InputPath"))
            return get_path(eff, ctx, _f(st, "OutputPath"))
        eff = get_path(data, ctx, _f(st, "InputPath"))
        if t == "Pass":
            params = template(st.get("Parameters"), eff, ctx)
            result = st["Result"] if "Result" in st else params
            out = put_path(data, _f(st, "ResultPath"), result)
            out = get_path(out, ctx, _f(st, "OutputPath"))
        elif t == "Task":
            params = template(st.get("Parameters"), eff, ctx)
            kind, val = task(st["Resource"], params)
            if kind == "err":
                raise Failure(val)
            val = template(st.get("ResultSelector"), val, ctx)
            out = put_path(data, _f(st, "ResultPath"), val)
            out = get_path(out, ctx, _f(st, "OutputPath"))
        elif t == "Wait":
            out = get_path(eff, ctx, _f(st, "OutputPath"))
        elif t == "Choice":
            nxt = None
            for rule in st["Choices"]:
                if choice_rule(rule, eff, ctx):
                    nxt = rule["Next"]; break
            if nxt is None:
                nxt = st.get("Default")
            if nxt is None:
                raise Failure("States.NoChoiceMatched")
            data = get_path(eff, ctx, _f(st, "OutputPath"))
            name = nxt
            continue
        elif t == "Parallel":
            params = template(st.get("Parameters"), eff, ctx)
            res = [run_states(b, copy.deepcopy(params), ctx, task, depth + 1) for b in st["Branches"]]
            res = template(st.get("ResultSelector"), res, ctx)
            out = put_path(data, _f(st, "ResultPath"), res)
            out = get_path(out, ctx, _f(st, "OutputPath"))
        elif t == "Map":
            items = get_path(eff, ctx, _f(st, "ItemsPath"))
            if not isinstance(items, list):
                items = []
            proc = st.get("ItemProcessor") or st.get("Iterator")
            sel = st.get("ItemSelector", st.get("Parameters"))
            res = []
            for i, item in enumerate(items):
                c2 = dict(ctx); c2["Map"] = {"Item": {"Index": i, "Value": item}}
                inp = template(sel, eff, c2) if sel else item
                res.append(run_states(proc, copy.deepcopy(inp), ctx, task, depth + 1))
            res = template(st.get("ResultSelector"), res, ctx)
            out = put_path(data, _f(st, "ResultPath"), res)
            out = get_path(out, ctx, _f(st, "OutputPath"))
        else:
            raise Failure("States.Runtime")
        if st.get("End"):
            return out
        data = out
        name = st["Next"]
    raise Failure("States.Runtime")


def choice_rule(rule, doc, ctx):
    """Only the operators used by the C01 corpus (full operator semantics: vf/ref/choice.py)."""
    from vf.ref import choice as ch
    if "And" in rule: return all(choice_rule(r, doc, ctx) for r in rule["And"])
    if "Or" in rule: return any(choice_rule(r, doc, ctx) for r in rule["Or"])
    if "Not" in rule: return not choice_rule(rule["Not"], doc, ctx)
    try:
        v = get_path(doc, ctx, rule["Variable"])
    except Failure:
        v = ch.MISSING
    for k, c in rule.items():
        if k.startswith("Numeric") and not k.endswith("Path"): return ch.numeric(k[7:], v, c)
        if k.startswith("String") and k != "StringMatches" and not k.endswith("Path"): return ch.string(k[6:], v, c)
        if k == "BooleanEquals": return ch.boolean_equals(v, c)
        if k == "IsPresent": return (v is not ch.MISSING) == c
    raise ValueError("operator outside the C01 corpus: %r" % rule)


def run(asl, data, ctx, task, catch=False):
    CATCH[0] = catch
    try:
        return ("SUCCEEDED", run_states(asl, data, ctx, task))
    except Failure as f:
        return ("FAILED", f.error)
    finally:
        CATCH[0] = False


def strip_cause(v):
    """A copy of a JSON value with every "Cause" member's text replaced (its wording is implementation-defined)."""
    if isinstance(v, dict):
        return {k: (CAUSE if k == "Cause" else strip_cause(x)) for k, x in v.items()}
    if isinstance(v, list):
        return [strip_cause(x) for x in v]
    return v
