"""Reference semantics for Payload Templates and Intrinsic Functions.

Written from the States Language specification (sections "Payload Template",
"Intrinsic Functions" and Appendix B "List of Intrinsic Functions") and the
text of property C13 - NOT from the implementation.

    outcome(text, inp, ctx)   -> ("ok", value) | ("fail", frozenset of kinds)
    payload(template, inp, ctx)-> same, for a whole Payload Template

A failure carries the set of failure kinds that are justified by the
expression ("intrinsic" = States.IntrinsicFailure, "path" = a path failure);
when an expression is wrong in several ways the specification does not order
the checks, so any of the justified kinds is acceptable.

Grammar (spec, "Intrinsic Functions"):
    call   := name '(' [ arg { ',' arg } ] ')'
    arg    := string | number | 'null' | 'true' | 'false' | path | call
    string := "'" { char | "\\'" | "\\{" | "\\}" | "\\\\" } "'"
"The literal string \\' represents '.  \\{ represents {.  \\} represents }.
\\\\ represents \\.  An Intrinsic Function MUST fail if an open escape backslash
is found in the Intrinsic invocation string."
Blanks are accepted around arguments and between the name and '('.
"""
import json as _json
import base64 as _b64
import hashlib as _hashlib

BS = chr(92)
RESERVED = ("'", "{", "}", BS)


class Fail(Exception):
    """States.IntrinsicFailure"""


class PathFail(Exception):
    """States.ParameterPathFailure / path match failure"""


class Random:
    """Marker: any integer r with lo <= r < hi."""
    def __init__(self, lo, hi):
        self.lo = lo; self.hi = hi


class UUID:
    """Marker: any version-4 UUID in canonical text form."""


# ------------------------------------------------------------------ JSON values

def kind(v):
    if v is None: return "null"
    if isinstance(v, bool): return "bool"
    if isinstance(v, int): return "int"
    if isinstance(v, float): return "float"
    if isinstance(v, str): return "str"
    if isinstance(v, list): return "list"
    if isinstance(v, dict): return "dict"
    return "other"


def is_int(v):
    return isinstance(v, int) and not isinstance(v, bool)


def same(a, b):
    """JSON equality: type-strict (true != 1, 1 != 1.0 is NOT asserted: numbers
    compare by value), arrays element-wise in order, objects by member."""
    ka = kind(a); kb = kind(b)
    if ka in ("int", "float") and kb in ("int", "float"):
        return a == b
    if ka != kb:
        return False
    if ka == "list":
        if len(a) != len(b):
            return False
        for i in range(len(a)):
            if not same(a[i], b[i]):
                return False
        return True
    if ka == "dict":
        if len(a) != len(b):
            return False
        for k in a:
            if k not in b or not same(a[k], b[k]):
                return False
        return True
    if ka == "other":
        return a is b
    return a == b


# ------------------------------------------------------------------ parser

class Str:
    """A string argument: list of (character, was_escaped)."""
    def __init__(self, chars):
        self.chars = chars

    def value(self):
        return "".join([c for c, _ in self.chars])


class Lit:
    def __init__(self, v): self.v = v


class Path:
    def __init__(self, text): self.text = text


class Call:
    def __init__(self, name, args): self.name = name; self.args = args


def _skip(t, i):
    while i < len(t) and t[i] in " \t":
        i += 1
    return i


def _parse_string(t, i):
    # t[i] == "'"
    i += 1
    chars = []
    while True:
        if i >= len(t):
            raise Fail("unterminated string")
        c = t[i]
        if c == BS:
            if i + 1 >= len(t) or t[i + 1] not in RESERVED:
                raise Fail("open escape backslash")
            chars.append((t[i + 1], True)); i += 2
        elif c == "'":
            return Str(chars), i + 1
        else:
            chars.append((c, False)); i += 1


def _is_digits(s):
    return len(s) > 0 and all(ch in "0123456789" for ch in s)


def _parse_number(tok):
    body = tok[1:] if tok.startswith("-") else tok
    if _is_digits(body):
        return Lit(int(tok))
    if "." in body:
        a, b = body.split(".", 1)
        if _is_digits(a) and _is_digits(b):
            return Lit(float(tok))
    raise Fail("not an argument: " + tok)


def _parse_arg(t, i):
    i = _skip(t, i)
    if i >= len(t):
        raise Fail("missing argument")
    if t[i] == "'":
        node, i = _parse_string(t, i)
        return node, _skip(t, i)
    if t.startswith("States.", i):
        return _parse_call(t, i)
    j = i
    while j < len(t) and t[j] not in ",)":
        j += 1
    tok = t[i:j].rstrip(" \t")
    if tok == "":
        raise Fail("empty argument")
    if tok.startswith("$"):
        return Path(tok), j
    if tok == "null": return Lit(None), j
    if tok == "true": return Lit(True), j
    if tok == "false": return Lit(False), j
    return _parse_number(tok), j


def _parse_call(t, i):
    j = i
    while j < len(t) and t[j] not in "( \t":
        j += 1
    name = t[i:j]
    j = _skip(t, j)
    if j >= len(t) or t[j] != "(":
        raise Fail("no argument list")
    j = _skip(t, j + 1)
    args = []
    if j < len(t) and t[j] == ")":
        return Call(name, args), _skip(t, j + 1)
    while True:
        node, j = _parse_arg(t, j)
        args.append(node)
        if j >= len(t):
            raise Fail("unterminated argument list")
        if t[j] == ",":
            j += 1
            continue
        if t[j] == ")":
            return Call(name, args), _skip(t, j + 1)
        raise Fail("unexpected character")


def parse(text):
    """Parse a whole intrinsic invocation string."""
    i = _skip(text, 0)
    node, j = _parse_call(text, i)
    if j != len(text):
        raise Fail("trailing characters")
    return node


# ------------------------------------------------------------------ paths

def apply_path(text, inp, ctx):
    """Only the path forms used by the harness: $, $.a, $.a.b, $$, $$.a ...
    (JSONPath itself is the subject of property C12, not of C13)."""
    if text.startswith("$$"):
        doc = ctx; text = text[1:]
    else:
        doc = inp
    if text == "$":
        return doc
    if not text.startswith("$."):
        raise PathFail(text)
    for name in text[2:].split("."):
        if name == "" or not isinstance(doc, dict) or name not in doc:
            raise PathFail(text)
        doc = doc[name]
    return doc


# ------------------------------------------------------------------ functions

def _arity(args, lo, hi=None):
    hi = lo if hi is None else hi
    if not (lo <= len(args) <= hi):
        raise Fail("wrong number of arguments")


def f_format(nodes, vals):
    if len(vals) < 1:
        raise Fail("Format needs a template")
    tpl = vals[0]
    if not isinstance(tpl, str):
        raise Fail("template is not a string")
    # The template is looked at *before* escape processing when it is a literal.
    chars = nodes[0].chars if isinstance(nodes[0], Str) else [(c, False) for c in tpl]
    rest = vals[1:]
    for v in rest:
        if kind(v) in ("list", "dict", "other"):
            raise Fail("Format argument must not be an array or object")
    out = []
    n = 0
    i = 0
    while i < len(chars):
        c, esc = chars[i]
        if not esc and c == "{":
            if i + 1 < len(chars) and chars[i + 1] == ("}", False):
                if n >= len(rest):
                    raise Fail("more {} than arguments")
                out.append(text_of(rest[n])); n += 1; i += 2
                continue
            raise Fail("brace field other than {}")
        if not esc and c == "}":
            raise Fail("unbalanced }")
        out.append(c); i += 1
    if n != len(rest):
        raise Fail("more arguments than {}")
    return "".join(out)


def text_of(v):
    """Natural string representation (strings without quotes)."""
    if isinstance(v, str): return v
    if v is None: return "null"
    if v is True: return "true"
    if v is False: return "false"
    return str(v)


def f_string_to_json(nodes, vals):
    _arity(vals, 1)
    if not isinstance(vals[0], str):
        raise Fail("not a string")
    try:
        return _json.loads(vals[0])
    except Exception:
        raise Fail("not JSON")


class JsonText:
    """Marker: any JSON text whose parse is `value` (white space is free)."""
    def __init__(self, value): self.value = value


def f_json_to_string(nodes, vals):
    _arity(vals, 1)
    return JsonText(vals[0])


def f_array(nodes, vals):
    return list(vals)


def _array(v):
    if not isinstance(v, list):
        raise Fail("not an array")
    return v


def f_array_partition(nodes, vals):
    _arity(vals, 2)
    arr = _array(vals[0]); n = vals[1]
    if not is_int(n) or n <= 0:
        raise Fail("chunk size must be a positive integer")
    out = []
    cur = []
    for x in arr:
        cur.append(x)
        if len(cur) == n:
            out.append(cur); cur = []
    if cur:
        out.append(cur)
    return out


def f_array_contains(nodes, vals):
    _arity(vals, 2)
    arr = _array(vals[0])
    for x in arr:
        if same(x, vals[1]):
            return True
    return False


def f_array_range(nodes, vals):
    _arity(vals, 3)
    a, b, step = vals
    if not (is_int(a) and is_int(b) and is_int(step)):
        raise Fail("integers required")
    if step == 0:
        raise Fail("increment must not be zero")
    # number of elements a, a+step, ... not beyond b (b inclusive)
    if step > 0:
        n = 0 if a > b else (b - a) // step + 1
    else:
        n = 0 if a < b else (a - b) // (-step) + 1
    if n > 1000:
        raise Fail("more than 1000 items")
    return [a + k * step for k in range(n)]


def f_array_get_item(nodes, vals):
    _arity(vals, 2)
    arr = _array(vals[0]); i = vals[1]
    if not is_int(i):
        raise Fail("index must be an integer")
    if i < 0 or i >= len(arr):
        raise Fail("index out of bounds")
    return arr[i]


def f_array_length(nodes, vals):
    _arity(vals, 1)
    return len(_array(vals[0]))


def f_array_unique(nodes, vals):
    _arity(vals, 1)
    out = []
    for x in _array(vals[0]):
        seen = False
        for y in out:
            if same(x, y):
                seen = True
        if not seen:
            out.append(x)
    return out


def _string(v):
    if not isinstance(v, str):
        raise Fail("not a string")
    return v


def f_base64_encode(nodes, vals):
    _arity(vals, 1)
    return _b64.b64encode(_string(vals[0]).encode("utf-8")).decode("ascii")


class Base64Decoded:
    """Marker for States.Base64Decode of `text`: when `text` is canonical Base64
    of UTF-8 text the result is that text; otherwise the call may fail or
    return a lenient decoding (the specification does not say)."""
    def __init__(self, text): self.text = text


def f_base64_decode(nodes, vals):
    _arity(vals, 1)
    return Base64Decoded(_string(vals[0]))


HASHES = {"MD5": "md5", "SHA-1": "sha1", "SHA-256": "sha256", "SHA-384": "sha384", "SHA-512": "sha512"}


def f_hash(nodes, vals):
    _arity(vals, 2)
    data = _string(vals[0]); alg = _string(vals[1])
    if alg not in HASHES:
        raise Fail("unknown algorithm")
    return _hashlib.new(HASHES[alg], data.encode("utf-8")).hexdigest()


def f_json_merge(nodes, vals):
    _arity(vals, 3)
    a, b, deep = vals
    if deep is not False:
        raise Fail("only shallow merge (false) is supported")
    if not isinstance(a, dict) or not isinstance(b, dict):
        raise Fail("objects required")
    out = {}
    for k in a: out[k] = a[k]
    for k in b: out[k] = b[k]
    return out


def f_math_random(nodes, vals):
    _arity(vals, 2, 3)
    if not is_int(vals[0]) or not is_int(vals[1]):
        raise Fail("integers required")
    if vals[0] >= vals[1]:
        raise Fail("empty range")
    return Random(vals[0], vals[1])


def f_math_add(nodes, vals):
    _arity(vals, 2)
    if not is_int(vals[0]) or not is_int(vals[1]):
        raise Fail("integers required")
    return vals[0] + vals[1]


def f_string_split(nodes, vals):
    _arity(vals, 2)
    data = _string(vals[0]); seps = _string(vals[1])
    out = []
    cur = []
    for ch in data:
        if ch in seps:
            out.append("".join(cur)); cur = []
        else:
            cur.append(ch)
    out.append("".join(cur))
    return out


def f_uuid(nodes, vals):
    _arity(vals, 0)
    return UUID()


FUNCTIONS = {
    "States.Format": f_format, "States.StringToJson": f_string_to_json, "States.JsonToString": f_json_to_string,
    "States.Array": f_array, "States.ArrayPartition": f_array_partition, "States.ArrayContains": f_array_contains,
    "States.ArrayRange": f_array_range, "States.ArrayGetItem": f_array_get_item, "States.ArrayLength": f_array_length,
    "States.ArrayUnique": f_array_unique, "States.Base64Encode": f_base64_encode, "States.Base64Decode": f_base64_decode,
    "States.Hash": f_hash, "States.JsonMerge": f_json_merge, "States.MathRandom": f_math_random,
    "States.MathAdd": f_math_add, "States.StringSplit": f_string_split, "States.UUID": f_uuid,
}


# ------------------------------------------------------------------ evaluation

def _eval(node, inp, ctx, kinds):
    """Value of a node; failures are collected in `kinds` (the specification does
    not order the checks) and signalled by returning the _FAILED marker."""
    if isinstance(node, Str):
        return node.value()
    if isinstance(node, Lit):
        return node.v
    if isinstance(node, Path):
        try:
            return apply_path(node.text, inp, ctx)
        except PathFail:
            kinds.add("path"); return _FAILED
    vals = [_eval(a, inp, ctx, kinds) for a in node.args]
    for v in vals:
        if v is _FAILED:
            return _FAILED
    fn = FUNCTIONS.get(node.name)
    if fn is None:
        kinds.add("intrinsic"); return _FAILED
    try:
        return fn(node.args, vals)
    except Fail:
        kinds.add("intrinsic"); return _FAILED


_FAILED = object()


def outcome(text, inp=None, ctx=None):
    """Outcome of one intrinsic invocation string."""
    try:
        node = parse(text)
    except Fail:
        return ("fail", frozenset(["intrinsic"]))
    kinds = set()
    v = _eval(node, inp, ctx, kinds)
    if v is _FAILED or kinds:
        return ("fail", frozenset(kinds))
    return ("ok", v)


def escape(s):
    """Text of a string argument whose value is s (without the enclosing ')."""
    out = []
    for ch in s:
        if ch in RESERVED:
            out.append(BS)
        out.append(ch)
    return "".join(out)


def quote(s):
    return "'" + escape(s) + "'"


# ------------------------------------------------------------------ payload template

class Unspecified(Exception):
    """The template is outside what the specification / property defines."""


def _member(v, inp, ctx, kinds):
    """Extracted value of a member whose name ends in '.$'."""
    if not isinstance(v, str):
        if isinstance(v, (dict, list)):
            raise Unspecified("object/array under a '.$' name")
        kinds.add("intrinsic"); kinds.add("path")      # ill-formed; the text does not say which error
        return _FAILED
    if v.startswith("$"):
        try:
            return apply_path(v, inp, ctx)
        except PathFail:
            kinds.add("path"); return _FAILED
    o = outcome(v, inp, ctx)
    if o[0] == "fail":
        for k in o[1]: kinds.add(k)
        return _FAILED
    return o[1]


def _walk(t, inp, ctx, kinds):
    if isinstance(t, dict):
        out = {}
        for k, v in t.items():
            if isinstance(k, str) and k.endswith(".$"):
                nk = k[:-2]
                nv = _member(v, inp, ctx, kinds)
            else:
                nk = k
                nv = _walk(v, inp, ctx, kinds)
            if nk in out:
                raise Unspecified("two members with the same resulting name")
            out[nk] = nv
        return out
    if isinstance(t, list):
        return [_walk(x, inp, ctx, kinds) for x in t]
    return t


def _has_failed(v):
    if v is _FAILED:
        return True
    if isinstance(v, dict):
        return any(_has_failed(x) for x in v.values())
    if isinstance(v, list):
        return any(_has_failed(x) for x in v)
    return False


def payload(template, inp=None, ctx=None):
    """Outcome of a Payload Template (a JSON object)."""
    kinds = set()
    v = _walk(template, inp, ctx, kinds)
    if kinds or _has_failed(v):
        return ("fail", frozenset(kinds))
    return ("ok", v)
