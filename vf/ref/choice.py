"""Reference semantics for Choice comparison operators, written from the
States Language specification / property C14 (not from the implementation)."""

MISSING = object()


def is_num(x):
    return isinstance(x, (int, float)) and not isinstance(x, bool)


def rel(op, a, b):
    if op == "Equals": return a == b
    if op == "GreaterThan": return a > b
    if op == "GreaterThanEquals": return a >= b
    if op == "LessThan": return a < b
    if op == "LessThanEquals": return a <= b
    raise ValueError(op)


def numeric(op, v, c):
    return v is not MISSING and c is not MISSING and is_num(v) and is_num(c) and rel(op, v, c)


def string(op, v, c):
    return v is not MISSING and c is not MISSING and isinstance(v, str) and isinstance(c, str) and rel(op, v, c)


def boolean_equals(v, c):
    return v is not MISSING and c is not MISSING and isinstance(v, bool) and isinstance(c, bool) and v == c


def glob_tokens(pat):
    """'*' is the only wildcard; backslash escapes the next character."""
    toks = []
    i = 0
    n = len(pat)
    while i < n:
        ch = pat[i]
        if ch == "\\" and i + 1 < n:
            toks.append(("lit", pat[i + 1])); i += 2
        elif ch == "*":
            toks.append(("star", None)); i += 1
        else:
            toks.append(("lit", ch)); i += 1
    return toks


def glob_match(pat, s):
    toks = glob_tokens(pat)

    def m(ti, si):
        if ti == len(toks):
            return si == len(s)
        kind, ch = toks[ti]
        if kind == "star":
            k = si
            while k <= len(s):
                if m(ti + 1, k):
                    return True
                k += 1
            return False
        return si < len(s) and s[si] == ch and m(ti + 1, si + 1)
    return m(0, 0)


def string_matches(v, pat):
    return v is not MISSING and isinstance(v, str) and isinstance(pat, str) and glob_match(pat, v)
