"""Reference error-handling policy (States Language 'Errors' section / property C07)."""
UNRECOVERABLE = ("States.Runtime", "States.ExecutionTimeout", "Task.Terminated")


def matches(error, error_equals):
    if error in UNRECOVERABLE:
        return False
    return error in error_equals or error_equals == ["States.ALL"]


def decide(error, retriers, catchers, retry_count):
    """-> ("retry", index) | ("catch", index) | ("fail",)"""
    for i, r in enumerate(retriers):
        if matches(error, r["ErrorEquals"]):
            if retry_count < r.get("MaxAttempts", 3):
                return ("retry", i)
            break       # first matching retrier decides; exhausted -> catchers
    for i, c in enumerate(catchers):
        if matches(error, c["ErrorEquals"]):
            return ("catch", i)
    return ("fail",)
