"""Reference model for property C10: the Step Functions control-plane API seen as
a plain map from ARN to record.

Written from the property text and the AWS Step Functions API reference
(CreateStateMachine, UpdateStateMachine, DeleteStateMachine, DescribeStateMachine,
DescribeStateMachineForExecution, ListStateMachines, StartExecution,
DescribeExecution, ListExecutions, LoggingConfiguration, "Amazon Resource Names"),
NOT from the implementation.  Nothing here imports the repository.

    m = Model(region="local", asl_validation=True, logging_supported=True)
    plan = m.plan(action, body, now)      # body: the parsed JSON request body (any JSON value) or NOT_JSON
    plan.admits(http_status, response)    # -> "" if the observed answer is one the model allows, else a reason
    plan.commit(response)                 # apply the effect of an accepted request to the model

Where the documentation leaves a choice (which of several invalid arguments is
reported first, whether an un-validated definition is accepted, an unknown
statusFilter value, ...) the plan admits every documented alternative: `err` is the
set of admissible error types, `ok` the expected success body; either may be None.
"""
import json

NOT_JSON = object()        # the request body is not JSON text at all
ANY = "*"                  # any 4xx error type is admissible

MAX_DEFINITION = 1048576
MAX_INPUT = 262144
SM_TYPES = ("STANDARD", "EXPRESS")
LOG_LEVELS = ("ALL", "ERROR", "FATAL", "OFF")
EXEC_STATUSES = ("RUNNING", "SUCCEEDED", "FAILED", "TIMED_OUT", "ABORTED", "PENDING_REDRIVE")
STATE_TYPES = ("Pass", "Task", "Choice", "Wait", "Succeed", "Fail", "Parallel", "Map")
ACTIONS = ("CreateStateMachine", "UpdateStateMachine", "DeleteStateMachine", "DescribeStateMachine",
           "DescribeStateMachineForExecution", "ListStateMachines", "StartExecution", "DescribeExecution",
           "ListExecutions")

# "A name must not contain: white space, brackets < > { } [ ], wildcard characters ? *,
#  special characters " # % \ ^ | ~ ` $ & , ; : /, control characters (U+0000-001F, U+007F-009F)"; length 1-80.
_FORBIDDEN = set('<>{}[]?*"#%\\^|~`$&,;:/')


def valid_name(name):
    if not isinstance(name, str) or not (1 <= len(name) <= 80):
        return False
    for ch in name:
        o = ord(ch)
        if ch in _FORBIDDEN or ch.isspace() or o <= 0x1F or 0x7F <= o <= 0x9F:
            return False
    return True


def _arn_parts(arn, resource_type):
    """arn:partition:states:region:account:<resource_type>:<resource>  (1-256 characters).
    -> None (malformed) or the list of ':'-separated components of <resource>."""
    if not isinstance(arn, str) or not (1 <= len(arn) <= 256):
        return None
    p = arn.split(":")
    if len(p) < 7 or p[0] != "arn" or p[1] == "" or p[2] != "states" or p[3] == "":
        return None
    if p[4] == "" or not all(c in "0123456789" for c in p[4]) or p[5] != resource_type:
        return None
    if ":".join(p[6:]) == "":
        return None
    return p[6:]


def valid_state_machine_arn(arn):
    return _arn_parts(arn, "stateMachine") is not None


def valid_execution_arn(arn):
    return _arn_parts(arn, "execution") is not None


def debatable_arn(arn, resource_type):
    """Well-formed up to the resource type, but the resource is not <name> (state
    machine) / <name>:<name> (execution): documentation does not say whether such a
    string is 'malformed' or merely names nothing."""
    r = _arn_parts(arn, resource_type)
    if r is None:
        return False
    return not (len(r) == (1 if resource_type == "stateMachine" else 2) and all(valid_name(x) for x in r))


def valid_role_arn(arn):
    """arn:aws:iam::<account>:role/<path and name>  (1-256 characters)."""
    if not isinstance(arn, str) or not (1 <= len(arn) <= 256):
        return False
    p = arn.split(":")
    if len(p) != 6 or p[0] != "arn" or p[1] == "" or p[2] != "iam" or p[3] != "":
        return False
    if p[4] == "" or not all(c in "0123456789" for c in p[4]):
        return False
    return p[5].startswith("role/") and len(p[5]) > 5


def state_machine_arn(region, role_arn, name):
    """Identity of a state machine.  The server has no caller identity, so the
    account is the one that owns the execution role."""
    return "arn:aws:states:%s:%s:stateMachine:%s" % (region, role_arn.split(":")[4], name)


def execution_arn(sm_arn, name):
    p = sm_arn.split(":")
    return "arn:%s:states:%s:%s:execution:%s:%s" % (p[1], p[3], p[4], ":".join(p[6:]), name)


def _no_dups(pairs):
    d = {}
    for k, v in pairs:
        if k in d:
            raise ValueError("duplicate key")
        d[k] = v
    return d


def classify_definition(text):
    """'bad' (must be refused) | 'asl' (a well-formed state machine) | 'json' (JSON text
    that is not a state machine: refused when the server validates definitions)."""
    if not isinstance(text, str) or not (1 <= len(text) <= MAX_DEFINITION):
        return "bad", None
    try:
        doc = json.loads(text)
    except ValueError:
        return "bad", None
    try:
        json.loads(text, object_pairs_hook=_no_dups)
    except ValueError:
        return "json", doc          # duplicate member names: parseable, but not a usable definition
    return ("asl" if well_formed_asl(doc) else "json"), doc


def well_formed_asl(doc):
    """The States Language rules needed to tell the pool's definitions apart: a
    top-level object with a non-empty States object, StartAt naming one of them,
    every state with a known Type and a transition (Next naming a state, or End, or a
    terminal / Choice state)."""
    if not isinstance(doc, dict):
        return False
    states = doc.get("States")
    if not isinstance(states, dict) or not states or doc.get("StartAt") not in states:
        return False
    for st in states.values():
        if not isinstance(st, dict) or st.get("Type") not in STATE_TYPES:
            return False
        if st["Type"] in ("Succeed", "Fail", "Choice"):
            continue
        if st.get("End") is True and "Next" not in st:
            continue
        if "End" not in st and st.get("Next") in states:
            continue
        return False
    return True


def classify_logging(cfg):
    """None (absent) is fine.  Otherwise an object; level (default OFF) one of
    ALL|ERROR|FATAL|OFF; for a level other than OFF exactly one destination."""
    if cfg is None:
        return True
    if not isinstance(cfg, dict):
        return False
    level = cfg.get("level", "OFF")
    if not isinstance(level, str) or level not in LOG_LEVELS:
        return False
    if level != "OFF":
        d = cfg.get("destinations")
        if not isinstance(d, list) or len(d) != 1:
            return False
    return True


def norm_logging(cfg):
    cfg = dict(cfg or {})
    cfg.setdefault("level", "OFF")
    return cfg


MISSING_T = {"MissingRequiredParameter", "ValidationException"}


class Plan:
    def __init__(self, ok=None, err=None, effect=None, check=None):
        self.ok = ok            # expected success body (dict / "" / callable(resp) -> reason) or None: must fail
        self.err = err          # set of admissible error types, ANY, or None: must succeed
        self.effect = effect
        self.check = check

    def admits(self, status, resp):
        if 500 <= status:
            return "answered with %s" % status
        if status == 200:
            if self.ok is None:
                return "accepted, but the model refuses with one of %s" % (sorted(self.err) if self.err != ANY else "4xx",)
            if callable(self.ok):
                return self.ok(resp)
            return same_body(resp, self.ok)
        if not (400 <= status < 500):
            return "unexpected status %s" % status
        if self.err is None:
            return "refused (%r) but the model accepts" % (resp,)
        if self.err == ANY:
            return ""
        t = resp.get("__type") if isinstance(resp, dict) else None
        if t not in self.err:
            return "refused with %r, the model allows %s" % (t, sorted(self.err))
        return ""

    def commit(self, resp):
        if self.effect is not None:
            self.effect(resp)


def same_body(got, want, optional=()):
    """Every member the model predicts is present and equal; the answer has no
    member the model does not know (members listed in `optional` may be absent)."""
    if not isinstance(want, dict):
        return "" if got == want else "body %r, expected %r" % (got, want)
    if not isinstance(got, dict):
        return "body %r is not an object" % (got,)
    for k, v in want.items():
        if k not in got:
            if k in optional:
                continue
            return "member %s missing" % k
        if got[k] != v:
            return "member %s is %r, expected %r" % (k, got[k], v)
    for k in got:
        if k not in want:
            return "unexpected member %s" % k
    return ""


class Model:
    def __init__(self, region="local", asl_validation=True, logging_supported=True):
        self.region = region
        self.asl_validation = asl_validation
        self.logging_supported = logging_supported
        self.machines = {}      # stateMachineArn -> record (definition kept as the parsed JSON value)
        self.executions = {}    # executionArn -> DescribeExecution-shaped record (written by the engine, read by the API)

    # ---------------------------------------------------------------- helpers
    def _sm_arg(self, body, err):
        """Classify the stateMachineArn argument; returns the record key or None."""
        arn = body.get("stateMachineArn")
        if arn is None or arn == "":
            err |= MISSING_T | {"InvalidArn"}
        elif not valid_state_machine_arn(arn):
            err.add("InvalidArn")
        elif arn not in self.machines:
            err.add("StateMachineDoesNotExist")
            if debatable_arn(arn, "stateMachine"):
                err.add("InvalidArn")
        else:
            return arn
        return None

    def _ex_arg(self, body, err):
        arn = body.get("executionArn")
        if arn is None or arn == "":
            err |= MISSING_T | {"InvalidArn"}
        elif not valid_execution_arn(arn):
            err.add("InvalidArn")
        elif arn not in self.executions:
            err.add("ExecutionDoesNotExist")
            if debatable_arn(arn, "execution"):
                err.add("InvalidArn")
        else:
            return arn
        return None

    def _definition(self, body, err):
        """-> (maybe_ok, parsed).  maybe_ok False: must be refused."""
        kind, parsed = classify_definition(body.get("definition"))
        if kind == "bad":
            err |= {"InvalidDefinition"} | (MISSING_T if body.get("definition") in (None, "") else {"ValidationException"})
            return False, None
        if kind == "json":
            # refused by a validating server; a non-validating one may store any JSON value
            err |= {"InvalidDefinition", "MissingRequiredParameter"}
            return (not self.asl_validation), parsed
        return True, parsed

    def describe(self, arn):
        r = self.machines[arn]
        d = {k: r[k] for k in ("stateMachineArn", "name", "status", "roleArn", "type", "creationDate", "updateDate")}
        d["definition"] = r["definition"]
        if self.logging_supported:
            d["loggingConfiguration"] = r["loggingConfiguration"]
        return d

    # ---------------------------------------------------------------- the API
    def plan(self, action, body, now):
        if action not in ACTIONS:
            return Plan(err=ANY)
        if body is NOT_JSON or not isinstance(body, dict):
            # the protocol carries a JSON object; anything else cannot be an acceptable request
            if action == "ListStateMachines":
                return Plan(ok=self._list_machines_body(), err=ANY)     # takes no required argument
            return Plan(err=ANY)
        return getattr(self, "_" + action)(body, now)

    def _CreateStateMachine(self, b, now):
        err = set(); must_fail = False
        name = b.get("name"); role = b.get("roleArn"); typ = b.get("type", "STANDARD")
        if not valid_name(name):
            must_fail = True
            err |= {"InvalidName"} | (MISSING_T if name is None else set())
        if not valid_role_arn(role):
            must_fail = True
            err |= {"InvalidArn"} | (MISSING_T if role is None else set())
        if not isinstance(typ, str) or typ not in SM_TYPES:
            must_fail = True
            err |= {"StateMachineTypeNotSupported", "ValidationException"}
        maybe, parsed = self._definition(b, err)
        if not maybe:
            must_fail = True
        log = b.get("loggingConfiguration")
        if self.logging_supported and not classify_logging(log):
            must_fail = True
            err |= {"InvalidLoggingConfiguration", "ValidationException"}
        arn = None
        if valid_name(name) and valid_role_arn(role):
            arn = state_machine_arn(self.region, role, name)
            if arn in self.machines:
                must_fail = True
                err.add("StateMachineAlreadyExists")
        if must_fail:
            return Plan(err=err)

        def effect(resp):
            self.machines[arn] = {"stateMachineArn": arn, "name": name, "status": "ACTIVE", "definition": parsed,
                                  "roleArn": role, "type": typ, "creationDate": now, "updateDate": now,
                                  "loggingConfiguration": (norm_logging(log) if self.logging_supported else None)}
        return Plan(ok={"stateMachineArn": arn, "creationDate": now}, err=(err or None), effect=effect)

    def _UpdateStateMachine(self, b, now):
        err = set()
        arn = self._sm_arg(b, err)
        must_fail = arn is None
        role = b.get("roleArn"); has_role = role is not None and role != ""
        has_def = b.get("definition") is not None and b.get("definition") != ""
        log = b.get("loggingConfiguration"); has_log = log is not None and log != {}
        parsed = None
        if "roleArn" in b and not valid_role_arn(role):
            # an empty roleArn violates the length constraint; treating it as "not supplied" is tolerated below
            if has_role:
                must_fail = True
            err |= {"InvalidArn", "ValidationException"}
        if "definition" in b:
            if has_def:
                maybe, parsed = self._definition(b, err)
                if not maybe:
                    must_fail = True
            else:
                err |= {"InvalidDefinition", "ValidationException"}     # empty text: refused or treated as absent
        if self.logging_supported and "loggingConfiguration" in b and not classify_logging(log):
            must_fail = True
            err |= {"InvalidLoggingConfiguration", "ValidationException"}
        if not has_role and not has_def:
            # "You must include at least one of definition or roleArn or you will receive a MissingRequiredParameter error."
            must_fail = True
            err |= {"MissingRequiredParameter"}
        if must_fail:
            return Plan(err=err)

        def effect(resp):
            r = self.machines[arn]
            if has_role: r["roleArn"] = role
            if has_def: r["definition"] = parsed
            if has_log and self.logging_supported: r["loggingConfiguration"] = norm_logging(log)
            r["updateDate"] = now
        old = self.machines[arn]["updateDate"]

        def ok(resp):
            why = same_body(resp, {"updateDate": now})
            if why: return why
            return "" if now > old else "updateDate did not advance"
        return Plan(ok=ok, err=(err or None), effect=effect)

    def _DeleteStateMachine(self, b, now):
        err = set()
        arn = self._sm_arg(b, err)
        if arn is None:
            return Plan(err=err)

        def effect(resp):
            del self.machines[arn]
        return Plan(ok=lambda resp: "" if resp in ("", {}, None) else "body %r, expected an empty body" % (resp,), effect=effect)

    def _DescribeStateMachine(self, b, now):
        err = set()
        arn = self._sm_arg(b, err)
        if arn is None:
            return Plan(err=err)
        want = self.describe(arn)

        def ok(resp):
            return same_described(resp, want, optional=("updateDate",))
        return Plan(ok=ok)

    def _DescribeStateMachineForExecution(self, b, now):
        err = set()
        ex = self._ex_arg(b, err)
        if ex is None:
            return Plan(err=err)
        sm = self.executions[ex].get("stateMachineArn")
        if sm not in self.machines:
            return Plan(err={"StateMachineDoesNotExist", "InvalidArn"} if not valid_state_machine_arn(sm) else {"StateMachineDoesNotExist"})
        d = self.describe(sm)
        want = {k: d[k] for k in ("stateMachineArn", "name", "definition", "roleArn", "updateDate")}
        if self.logging_supported:
            want["loggingConfiguration"] = d["loggingConfiguration"]

        def ok(resp):
            return same_described(resp, want, optional=("loggingConfiguration",))
        return Plan(ok=ok)

    def _list_machines_body(self):
        want = sorted(([r["stateMachineArn"], r["name"], r["type"], r["creationDate"]] for r in self.machines.values()))

        def ok(resp):
            if not isinstance(resp, dict) or not isinstance(resp.get("stateMachines"), list):
                return "no stateMachines list"
            got = []
            for it in resp["stateMachines"]:
                if sorted(it) != ["creationDate", "name", "stateMachineArn", "type"]:
                    return "list item members %s" % sorted(it)
                got.append([it["stateMachineArn"], it["name"], it["type"], it["creationDate"]])
            if sorted(got) != want:
                return "listed %r, live set %r" % (sorted(got), want)
            return "" if all(k in ("stateMachines", "nextToken") for k in resp) else "unexpected member"
        return ok

    def _ListStateMachines(self, b, now):
        return Plan(ok=self._list_machines_body())

    def _StartExecution(self, b, now):
        err = set()
        arn = self._sm_arg(b, err)
        must_fail = arn is None
        if "name" in b and not valid_name(b["name"]):
            must_fail = True
            err.add("InvalidName")
        inp = b.get("input", "{}")
        parsed = None
        if not isinstance(inp, str) or len(inp) > MAX_INPUT:
            must_fail = True
            err |= {"InvalidExecutionInput", "ValidationException"}
        else:
            try:
                parsed = json.loads(inp)
            except ValueError:
                must_fail = True
                err.add("InvalidExecutionInput")
        if must_fail:
            return Plan(err=err)
        name = b.get("name")
        if name is not None and execution_arn(arn, name) in self.executions:
            # a name may be used for one execution of a state machine only
            return Plan(err={"ExecutionAlreadyExists"})

        def ok(resp):
            if not isinstance(resp, dict) or sorted(resp) != ["executionArn", "startDate"]:
                return "members %r" % (resp,)
            if resp["startDate"] != now:
                return "startDate %r" % (resp["startDate"],)
            ex = resp["executionArn"]
            if name is not None:
                return "" if ex == execution_arn(arn, name) else "executionArn %r" % ex
            prefix = execution_arn(arn, "")
            if not (isinstance(ex, str) and ex.startswith(prefix) and valid_name(ex[len(prefix):]) and valid_execution_arn(ex)):
                return "executionArn %r does not name a fresh execution of %s" % (ex, arn)
            return ""
        plan = Plan(ok=ok)
        plan.start = {"stateMachineArn": arn, "input": parsed, "name": name}
        return plan

    def _DescribeExecution(self, b, now):
        err = set()
        ex = self._ex_arg(b, err)
        if ex is None:
            return Plan(err=err)
        return Plan(ok=dict(self.executions[ex]))

    def _ListExecutions(self, b, now):
        err = set()
        arn = self._sm_arg(b, err)
        if arn is None:
            return Plan(err=err)
        f = b.get("statusFilter")
        mine = [r for r in self.executions.values() if r["stateMachineArn"] == arn]
        sel = mine
        allowed = None
        literal = None
        if f is not None:
            if isinstance(f, str) and f in EXEC_STATUSES:
                sel = [r for r in mine if r["status"] == f]
            else:
                # not a member of the enumeration: refused, or ignored, or applied literally (nothing has that status)
                allowed = {"ValidationException", "InvalidArn"}
                literal = []
        if self.machines[arn]["type"] == "EXPRESS":
            allowed = (allowed or set()) | {"StateMachineTypeNotSupported"}
        keys = ("executionArn", "name", "startDate", "stateMachineArn", "status", "stopDate")
        want = sorted([[r.get(k) for k in keys] for r in sel], key=repr)

        def ok(resp):
            if not isinstance(resp, dict) or not isinstance(resp.get("executions"), list):
                return "no executions list"
            got = []
            for it in resp["executions"]:
                if any(k not in keys for k in it) or any(k not in it for k in keys if k != "stopDate"):
                    return "list item members %s" % sorted(it)
                got.append([it.get(k) for k in keys])
            if sorted(got, key=repr) != want and got != literal:
                return "listed %r, expected %r" % (got, want)
            return "" if all(k in ("executions", "nextToken") for k in resp) else "unexpected member"
        return Plan(ok=ok, err=allowed)


def same_described(resp, want, optional=()):
    """DescribeStateMachine[ForExecution]: definition is JSON text equal (as JSON) to
    what was stored; loggingConfiguration compared with the level defaulted to OFF."""
    if not isinstance(resp, dict):
        return "body %r is not an object" % (resp,)
    got = dict(resp); want = dict(want)
    d = got.get("definition")
    if not isinstance(d, str):
        return "definition is not a string: %r" % (d,)
    try:
        got["definition"] = json.loads(d)
    except ValueError:
        return "definition is not JSON text: %r" % (d,)
    if isinstance(got.get("loggingConfiguration"), dict):
        got["loggingConfiguration"] = norm_logging(got["loggingConfiguration"])
    return same_body(got, want, optional)
