"""Reference semantics for States Language paths and reference paths, written
from the specification / property C12 (not from the implementation).

A *definite* path is represented by its token list: a `str` token names an object
member, an `int` token is an array index (>= 0)."""

MISSING = object()


def get(doc, toks):
    """The value addressed by the definite path `toks`, or MISSING.
    A name addresses a member of an object only, an index an element of an
    array only; anything else matches nothing."""
    cur = doc
    for t in toks:
        if isinstance(t, str):
            if not isinstance(cur, dict) or t not in cur:
                return MISSING
            cur = cur[t]
        else:
            if not isinstance(cur, list) or not (0 <= t < len(cur)):
                return MISSING
            cur = cur[t]
    return cur


def placeable(doc, toks):
    """A reference path can clearly be placed when every name step meets an object
    (an absent member is created as a new object) and every index step meets an
    existing element of an array."""
    cur = doc
    for t in toks:
        if cur is MISSING:                 # below a member that is to be created
            if not isinstance(t, str):
                return False
            continue
        if isinstance(t, str):
            if not isinstance(cur, dict):
                return False
            cur = cur[t] if t in cur else MISSING
        else:
            if not isinstance(cur, list) or not (0 <= t < len(cur)):
                return False
            cur = cur[t]
    return True


def finite_tree(x, limit=10000):
    """True when x is a finite JSON tree: walking it never meets a container that
    is already on the stack of its own ancestors (compared by identity) and the
    walk ends within `limit` nodes.  Shared sub-trees (a DAG) are finite."""
    count = [0]
    stack = []

    def walk(v):
        count[0] += 1
        if count[0] > limit:
            return False
        if isinstance(v, (dict, list)):
            for a in stack:
                if a is v:
                    return False
            stack.append(v)
            try:
                for c in (v.values() if isinstance(v, dict) else v):
                    if not walk(c):
                        return False
            finally:
                stack.pop()
        return True
    return walk(x)


def frame_same(before, after, toks):
    """Every member of `before` that does not lie on the path `toks` is present and
    equal in `after`, and `after` has no other new members than the ones on the
    path.  (`before` must be an independent copy taken before the update, `after`
    must be a finite tree.)"""
    b, a = before, after
    for i, t in enumerate(toks):
        if isinstance(t, str):
            if not isinstance(b, dict) or not isinstance(a, dict):
                return False
            for k in b:
                if k != t and (k not in a or a[k] != b[k]):
                    return False
            for k in a:
                if k != t and k not in b:
                    return False
            if t not in a:
                return False
            if t not in b:
                # new member: below it only the path itself may exist
                return only_path(a[t], toks[i + 1:])
            b, a = b[t], a[t]
        else:
            if not isinstance(b, list) or not isinstance(a, list) or len(a) != len(b) or not (0 <= t < len(b)):
                return False
            for j in range(len(b)):
                if j != t and a[j] != b[j]:
                    return False
            b, a = b[t], a[t]
    return True


def only_path(v, toks):
    """v is the chain of single-member objects spelled by toks (ending anywhere in a value)."""
    for t in toks:
        if not isinstance(t, str) or not isinstance(v, dict) or len(v) != 1 or t not in v:
            return False
        v = v[t]
    return True


def put(doc, toks, value):
    """Functional reference for ResultPath (used by native self-tests): a new
    document equal to doc except that `toks` addresses `value`.  MISSING if not placeable."""
    import copy
    if not placeable(doc, toks):
        return MISSING
    if not toks:
        return copy.deepcopy(value)
    out = copy.deepcopy(doc)
    cur = out
    for i, t in enumerate(toks):
        last = i == len(toks) - 1
        if last:
            cur[t] = copy.deepcopy(value)
        else:
            if isinstance(t, str) and t not in cur:
                cur[t] = {}
            cur = cur[t]
    return out
