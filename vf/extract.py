"""Closure extraction: cut a nested def out of the repository's *current* source.

    make, ns = extract(module, ["StateEngine", "notify", "asl_state_Choice"])
    fn = make(**{free-variable: value, ...})

The nested FunctionDef node is compiled unchanged inside a generated factory whose
parameters are exactly the closure variables the Python compiler reports for it
(co_freevars of the nested code object).  The factory is exec'd in a *copy* of
the module's globals so that stubs can be planted without touching the module.
"""
import ast, types, copy

class ExtractionError(Exception):
    pass


def _find(node, name):
    for n in ast.iter_child_nodes(node):
        if isinstance(n, (ast.FunctionDef, ast.AsyncFunctionDef, ast.ClassDef)) and n.name == name:
            return n
        # descend into compound statements (if/try/with/for) but not into other defs
        if not isinstance(n, (ast.FunctionDef, ast.AsyncFunctionDef, ast.ClassDef, ast.Lambda)):
            r = _find(n, name)
            if r is not None:
                return r
    return None


def locate(tree, path):
    node = tree
    for name in path:
        nxt = _find(node, name)
        if nxt is None:
            raise ExtractionError("cannot find %r under %r" % (name, getattr(node, "name", "<module>")))
        node = nxt
    return node


def _code_for(code, path):
    """Walk nested code objects by name."""
    cur = code
    for name in path:
        found = None
        stack = [cur]
        # direct children first (depth-first through non-def consts is not needed: nested defs are consts)
        for c in cur.co_consts:
            if isinstance(c, types.CodeType) and c.co_name == name:
                found = c; break
        if found is None:
            raise ExtractionError("no code object %r in %r" % (name, cur.co_name))
        cur = found
    return cur


def extract(module, path, extra_globals=None):
    filename = module.__file__
    with open(filename) as f:
        src = f.read()
    tree = ast.parse(src, filename)
    node = locate(tree, path)
    if not isinstance(node, (ast.FunctionDef, ast.AsyncFunctionDef)):
        raise ExtractionError("%r is not a function" % (path,))
    # authoritative free variables from the real compiler
    top = locate(tree, path[:1])
    topmod = ast.Module(body=[top], type_ignores=[])
    code = compile(topmod, filename, "exec")
    nested = _code_for(code, path)
    free = list(nested.co_freevars)
    fac = ast.FunctionDef(
        name="__vf_make__",
        args=ast.arguments(posonlyargs=[], args=[], vararg=None,
                           kwonlyargs=[ast.arg(arg=v) for v in free],
                           kw_defaults=[None] * len(free), kwarg=None, defaults=[]),
        body=[copy.deepcopy(node), ast.Return(value=ast.Name(id=node.name, ctx=ast.Load()))],
        decorator_list=[], type_params=[])
    m = ast.Module(body=[fac], type_ignores=[])
    ast.fix_missing_locations(m)
    ns = dict(module.__dict__)
    if extra_globals:
        ns.update(extra_globals)
    exec(compile(m, filename, "exec"), ns)
    make = ns["__vf_make__"]
    make.free = free
    return make, ns


def source_segment(module, path):
    with open(module.__file__) as f:
        src = f.read()
    node = locate(ast.parse(src), path)
    return ast.get_source_segment(src, node)
