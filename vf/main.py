"""./check <PROPERTY> [--tier quick|thorough] [--replay FILE] [--only COND] [--jobs N]

Runs every verification condition registered for the property (one solver
process per condition), replays each counterexample natively against the real
code, writes /verif/evidence/<ID>.json and exits

    0  no reproduced counterexample outside /verif/known_findings.json
    1  reproduced violation           (prints VIOLATION property=<id> replay=<path>)
    2  machinery inconclusive         (extraction failed, vacuous condition, crash,
                                       counterexample that does not reproduce)
"""
import sys, os, json, time, subprocess, argparse, importlib, hashlib, concurrent.futures as cf

import vf
vf.setup_paths()
from vf.api import conditions_of

PY = sys.executable
KF_PATH = os.path.join(vf.VERIF, "known_findings.json")


def load_known(prop):
    if not os.path.exists(KF_PATH):
        return []
    with open(KF_PATH) as f:
        data = json.load(f)
    return [e for e in data.get("findings", []) if e.get("property") == prop and e.get("status", "known") == "known"]


def run_worker(mode, modname, cond, tier, excludes=(), args=None, timeout=None, extra_env=None):
    cmd = [PY, "-m", "vf.worker", mode, modname, cond]
    for e in excludes:
        cmd += ["--exclude", e]
    if args is not None:
        cmd += ["--args", json.dumps(args)]
    env = dict(os.environ)
    env["VERIF_TIER"] = tier
    env["PYTHONPATH"] = vf.VERIF + os.pathsep + env.get("PYTHONPATH", "")
    env.setdefault("PYTHONHASHSEED", "0")
    if extra_env:
        env.update(extra_env)
    t0 = time.time()
    try:
        p = subprocess.run(cmd, cwd=vf.VERIF, env=env, capture_output=True, text=True, timeout=timeout)
    except subprocess.TimeoutExpired as e:
        return {"status": "timeout", "message": "worker exceeded %ss wall" % timeout, "wall_s": time.time() - t0}
    out = p.stdout
    i = out.rfind("@@RESULT@@ ")
    if i < 0:
        return {"status": "error", "message": "worker produced no result (rc=%s)" % p.returncode,
                "stderr": p.stderr[-3000:], "stdout": out[-1000:], "wall_s": time.time() - t0}
    try:
        r = json.loads(out[i + 11:].strip().splitlines()[0])
    except Exception as e:
        return {"status": "error", "message": "unparsable worker result: %r" % (e,), "stdout": out[-1000:]}
    if p.stderr and r.get("status") == "error":
        r["stderr"] = p.stderr[-2000:]
    return r


def write_replay(prop, modname, cond, tier, args, excludes, info):
    d = os.path.join(vf.EVIDENCE, "replay", prop)
    os.makedirs(d, exist_ok=True)
    h = hashlib.sha1(json.dumps([modname, cond, args], sort_keys=True).encode()).hexdigest()[:10]
    path = os.path.join(d, "%s-%s.json" % (cond, h))
    with open(path, "w") as f:
        json.dump({"property": prop, "module": modname, "condition": cond, "tier": tier, "args": args,
                   "excludes": list(excludes), "info": info}, f, indent=1, default=repr)
    return path


def do_replay_file(path):
    with open(path) as f:
        r = json.load(f)
    res = run_worker("replay", r["module"], r["condition"], r.get("tier", "quick"), r.get("excludes", ()), r["args"], timeout=600)
    print(json.dumps(res, indent=1))
    if res.get("reproduced"):
        print("VIOLATION property=%s replay=%s" % (r["property"], path))
        return 1
    return 0


def check_property(prop, tier, only=None, jobs=None, verbose=True):
    t_start = time.time()
    modname = "vh_" + prop.lower()
    try:
        mod = importlib.import_module(modname)
    except BaseException as e:
        import traceback
        print("HARNESS-ERROR cannot import %s: %r" % (modname, e)); traceback.print_exc()
        return 2
    conds = conditions_of(mod, tier)
    if only:
        conds = [c for c in conds if c.name in only]
    if not conds:
        print("HARNESS-ERROR no conditions for %s in tier %s" % (prop, tier)); return 2
    known = load_known(prop)
    jobs = jobs or int(os.environ.get("VERIF_JOBS", "0")) or min(16, os.cpu_count() or 4)

    work = []   # (key, fn)
    for c in conds:
        ex = [k["region"] for k in known if k.get("condition") == c.name and k.get("region")]
        to = c.timeout.get(tier, 40)
        work.append((("check", c.name), c, ex, to * 5 + 300))
        if c.kind == "crosshair":
            work.append((("twin", c.name), c, ex, 120 * 5 + 300))
    # longest first
    work.sort(key=lambda w: -w[3])
    results = {}
    with cf.ThreadPoolExecutor(max_workers=jobs) as pool:
        futs = {}
        for key, c, ex, to in work:
            futs[pool.submit(run_worker, key[0], modname, c.name, tier, ex, None, to)] = key
        for fu in cf.as_completed(futs):
            key = futs[fu]
            results[key] = fu.result()
            if verbose:
                r = results[key]
                print("  [%s] %-44s %-10s paths=%-5s %.1fs %s" % (key[0], key[1], r.get("status"), r.get("paths", "-"),
                      r.get("wall_s", 0) or 0, (r.get("message") or "")[:110].replace("\n", " ")), flush=True)

    violations = []; errors = []; samples = []
    confirmed = explored = 0; paths = 0; nontrivial = 0; twins_ok = 0
    solver_queries = 0; solver_time = 0.0
    functions = []; outside = []; bounds = {}
    for c in conds:
        r = results[("check", c.name)]
        ex = [k["region"] for k in known if k.get("condition") == c.name and k.get("region")]
        paths += int(r.get("paths") or 0)
        solver_queries += int(r.get("queries") or r.get("paths") or 0)
        solver_time += float(r.get("solver_s") or r.get("cpu_s") or 0)
        for f in c.functions:
            if f not in functions: functions.append(f)
        for o in c.outside:
            if o not in outside: outside.append(o)
        if c.tokens(tier): bounds[c.name] = c.tokens(tier)
        st = r.get("status")
        sample = {"condition": c.name, "kind": c.kind, "status": st, "paths": r.get("paths"),
                  "cpu_s": r.get("cpu_s"), "contract": r.get("contract"), "excluded_known_regions": ex}
        if r.get("detail"): sample["detail"] = r["detail"]
        if st == "confirmed":
            confirmed += 1
            if int(r.get("paths") or 0) >= 2 or c.kind != "crosshair": nontrivial += 1
        elif st == "unknown":
            explored += 1
            if int(r.get("paths") or 0) >= 2: nontrivial += 1
        elif st == "refuted":
            if c.kind == "crosshair":
                if not r.get("args") or r.get("needs_patch"):
                    errors.append("%s: counterexample without replayable arguments: %s" % (c.name, r.get("message")))
                else:
                    rr = run_worker("replay", modname, c.name, tier, ex, r["args"], timeout=600)
                    if rr.get("reproduced"):
                        path = write_replay(prop, modname, c.name, tier, r["args"], ex, {"solver": r.get("message"), "native": rr})
                        violations.append((c.name, path, r.get("message"), rr.get("reason")))
                    else:
                        errors.append("%s: counterexample %s did not reproduce natively (%s)" % (c.name, r.get("args"), rr.get("reason") or rr.get("message")))
            else:
                for cex in r.get("cex", []):
                    rr = run_worker("replay", modname, c.name, tier, ex, cex, timeout=600)
                    if rr.get("reproduced"):
                        path = write_replay(prop, modname, c.name, tier, cex, ex, {"solver": r.get("message"), "native": rr})
                        violations.append((c.name, path, r.get("message"), rr.get("reason")))
                    else:
                        errors.append("%s: solver model %s did not reproduce natively (%s)" % (c.name, cex.get("model") if isinstance(cex, dict) else cex, rr.get("reason") or rr.get("message")))
                if not r.get("cex"):
                    errors.append("%s: refuted without counterexample: %s" % (c.name, r.get("message")))
        else:
            errors.append("%s: %s %s %s" % (c.name, st, r.get("message"), (r.get("traceback") or r.get("stderr") or "")[-1500:]))
        if c.kind == "crosshair":
            t = results[("twin", c.name)]
            if t.get("status") == "refuted":
                twins_ok += 1
            elif st not in ("refuted",):
                errors.append("%s: reachability twin not refuted (%s %s) - condition may be vacuous" % (c.name, t.get("status"), t.get("message")))
        samples.append(sample)

    # known findings: replay witnesses
    known_lines = []
    for k in known:
        w = k.get("witness")
        cname = k.get("condition")
        if w is None or not hasattr(mod, cname):
            continue
        if getattr(mod, cname)._vf.kind != "crosshair" and not k.get("replayable", True):
            continue
        rr = run_worker("replay", modname, cname, tier, (), w, timeout=600, extra_env={"VF_NO_TOLERANCE": "1"})
        if rr.get("reproduced"):
            known_lines.append("KNOWN-FINDING: property=%s %s" % (prop, k.get("what")))
        elif rr.get("status") == "error":
            errors.append("known-finding witness for %s could not be replayed: %s" % (cname, rr.get("message")))

    for l in known_lines:
        print(l)
    wall = time.time() - t_start
    exhaustive = (explored == 0 and not errors and not violations)
    ev = {
        "property_id": prop, "tier": tier, "seed": vf.seed(), "level": "other",
        "coverage": {
            "explanation": ("Bounded symbolic verification of the repository's real code: each condition is a harness over "
                            "real functions executed symbolically (CrossHair+z3 per path, or the symnum z3 engine for numeric kernels); "
                            "'confirmed' means the solver closed every path inside the stated bounds, 'unknown' means explored without "
                            "counterexample but not closed. Counterexamples are replayed natively before being reported."),
            "evaluations": max(paths, 1),
            "distinct_nontrivial": nontrivial,
            "rule": ("evaluations = symbolic paths executed over all conditions; a condition counts as non-trivial when it was decided "
                     "over >= 2 distinct symbolic paths (or is a multi-query symnum kernel); conditions are distinct by construction"),
            "samples": samples,
            "exhaustive": exhaustive,
            "conditions": len(conds), "conditions_confirmed": confirmed, "conditions_explored_not_closed": explored,
            "reachability_witnesses": twins_ok,
            "functions_encoded": functions, "bounds": bounds, "solver_queries": solver_queries,
            "solver_time_s": round(solver_time, 2), "outside_the_claim": outside,
            "known_findings_reproduced": known_lines, "machinery_errors": errors,
        },
        "assumptions": list(getattr(mod, "ASSUMPTIONS", [])),
        "wall_s": round(wall, 2),
        "violations": len(violations),
    }
    os.makedirs(vf.EVIDENCE, exist_ok=True)
    with open(os.path.join(vf.EVIDENCE, prop + ".json"), "w") as f:
        json.dump(ev, f, indent=1, default=repr)
    print("%s tier=%s conditions=%d confirmed=%d explored-not-closed=%d twins=%d paths=%d wall=%.1fs" %
          (prop, tier, len(conds), confirmed, explored, twins_ok, paths, wall))
    for cname, path, msg, why in violations:
        print("  counterexample in %s: %s | native: %s" % (cname, msg, why))
        print("VIOLATION property=%s replay=%s" % (prop, path))
    if violations:
        return 1
    if errors:
        for e in errors:
            print("HARNESS-ERROR " + e)
        return 2
    return 0


def main(argv=None):
    ap = argparse.ArgumentParser()
    ap.add_argument("property")
    ap.add_argument("--tier", default=os.environ.get("VERIF_TIER", "quick"))
    ap.add_argument("--replay", default=None)
    ap.add_argument("--only", action="append")
    ap.add_argument("--jobs", type=int, default=None)
    a = ap.parse_args(argv)
    if a.replay:
        return do_replay_file(a.replay)
    return check_property(a.property.upper(), a.tier, a.only, a.jobs)


if __name__ == "__main__":
    sys.exit(main())
