"""SimBroker + `asl_workflow_engine.sim_messaging`: an in-process AMQP 0.9.1
stand-in selected through the engine's own `queue_implementation` switch, plus
the whole-run (S2) driver with a symbolic schedule.

Modelled contract (trusted base of every S2 condition): FIFO per queue;
competing consumers on shared queues; a delivery stays unacknowledged until
acked; on consumer/connection loss unacked deliveries are requeued at the head
with redelivered=True and the same message_id; mandatory publishes to a missing
queue are returned; timers belong to a connection and run on the virtual clock.
"""
import sys, types, collections

import vf
vf.setup_paths()
from vf import stubs
json = stubs.FastJson


class Prune(Exception):
    """Schedule vector value not meaningful at this step (duplicate of another vector)."""


class BoundTooSmall(Exception):
    """Unwinding assertion: the run needed more scheduling decisions than provided."""


class Crash(BaseException):
    """Simulated death of the engine process (not catchable by `except Exception`)."""


def _ignore_attempt():
    try:
        from crosshair.util import IgnoreAttempt
        from crosshair.tracers import is_tracing
        if is_tracing():
            return IgnoreAttempt("pruned schedule")
    except Exception:
        pass
    return Prune("pruned schedule")


class Broker:
    def __init__(self):
        self.queues = collections.OrderedDict()   # name -> [Message]
        self.consumers = {}                       # qname -> [Consumer]
        self.unacked = collections.OrderedDict()  # tag -> (qname, Message, Consumer)
        self.tag = 0
        self.timers = []                          # [due, id, cb, conn, delay_ms]
        self.tid = 0
        self.oplog = []                           # every broker-facing operation, in order
        self.topic = []                           # (subject, cw_event dict)
        self.ops = 0
        self.crash_at = None
        self.crashed = 0
        self.deliveries = []                      # (qname, message_id, instance, redelivered)

    # -- crash hook ---------------------------------------------------------
    def tick(self):
        self.ops += 1
        if self.crash_at is not None and self.ops == self.crash_at:
            self.crash_at = None
            self.crashed += 1
            raise Crash()

    # -- broker operations --------------------------------------------------
    def declare(self, q):
        self.queues.setdefault(q, [])

    @staticmethod
    def _exid_of(msg):
        """Execution ARN an event message belongs to (None for requests/replies/poison)."""
        try:
            body = msg.body if isinstance(msg.body, str) else msg.body.decode("utf8")
            doc = json.loads(body)
            if isinstance(doc, dict) and isinstance(doc.get("context"), dict):
                return (doc["context"].get("Execution") or {}).get("Id")
        except Exception:
            pass
        return None

    def publish(self, rk, msg, producer=None):
        msg._exid = self._exid_of(msg) if str(rk).startswith("ev") else None
        self.oplog.append(("publish", rk, msg.message_id, msg.correlation_id, msg._exid))
        if rk not in self.queues:
            self.oplog.append(("unroutable", rk))
            self.tick()
            return False
        self.queues[rk].append(msg)
        self.tick()
        return True

    def broadcast(self, subject, body):
        doc = json.loads(body)
        try:
            exid = doc["detail"]["executionArn"]
        except Exception:
            exid = None
        self.oplog.append(("broadcast", subject, exid))
        self.topic.append((subject, doc))
        self.tick()

    def ack(self, tag):
        if tag not in self.unacked:
            self.oplog.append(("double-ack", tag))
            return
        q, msg, c = self.unacked.pop(tag)
        self.oplog.append(("ack", q, msg.message_id, getattr(msg, "_exid", None)))
        self.tick()

    def deliver(self, q, ci=0):
        msg = self.queues[q].pop(0)
        c = self.consumers[q][ci]
        self.tag += 1
        d = msg._clone_for_delivery(self.tag, self)
        self.unacked[self.tag] = (q, msg, c)
        self.oplog.append(("deliver", q, msg.message_id, c.instance))
        exid = None
        try:
            body = msg.body if isinstance(msg.body, str) else msg.body.decode("utf8")
            doc = json.loads(body)
            if isinstance(doc, dict) and isinstance(doc.get("context"), dict):
                exid = (doc["context"].get("Execution") or {}).get("Id")
        except Exception:
            pass
        self.deliveries.append((q, msg.message_id, c.instance, msg.redelivered, exid, msg.correlation_id))
        c._listener(d)

    def drop_connection(self, conn):
        """Connection loss: requeue its unacked deliveries (head of queue, redelivered), drop consumers and timers."""
        back = [(tag, v) for tag, v in self.unacked.items() if v[2].conn is conn]
        for tag, (q, msg, c) in sorted(back, key=lambda x: -x[0]):
            del self.unacked[tag]
            msg.redelivered = True
            self.queues[q].insert(0, msg)
        for q in list(self.consumers):
            self.consumers[q] = [c for c in self.consumers[q] if c.conn is not conn]
        self.timers = [t for t in self.timers if t[3] is not conn]


BROKER = None


def reset():
    global BROKER
    BROKER = Broker()
    stubs.SeqUUID.reset()
    stubs.CLOCK.now = 1_700_000_000.0
    return BROKER


class Message:
    def __init__(self, body="", properties=None, content_type=None, content_encoding=None, redelivered=False,
                 durable=True, mandatory=False, priority=None, correlation_id=None, reply_to=None, expiration=None,
                 message_id=None, timestamp=None, type=None, user_id=None, app_id=None, cluster_id=None, subject=None):
        self.body = body
        self.properties = properties if properties is not None else {}
        self.content_type = content_type
        self.redelivered = redelivered
        self.durable = durable
        self.mandatory = mandatory
        self.priority = priority
        self.correlation_id = correlation_id
        self.reply_to = reply_to
        self.expiration = expiration
        self.message_id = message_id
        self.subject = subject

    @property
    def subject(self):
        return self.properties.get("x-amqp-0-9-1.subject")

    @subject.setter
    def subject(self, s):
        if s:
            self.properties["x-amqp-0-9-1.subject"] = s

    def _clone_for_delivery(self, tag, broker):
        m = Message.__new__(Message)
        m.__dict__.update(self.__dict__)
        m.properties = dict(self.properties)
        b = self.body
        m.body = b if isinstance(b, (bytes, bytearray)) else str(b).encode("utf8")
        m._tag = tag
        m._broker = broker
        return m

    def acknowledge(self, multiple=True, threadsafe=False):
        # AMQP basic.ack: with multiple=True every outstanding delivery of the channel up to and
        # including this tag is acknowledged
        if multiple:
            b = self._broker
            mine = b.unacked.get(self._tag)
            conn = mine[2].conn if mine else None
            for t in [t for t, v in list(b.unacked.items()) if t < self._tag and (conn is None or v[2].conn is conn)]:
                b.oplog.append(("multi-ack", b.unacked[t][0], b.unacked[t][1].message_id))
                del b.unacked[t]
        self._broker.ack(self._tag)

    def __repr__(self):
        return "Message(id=%r, corr=%r)" % (self.message_id, self.correlation_id)


class Producer:
    def __init__(self, session, target):
        self.session = session
        self.target = target
        self.name = target.split(";")[0].strip() if target else ""
        self._ret = None

    def set_return_callback(self, cb):
        self._ret = cb

    def send(self, message, threadsafe=False):
        if self.session.topic_name is not None and self.target == self.session.topic_name:
            BROKER.broadcast(message.subject, message.body)
            return
        rk = message.subject or self.name
        ok = BROKER.publish(rk, message, self)
        if not ok and message.mandatory and self._ret is not None:
            self._ret(message._clone_for_delivery(0, BROKER))


class Consumer:
    def __init__(self, session, source):
        self.session = session
        self.conn = session.conn
        self.instance = session.conn.instance
        self.source = source
        self.name = source.split(";")[0].strip()
        self.exclusive = '"exclusive": true' in source
        self.capacity = 0
        BROKER.declare(self.name)

    def set_message_listener(self, listener):
        self._listener = listener
        lst = BROKER.consumers.setdefault(self.name, [])
        if self.exclusive and lst:
            raise RuntimeError("exclusive consumer already present on " + self.name)
        if lst and lst[0].exclusive:
            raise RuntimeError("queue %s is exclusively consumed" % self.name)
        lst.append(self)


class Session:
    def __init__(self, conn):
        self.conn = conn
        self.topic_name = conn.topic_name

    def producer(self, target=""):
        return Producer(self, target)

    def consumer(self, source=""):
        return Consumer(self, source)

    def is_open(self):
        return True


class Connection:
    instance_of_next = "i1"
    topic_of_next = None

    def __init__(self, url=""):
        self.url = url
        self.instance = Connection.instance_of_next
        self.topic_name = Connection.topic_of_next

    def open(self, timeout=None):
        pass

    def session(self, name=None, transactional=False, auto_ack=False):
        return Session(self)

    def set_timeout(self, cb, delay):
        if delay < 0:
            delay = 0
        BROKER.tid += 1
        BROKER.timers.append([stubs.CLOCK.now + delay / 1000.0, BROKER.tid, cb, self, delay])
        return BROKER.tid

    def clear_timeout(self, tid):
        BROKER.oplog.append(("clear_timeout", tid))
        BROKER.timers = [t for t in BROKER.timers if t[1] != tid]

    def start(self):
        pass

    def close(self):
        pass


_mod = types.ModuleType("asl_workflow_engine.sim_messaging")
_mod.Connection = Connection
_mod.Message = Message
sys.modules["asl_workflow_engine.sim_messaging"] = _mod

# ---------------------------------------------------------------------------
# Engine instances over the simulated broker
# ---------------------------------------------------------------------------
TOPIC = "asl_workflow_notifications"
SM_ARN = stubs.SM_ARN


REDIS_URL = "redis://fake:6379"


def use_redis():
    """Redis-backed stores over vf.fake_redis (the tracker thread is never started: queued invalidation
    messages reach a store only when the harness delivers them)."""
    from vf import fake_redis as fr
    fr.install()
    from asl_workflow_engine import store as st
    stubs.install_env(st)
    st.threading = fr.FakeThreading
    st.RedisStore.__del__ = lambda self: None     # destructor-time clean-up against a server that was reset meanwhile is not a subject
    return fr, st


def new_redis_process():
    """Forget the class-level connection: the next RedisStore opens a new one, as another process would."""
    fr, st = use_redis()
    try:
        del st.RedisStore.connection
    except AttributeError:
        pass


class Durable:
    """State that survives an engine crash: the definition store (file/Redis in production)."""
    def __init__(self, store="simple"):
        from asl_workflow_engine.store import SimpleStore
        self.store = store
        if store == "redis":
            fr, st = use_redis()
            fr.SERVER.reset()
            new_redis_process()
            self.asl_store = st.create_ASL_store(REDIS_URL)
        else:
            self.asl_store = SimpleStore()

    def add_machine(self, asl, sm_type="STANDARD", name="m", arn=None):
        arn = arn or "arn:aws:states:local:0123456789:stateMachine:" + name
        self.asl_store[arn] = {"definition": asl, "type": sm_type, "name": name, "stateMachineArn": arn,
                               "roleArn": "arn:aws:iam::0123456789:role/r", "creationDate": 1.0, "updateDate": 1.0,
                               "status": "ACTIVE"}
        return arn


class Instance:
    """A real StateEngine + TaskDispatcher + EventDispatcher started over the simulated broker."""
    def __init__(self, durable, instance_id="i1", queue_type="classic", ttl=500, retention_ms=5000):
        from asl_workflow_engine import state_engine as se, task_dispatcher as td, event_dispatcher as edm
        stubs.install_env(se, td, edm)
        stubs.install_fast_json(se, td, edm)
        self.se, self.td_mod, self.edm = se, td, edm
        if getattr(durable, "store", "simple") == "redis":
            fr, st = use_redis()
            new_redis_process()       # this engine instance is a process of its own
            se.create_ASL_store, se.create_executions_store, se.create_history_store = st.create_ASL_store, st.create_executions_store, st.create_history_store
            store_url = REDIS_URL
        else:
            from asl_workflow_engine import store as st
            se.create_ASL_store = lambda url: durable.asl_store
            se.create_executions_store, se.create_history_store = st.create_executions_store, st.create_history_store
            store_url = "mem"
        cfg = {"state_engine": {"store_url": store_url, "execution_ttl": ttl},
               "event_queue": {"queue_name": "ev", "queue_type": queue_type, "instance_id": instance_id,
                               "queue_implementation": "sim", "connection_url": "amqp://h:1",
                               "orphaned_response_retention_ms": retention_ms},
               "notifier": {"topic": TOPIC, "message_ttl": 0}}
        self.cfg = cfg
        self.id = instance_id
        Connection.instance_of_next = instance_id
        Connection.topic_of_next = TOPIC
        self.eng = se.StateEngine(cfg)
        self.ed = edm.EventDispatcher(self.eng, cfg)
        self.ed.start()
        self.td = self.eng.task_dispatcher
        # the connection object created by start() is reachable through set_timeout's bound self
        self.conn = self.ed.set_timeout.__self__

    def is_heartbeat(self, t):
        cb = t[2]
        return getattr(cb, "__func__", None) is self.edm.EventDispatcher.heartbeat

    def kill(self):
        BROKER.drop_connection(self.conn)


def start_event(data, arn=None, name=None, extra_context=None):
    ctx = {"StateMachine": {"Id": arn or SM_ARN}}
    if name is not None:
        ctx["Execution"] = {"Name": name}
    if extra_context:
        ctx.update(extra_context)
    return {"data": data, "context": ctx}


class Run:
    """Whole-run driver.  `picks` is the schedule vector (symbolic ints under CrossHair);
    `workers` maps a function-queue name to a policy callable(request_body) -> reply body
    (dict) or None (never replies)."""
    def __init__(self, picks, workers=None, max_steps=80, eager_timer=None, on_step=None, fast=False):
        self.fast = fast            # run every engine action outside CrossHair's tracer (only the schedule is symbolic)
        self.picks = list(picks)
        self.pi = 0
        self.workers = workers or {}
        self.max_steps = max_steps
        self.steps = 0
        self.trace = []
        self.requests = []          # (queue, correlation_id) seen by workers
        self.eager_timer = eager_timer   # predicate(timer) -> may fire while deliveries are enabled
        self.on_step = on_step
        self.instances = []
        for q in self.workers:
            BROKER.declare(q)

    # -- choice ---------------------------------------------------------------
    def choose(self, n):
        """Consume one schedule entry.  Values 0..n-2 select that action, every other
        value selects the last one: each enabled action is exactly one solver path, no
        vector is pruned and no two paths denote the same schedule."""
        if n <= 1:
            return 0
        if self.pi >= len(self.picks):
            raise BoundTooSmall("needs more than %d scheduling decisions" % len(self.picks))
        c = self.picks[self.pi]
        self.pi += 1
        for j in range(n - 1):
            if c == j:
                return j
        return n - 1

    def unused_must_be_zero(self):
        pass

    # -- enabled actions ------------------------------------------------------
    def _is_hb(self, t):
        return any(i.is_heartbeat(t) for i in self.instances)

    def enabled(self):
        b = BROKER
        acts = []
        for q, msgs in b.queues.items():
            if msgs and b.consumers.get(q):
                for ci in range(len(b.consumers[q])):
                    acts.append(("deliver", q, ci))
        for q in self.workers:
            if b.queues.get(q):
                acts.append(("reply", q))
        zero = [t for t in b.timers if t[4] == 0 and not self._is_hb(t)]
        if zero:
            acts.append(("timer", min(zero, key=lambda t: t[1])[1]))
        if self.eager_timer is not None:
            for t in sorted(b.timers, key=lambda t: (t[0], t[1])):
                if t[4] != 0 and not self._is_hb(t) and self.eager_timer(t):
                    acts.append(("timer", t[1])); break
        return acts

    def next_timer(self, horizon=None):
        ts = [t for t in BROKER.timers if not self._is_hb(t)]
        if not ts:
            return None
        t = min(ts, key=lambda t: (t[0], t[1]))
        if horizon is not None and t[0] - stubs.CLOCK.now > horizon:
            return None
        return t

    # -- stepping -------------------------------------------------------------
    def fire(self, tid):
        if self.fast:
            from vf.s2 import untraced
            with untraced():
                return self._fire(tid)
        return self._fire(tid)

    def _fire(self, tid):
        ts = [t for t in BROKER.timers if t[1] == tid]
        if not ts:
            return
        t = ts[0]
        BROKER.timers.remove(t)
        stubs.CLOCK.advance_to(t[0])
        if not self.trace or self.trace[-1] != ("timer", tid):
            self.trace.append(("timer", tid))
        t[2]()

    def do(self, act):
        if self.fast:
            from vf.s2 import untraced
            with untraced():
                return self._do(act)
        return self._do(act)

    def _do(self, act):
        b = BROKER
        self.trace.append(act)
        if act[0] == "deliver":
            b.deliver(act[1], act[2])
        elif act[0] == "reply":
            q = act[1]
            req = b.queues[q].pop(0)
            self.requests.append((q, req.correlation_id))
            body = req.body if isinstance(req.body, str) else req.body.decode("utf8")
            rep = self.workers[q](json.loads(body))
            if rep is not None:
                m = Message(json.dumps(rep), correlation_id=req.correlation_id, subject=req.reply_to)
                m.message_id = "reply-%d" % len(self.requests)
                b.publish(req.reply_to, m)
        elif act[0] == "timer":
            self._fire(act[1])

    def step(self, timer_horizon=None):
        """One scheduling step. Returns False at quiescence."""
        acts = self.enabled()
        if not acts:
            t = self.next_timer(timer_horizon)
            if t is None:
                return False
            self.fire(t[1])
        else:
            k = self.choose(len(acts))
            self.do(acts[k])
        self.steps += 1
        if self.on_step:
            self.on_step(self)
        return True

    def run(self, timer_horizon=None, until=None):
        while self.steps < self.max_steps:
            if until is not None and until(self):
                break
            if not self.step(timer_horizon):
                break
        else:
            raise BoundTooSmall("run exceeded %d steps" % self.max_steps)
        return self


def notifications(arn=None):
    out = []
    for subj, m in BROKER.topic:
        d = m["detail"]
        if arn is None or d["executionArn"] == arn:
            out.append(d)
    return out


def terminals(arn=None):
    return [d for d in notifications(arn) if d["status"] != "RUNNING"]


def drained(inst):
    """The drain clause of C03 for one instance."""
    return (not inst.ed.unacknowledged_messages and not inst.eng.branch_metadata and not inst.td.pending_requests
            and not inst.td.cancellers and not inst.td.orphaned_responses
            and not [v for v in BROKER.unacked.values() if v[2].conn is inst.conn])
