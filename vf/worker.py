"""One verification condition per process.

    python -m vf.worker check  <module> <cond> [--exclude EXPR ...]
    python -m vf.worker twin   <module> <cond> [--exclude EXPR ...]
    python -m vf.worker replay <module> <cond> --args JSON

Prints exactly one JSON object on the last line of stdout.
"""
import sys, os, json, time, inspect, importlib, importlib.util, tempfile, traceback, argparse, collections

import vf
vf.setup_paths()


def _emit(obj):
    sys.stdout.write("\n@@RESULT@@ " + json.dumps(obj, default=repr) + "\n")
    sys.stdout.flush()


def _gen_wrapper(modname, cond, tier, excludes, twin):
    pre, post, raises = cond.contract(tier)
    for e in excludes:
        pre.append("not (%s)" % e)
    if twin:
        post = ["False"]
    fn = cond.fn
    sig = inspect.signature(fn)
    names = list(sig.parameters)
    lines = ["from typing import *", "import %s as _m" % modname, "from %s import *" % modname, ""]
    lines.append("def %s%s:" % (cond.name, str(sig)))
    lines.append('    """')
    for p in pre:
        lines.append("    pre: " + p)
    for p in post:
        lines.append("    post: " + p)
    if raises:
        lines.append("    raises: " + ", ".join(raises))
    lines.append('    """')
    lines.append("    return _m.%s(%s)" % (cond.name, ", ".join(names)))
    src = "\n".join(lines) + "\n"
    d = tempfile.mkdtemp(prefix="vfgen_")
    path = os.path.join(d, "vfgen_%s_%s.py" % (modname, cond.name))
    with open(path, "w") as f:
        f.write(src)
    spec = importlib.util.spec_from_file_location("vfgen_%s_%s" % (modname, cond.name), path)
    mod = importlib.util.module_from_spec(spec)
    sys.modules[spec.name] = mod
    spec.loader.exec_module(mod)
    return getattr(mod, cond.name), path, d, src


_CAPTURED = []


def _install_capture():
    import crosshair.core as core
    from crosshair.tracers import NoTracing
    orig = core.make_counterexample_message

    def patched(conditions, args, return_val=None):
        try:
            reprer = core.context_statespace().extra(core.LazyCreationRepr)
            with NoTracing():
                real = reprer.deep_realize(args)
                _CAPTURED.append({k: repr(v) for k, v in real.arguments.items()})
        except BaseException as e:  # capture is best effort; never disturb the analysis
            if type(e).__name__ in ("IgnoreAttempt", "UnexploredPath", "NotDeterministic", "CrossHairInternal"):
                raise
        return orig(conditions, args, return_val)
    core.make_counterexample_message = patched


def run_crosshair(modname, cond, tier, excludes, twin):
    from crosshair.core_and_libs import analyze_function, run_checkables
    from crosshair.options import AnalysisOptionSet, AnalysisKind, DEFAULT_OPTIONS
    from crosshair.statespace import MessageType
    _install_capture()
    fn, path, d, src = _gen_wrapper(modname, cond, tier, excludes, twin)
    timeout = cond.timeout.get(tier, 40)
    if twin:
        timeout = min(timeout, 120)
    stats = collections.Counter()
    # CrossHair's default per-path budget is sqrt(per_condition_timeout) CPU seconds (7.7 s for a 60 s twin): a long
    # whole-run scenario can exceed that on a loaded machine, every path is then abandoned and a reachable twin is
    # reported as "Unable to meet precondition".  Give single paths a generous, explicit budget instead.
    per_path = float(timeout) if twin else max(60.0, float(timeout) ** 0.5)
    opts = AnalysisOptionSet(analysis_kind=[AnalysisKind.PEP316], per_condition_timeout=float(timeout), per_path_timeout=per_path,
                             report_all=True, max_uninteresting_iterations=sys.maxsize)
    t0 = time.time(); c0 = time.process_time()
    checkables = list(analyze_function(fn, opts))
    # attach stats counter
    for c in checkables:
        o = getattr(c, "options", None)
        if o is not None:
            o.stats = stats
    msgs = run_checkables(checkables)
    wall = time.time() - t0; cpu = time.process_time() - c0
    res = {"paths": int(stats.get("num_paths", 0)), "wall_s": round(wall, 3), "cpu_s": round(cpu, 3),
           "timeout_s": timeout, "contract": src.split('"""')[1].strip().splitlines() if '"""' in src else []}
    res["contract"] = [l.strip() for l in res["contract"]]
    if not msgs:
        res.update(status="error", message="no conditions found")
        return res
    # worst message wins
    order = {MessageType.CONFIRMED: 0, MessageType.CANNOT_CONFIRM: 1}
    worst = None
    for m in msgs:
        if worst is None or order.get(m.state, 9) > order.get(worst.state, 9):
            worst = m
    st = worst.state
    res["message"] = worst.message
    if st == MessageType.CONFIRMED:
        res["status"] = "confirmed"
    elif st == MessageType.CANNOT_CONFIRM:
        res["status"] = "unknown"
    elif st == MessageType.PRE_UNSAT:
        res["status"] = "pre_unsat"
    elif st in (MessageType.POST_FAIL, MessageType.EXEC_ERR, MessageType.POST_ERR):
        res["status"] = "refuted"
        res["cex_kind"] = st.name
        res["args"] = _CAPTURED[-1] if _CAPTURED else None
        res["needs_patch"] = " with crosshair.patch_to_return" in worst.message or " with " in worst.message.split(")")[-1]
        if worst.traceback:
            res["traceback"] = worst.traceback[-1500:]
    else:
        res["status"] = "error"
        res["cex_kind"] = st.name
        if worst.traceback:
            res["traceback"] = worst.traceback[-3000:]
    try:
        import shutil; shutil.rmtree(d, ignore_errors=True)
    except Exception:
        pass
    return res


def eval_args(mod, args):
    g = dict(vars(mod))
    return {k: eval(v, g) for k, v in args.items()}


def replay_crosshair(mod, cond, tier, args, excludes=()):
    """Native re-execution of a counterexample: preconditions must hold and the
    postcondition must fail (or a non-declared exception must escape)."""
    pre, post, raises = cond.contract(tier)
    g = dict(vars(mod))
    vals = eval_args(mod, args)
    env = dict(g); env.update(vals)
    out = {"args": args}
    for p in list(pre) + ["not (%s)" % e for e in excludes]:
        try:
            ok = bool(eval(p, env))
        except Exception as e:
            out.update(reproduced=False, reason="precondition raised %r" % (e,)); return out
        if not ok:
            out.update(reproduced=False, reason="precondition false: " + p); return out
    allowed = tuple(eval(r, g) for r in raises) if raises else ()
    try:
        ret = cond.fn(**vals)
    except BaseException as e:
        if allowed and isinstance(e, allowed):
            out.update(reproduced=False, reason="declared exception %r" % (e,)); return out
        if isinstance(e, (NameError, ImportError, SyntaxError)):
            # a broken harness (misspelt helper, missing import), not behaviour of the repository: exit 2, never a violation
            out.update(reproduced=False, reason="harness error %s: %s" % (type(e).__name__, e)); return out
        if type(e).__name__ == "BoundTooSmall":
            # unwinding assertion of the whole-run driver: the bound of the harness is too small for this run -
            # machinery trouble (exit 2), never a violation of the property
            out.update(reproduced=False, reason="harness bound too small (unwinding assertion): %s" % (e,)); return out
        out.update(reproduced=True, reason="exception %s: %s" % (type(e).__name__, e),
                   traceback=traceback.format_exc()[-2000:]); return out
    env["_"] = ret; env["__return__"] = ret
    out["returned"] = repr(ret)[:500]
    for p in post:
        try:
            ok = bool(eval(p, env))
        except Exception as e:
            out.update(reproduced=True, reason="postcondition raised %r" % (e,)); return out
        if not ok:
            out.update(reproduced=True, reason="postcondition false: " + p); return out
    out.update(reproduced=False, reason="postcondition holds natively")
    return out


def main(argv=None):
    ap = argparse.ArgumentParser()
    ap.add_argument("mode", choices=["check", "twin", "replay"])
    ap.add_argument("module"); ap.add_argument("cond")
    ap.add_argument("--exclude", action="append", default=[])
    ap.add_argument("--args", default=None)
    a = ap.parse_args(argv)
    tier = vf.tier()
    try:
        mod = importlib.import_module(a.module)
        cond = getattr(mod, a.cond)._vf
    except BaseException as e:
        _emit({"status": "error", "message": "cannot load harness: %r" % (e,), "traceback": traceback.format_exc()[-3000:]})
        return 2
    try:
        if a.mode == "replay":
            args = json.loads(a.args)
            if cond.kind == "crosshair":
                r = replay_crosshair(mod, cond, tier, args, a.exclude)
            else:
                r = cond.fn(replay=args)
            _emit(r); return 0
        if cond.kind == "crosshair":
            r = run_crosshair(a.module, cond, tier, a.exclude, a.mode == "twin")
        else:
            t0 = time.time()
            if a.mode == "twin":
                r = {"status": "refuted", "message": "twin n/a for kind " + cond.kind, "paths": 0}
            else:
                r = cond.fn(excludes=a.exclude) if "excludes" in inspect.signature(cond.fn).parameters else cond.fn()
            r.setdefault("wall_s", round(time.time() - t0, 3))
        _emit(r); return 0
    except BaseException as e:
        _emit({"status": "error", "message": "%s: %s" % (type(e).__name__, e), "traceback": traceback.format_exc()[-4000:]})
        return 2


if __name__ == "__main__":
    sys.exit(main())
