"""Environment stubs shared by the harnesses (harness-side only; the repository
is never modified).  Each stub models only a documented contract and every
harness lists the stubs it uses in its ASSUMPTIONS."""
import datetime as _dt
import types

import vf
vf.setup_paths()


class VClock:
    """Virtual wall clock.  time.time()/datetime.now() return the current virtual
    instant, which only the harness advances (never decreases)."""
    def __init__(self, now=1_700_000_000.0):
        self.now = now

    def advance_to(self, t):
        if t > self.now:
            self.now = t


CLOCK = VClock()


class _FakeTime:
    @staticmethod
    def time():
        return CLOCK.now

    @staticmethod
    def sleep(s):
        pass


class _FakeDatetime:
    """Stand-in for the `datetime` class in module namespaces.  Deliberately not a
    subclass of datetime.datetime (CrossHair swaps datetime classes under tracing)."""
    @staticmethod
    def now(tz=None):
        return _dt.datetime.fromtimestamp(CLOCK.now, tz if tz is not None else _dt.timezone.utc)

    @staticmethod
    def strptime(a, b):
        return _dt.datetime.strptime(a, b)

    @staticmethod
    def fromtimestamp(a, tz=None):
        return _dt.datetime.fromtimestamp(a, tz)


class SeqUUID:
    """uuid stand-in: fresh, pairwise distinct, deterministic ids."""
    n = 0

    @classmethod
    def reset(cls):
        cls.n = 0

    @classmethod
    def uuid4(cls):
        cls.n += 1
        return "u%06d" % cls.n


class _SilentLogger:
    def _noop(self, *a, **k):
        pass
    debug = info = warning = warn = error = exception = critical = log = _noop

    def isEnabledFor(self, *a):
        return False


SILENT = _SilentLogger()


class FastJson:
    """json stand-in for whole-run harnesses: identical results, but the codec runs
    natively outside CrossHair's tracer (its pure-Python JSON model costs ~0.5 s per
    engine step).  Arguments are realised first, exactly what CrossHair does for any
    C-level sink, so soundness is unaffected."""
    import json as _json
    __name__ = "json"
    JSONDecodeError = _json.JSONDecodeError

    @staticmethod
    def _ctx():
        try:
            from crosshair.tracers import NoTracing, is_tracing
            if is_tracing():
                return NoTracing(), True
        except Exception:
            pass
        return None, False

    @classmethod
    def dumps(cls, obj, *a, **k):
        ctx, tracing = cls._ctx()
        if not tracing:
            return cls._json.dumps(obj, *a, **k)
        from crosshair.core import deep_realize
        obj = deep_realize(obj)
        with ctx:
            return cls._json.dumps(obj, *a, **k)

    @classmethod
    def loads(cls, s, *a, **k):
        ctx, tracing = cls._ctx()
        if not tracing:
            return cls._json.loads(s, *a, **k)
        from crosshair.core import deep_realize
        s = deep_realize(s)
        with ctx:
            return cls._json.loads(s, *a, **k)


def install_fast_json(*modules):
    for m in modules:
        if hasattr(m, "json"):
            m.json = FastJson


def install_env(*modules):
    """Plant clock / uuid / logger stubs in the given imported repository modules."""
    for m in modules:
        if isinstance(getattr(m, "time", None), types.ModuleType):
            m.time = _FakeTime
        if hasattr(m, "datetime") and getattr(m, "datetime") is _dt.datetime:
            m.datetime = _FakeDatetime
        if hasattr(m, "uuid"):
            m.uuid = SeqUUID
        if hasattr(m, "init_logging"):
            m.init_logging = lambda *a, **k: SILENT


def pick(pool, i):
    """Concrete pool member chosen by a symbolic selector: an explicit fork per
    member, so the chosen value is concrete on each path (indexing a list with a
    symbolic int would give a symbolic value instead)."""
    for k in range(len(pool)):
        if i == k:
            return pool[k]
    return pool[0]


def cbool(b):
    """Concrete bool from a symbolic one: one explicit fork, after which the harness (and code running outside the
    tracer) only ever sees True/False."""
    return True if b else False


def cint(i, lo, hi):
    """Concrete int in lo..hi from a symbolic one (explicit fork per value; values outside select lo)."""
    for k in range(lo, hi + 1):
        if i == k:
            return k
    return lo


class QuietDoc(dict):
    """A JSON object whose text rendering is constant.  Error messages in the
    repository format the whole input document (PathMatchFailure, handle_error);
    rendering a document with symbolic leaves would realise them and make the path
    tree infinite, and message text is not the subject of any property."""
    def __format__(self, spec):
        return "<doc>"

    def __str__(self):
        return "<doc>"

    __repr__ = __str__

    def __ch_deep_realize__(self, memo):
        # CrossHair deep-realises every argument of str.format(); returning self keeps
        # the symbolic leaves symbolic (the rendering above does not look at them).
        return self

    def __deepcopy__(self, memo):
        import copy
        return QuietDoc({k: copy.deepcopy(v, memo) for k, v in self.items()})


class RecDispatcher:
    """Recording stand-in for EventDispatcher used by the one-step (S1) harnesses:
    every broker-facing operation is appended to `log`."""
    def __init__(self, log=None, fire_timeouts=True):
        self.log = log if log is not None else []
        self.unacknowledged_messages = {}
        self.timers = {}
        self.tid = 0
        self.fire_timeouts = fire_timeouts

    def publish(self, item, threadsafe=False, use_shared_queue=False):
        import copy
        self.log.append(("publish", copy.deepcopy(item), use_shared_queue))

    def broadcast(self, subject, item, carrier_properties=None):
        import copy
        self.log.append(("broadcast", subject, copy.deepcopy(item)))

    def acknowledge(self, id):
        self.log.append(("ack", id))
        self.unacknowledged_messages.pop(id, None)

    def set_timeout(self, cb, delay):
        self.tid += 1
        self.log.append(("set_timeout", self.tid, delay))
        if self.fire_timeouts and delay == 0:
            cb()
        else:
            self.timers[self.tid] = (cb, delay)
        return self.tid

    def clear_timeout(self, tid):
        self.log.append(("clear_timeout", tid))
        self.timers.pop(tid, None)


class RecTaskDispatcher:
    """Recording stand-in for TaskDispatcher (S1 harnesses of state handlers)."""
    def __init__(self, log):
        self.log = log
        self.cancellers = {}
        self.pending_requests = {}
        self.reply_to = types.SimpleNamespace(name="asl_workflow_reply_to-i1")
        self.calls = []

    def execute_task(self, resource_arn, parameters, callback, timeout, is_task_timeout, context, event_id, redelivered):
        self.log.append(("execute_task", resource_arn, parameters, timeout, is_task_timeout, event_id, redelivered))
        self.calls.append((resource_arn, parameters, callback, timeout, is_task_timeout, event_id, redelivered))

    def handle_sfn_response(self, correlation_id, input, output, execution_detail):
        self.log.append(("sfn_response", correlation_id))

    def set_timeout_canceller(self, event_id, task_id, callback, execution_arn):
        self.cancellers[event_id] = {"Type": "Timeout", "TaskID": task_id, "Execution": execution_arn, "Callback": callback}

    def remove_canceller(self, event_id):
        self.cancellers.pop(event_id, None)

    def cancel_task(self, event_id):
        self.log.append(("cancel_task", event_id))
        self.cancellers.pop(event_id, None)

    def schedule_orphaned_response_handler(self):
        pass


SM_ARN = "arn:aws:states:local:0123456789:stateMachine:m"
EX_ARN = "arn:aws:states:local:0123456789:execution:m:e1"
T0_ISO = "2023-11-14T22:13:20+00:00"   # == 1_700_000_000.0


def make_engine(asl, sm_type="STANDARD", real_task_dispatcher=False, ttl=86400, fire_timeouts=True):
    """A real StateEngine whose collaborators are recording stubs (S1 harnesses)."""
    from asl_workflow_engine import state_engine as se
    from asl_workflow_engine.store import SimpleStore
    install_env(se)
    eng = se.StateEngine.__new__(se.StateEngine)
    eng.logger = SILENT
    eng.asl_store = SimpleStore()
    eng.executions = SimpleStore()
    eng.execution_history = SimpleStore()
    eng.execution_ttl = ttl
    eng.branch_metadata = {}
    eng.execution_metrics = {}
    log = []
    eng.event_dispatcher = RecDispatcher(log, fire_timeouts)
    eng.task_dispatcher = RecTaskDispatcher(log)
    eng.asl_store[SM_ARN] = {"definition": asl, "type": sm_type, "name": "m", "stateMachineArn": SM_ARN,
                             "roleArn": "arn:aws:iam::0123456789:role/r", "creationDate": 1.0, "updateDate": 1.0,
                             "status": "ACTIVE"}
    return eng, log


def running_event(state_name, data, sm_type="STANDARD", eng=None, branch=None, entered=T0_ISO, start=T0_ISO, extra_state=None):
    """An event for an execution already in progress, in state `state_name`."""
    st = {"Name": state_name, "EnteredTime": entered}
    if branch is not None:
        st["Branch"] = branch
    if extra_state:
        st.update(extra_state)
    ctx = {"Execution": {"Id": EX_ARN, "Name": "e1", "Input": {}, "RoleArn": "r", "StartTime": start},
           "State": st, "StateMachine": {"Id": SM_ARN}, "Tracer": {}}
    if eng is not None and sm_type == "STANDARD":
        eng.executions[EX_ARN] = {"executionArn": EX_ARN, "input": "{}", "name": "e1", "output": None,
                                  "startDate": CLOCK.now, "stateMachineArn": SM_ARN, "status": "RUNNING", "stopDate": None}
        eng.execution_history[EX_ARN] = [{"timestamp": CLOCK.now, "type": "ExecutionStarted", "id": 1, "previousEventId": 0,
                                          "executionStartedEventDetails": {"input": "{}", "roleArn": "r"}}]
    return {"data": data, "context": ctx}


def run_fifo(eng, log, event, task=None, max_steps=40):
    """Canonical schedule for a one-engine run over the recording dispatchers: events are
    handled in publication order, a Task's reply is delivered as soon as it was requested,
    timers fire immediately in arming order.  `task(resource, params)` -> reply dict.
    Returns the list of (subject, cw_event) broadcasts."""
    import json as _json
    ed, tdp = eng.event_dispatcher, eng.task_dispatcher
    consumed = 0
    calls_done = 0
    n = 0
    eng.notify(event, "ev0")
    steps = 0
    while steps < max_steps:
        steps += 1
        progressed = False
        # timers (non-zero delays are fired right away: virtual time)
        while ed.timers:
            tid = sorted(ed.timers)[0]
            cb, delay = ed.timers.pop(tid)
            CLOCK.advance_to(CLOCK.now + max(delay, 0) / 1000.0)
            cb()
            progressed = True
        while calls_done < len(tdp.calls):
            resource, params, cb, timeout, is_task, ev_id, red = tdp.calls[calls_done]
            calls_done += 1
            cb(task(resource, params) if task else {"ok": 1})
            progressed = True
        pubs = [l for l in log if l[0] == "publish"]
        if consumed < len(pubs):
            ev = FastJson.loads(FastJson.dumps(pubs[consumed][1]))
            consumed += 1
            n += 1
            eng.notify(ev, "ev%d" % n)
            progressed = True
        if not progressed:
            break
    return [(l[1], l[2]) for l in log if l[0] == "broadcast"]


def same(a, b):
    """Structural JSON equality, key by key (CrossHair's dict proxies can compare
    insertion-order-sensitively; bool is not int)."""
    if isinstance(a, bool) or isinstance(b, bool):
        return isinstance(a, bool) and isinstance(b, bool) and a == b
    if isinstance(a, dict):
        if not isinstance(b, dict) or len(a) != len(b):
            return False
        for k in a:
            if k not in b or not same(a[k], b[k]):
                return False
        return True
    if isinstance(a, (list, tuple)):
        if not isinstance(b, (list, tuple)) or len(a) != len(b):
            return False
        for x, y in zip(a, b):
            if not same(x, y):
                return False
        return True
    return type(a) == type(b) and a == b or (isinstance(a, (int, float)) and isinstance(b, (int, float)) and a == b)
