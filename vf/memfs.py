"""MemFS - an in-memory replacement for the builtin `open` in a module namespace
(`store.open = fs.open`), so file persistence / reopen can be explored without I/O.

Contract modelled (text mode only): opening a missing file for reading raises
FileNotFoundError (an IOError); opening for writing truncates the file at once and
every write() appends to it immediately, so an interrupted write leaves a prefix of
the text behind; read() returns the whole content."""


class _Reader:
    def __init__(self, text):
        self._text = text
        self.closed = False

    def read(self, n=-1):
        t = self._text
        self._text = ""
        return t

    def close(self):
        self.closed = True

    def __enter__(self):
        return self

    def __exit__(self, *exc):
        self.close()
        return False


class _Writer:
    def __init__(self, fs, name):
        self._fs = fs
        self._name = name
        self.closed = False

    def write(self, s):
        self._fs.files[self._name] = self._fs.files[self._name] + s
        self._fs.writes += 1
        return len(s)

    def flush(self):
        pass

    def close(self):
        self.closed = True

    def __enter__(self):
        return self

    def __exit__(self, *exc):
        self.close()
        return False


class MemFS:
    def __init__(self):
        self.reset()

    def reset(self):
        self.files = {}
        self.writes = 0
        self.opens = []

    def open(self, name, mode="r", *args, **kwargs):
        self.opens.append((name, mode))
        if "b" in mode:
            raise ValueError("MemFS models text files only")
        if "w" in mode:
            self.files[name] = ""
            return _Writer(self, name)
        if "a" in mode:
            self.files.setdefault(name, "")
            return _Writer(self, name)
        if name not in self.files:
            raise FileNotFoundError(2, "No such file or directory", name)
        return _Reader(self.files[name])
