"""MemFS - an in-memory replacement for the builtin `open` in a module namespace
(`store.open = fs.open`), so file persistence / reopen can be explored without I/O.

Contract modelled (text mode only): opening a missing file for reading raises
FileNotFoundError (an IOError); opening for writing truncates the file at once and
every write() appends to it immediately, so an interrupted write leaves a prefix of
the text behind; read() returns the whole content.

Crash points: `fs.crash_after = n` lets n more characters reach files and then raises Crash from write() (the prefix
written so far stays behind, as after a kill); `fs.crash_at_replace = True` raises Crash from replace() before the
rename is done.  `fs.replace(src, dst)` models os.replace: the rename itself is atomic.  `fs.os_shim(os)` is an `os`
look-alike whose replace/remove act on the in-memory files (planted as `store.os`)."""


class Crash(Exception):
    """The process died at a crash point of the in-memory file system."""


class _Reader:
    def __init__(self, text):
        self._text = text
        self.closed = False

    def read(self, n=-1):
        t = self._text
        self._text = ""
        return t

    def close(self):
        self.closed = True

    def __enter__(self):
        return self

    def __exit__(self, *exc):
        self.close()
        return False


class _Writer:
    def __init__(self, fs, name):
        self._fs = fs
        self._name = name
        self.closed = False

    def write(self, s):
        b = self._fs.crash_after
        if b is not None:
            if len(s) > b or (b == 0 and len(s) > 0):
                self._fs.files[self._name] = self._fs.files[self._name] + s[:b]
                self._fs.crash_after = 0
                raise Crash()
            self._fs.crash_after = b - len(s)
        self._fs.files[self._name] = self._fs.files[self._name] + s
        self._fs.writes += 1
        return len(s)

    def flush(self):
        pass

    def close(self):
        self.closed = True

    def __enter__(self):
        return self

    def __exit__(self, *exc):
        self.close()
        return False


class MemFS:
    def __init__(self):
        self.reset()

    def reset(self):
        self.files = {}
        self.writes = 0
        self.opens = []
        self.crash_after = None
        self.crash_at_replace = False

    def replace(self, src, dst):
        if self.crash_at_replace:
            self.crash_at_replace = False
            raise Crash()
        if src not in self.files:
            raise FileNotFoundError(2, "No such file or directory", src)
        self.files[dst] = self.files.pop(src)

    def remove(self, name):
        if name not in self.files:
            raise FileNotFoundError(2, "No such file or directory", name)
        del self.files[name]

    def os_shim(self, real_os):
        fs = self

        class _Os:
            replace = staticmethod(fs.replace)
            rename = staticmethod(fs.replace)
            remove = staticmethod(fs.remove)
            unlink = staticmethod(fs.remove)

            def __getattr__(self, name):
                return getattr(real_os, name)
        return _Os()

    def open(self, name, mode="r", *args, **kwargs):
        self.opens.append((name, mode))
        if "b" in mode:
            raise ValueError("MemFS models text files only")
        if "w" in mode:
            self.files[name] = ""
            return _Writer(self, name)
        if "a" in mode:
            self.files.setdefault(name, "")
            return _Writer(self, name)
        if name not in self.files:
            raise FileNotFoundError(2, "No such file or directory", name)
        return _Reader(self.files[name])
