"""C07 - Retry and Catch follow the States Language error-handling policy."""
import vf; vf.setup_paths()
from vf.api import condition
from vf import stubs, symnum
from vf.stubs import pick
from vf.symnum import P
from vf.ref import retry_policy as ref
from asl_workflow_engine import state_engine as se
import s2_scenarios as scn
import vh_c08 as base

PROPERTY = "C07"
ASSUMPTIONS = [
    "discrete policy (CrossHair): the real StateEngine.notify -> asl_state_Task_delegate -> on_response -> handle_error closures are driven with recording dispatchers; retrier/catcher lists, error name, MaxAttempts and RetryCount are symbolic selectors over small pools",
    "the property text does not say whether States.TaskFailed is a wildcard; the code treats it as one, so cases where ErrorEquals contains States.TaskFailed but the error is a different name are left unconstrained",
    "back-off numbers (Engine B, vf/symnum.py): IntervalSeconds, MaxAttempts symbolic integers, BackoffRate symbolic real, RetryCount k unrolled up to 6; floats treated as exact reals",
    "state_engine.json replaced by a constant shim in the Engine A/B one-step conditions (JSON text is not the subject)",
    "whole-run back-off timing uses the SimBroker virtual clock",
]

EE = [["E1"], ["E2"], ["E1", "E2"], ["States.ALL"], ["States.TaskFailed"], ["States.Timeout"], ["States.Timeout", "E1"]]
ERR = ["E1", "E2", "E3", "States.Timeout", "States.TaskFailed", "States.Runtime", "Task.Terminated"]
RPATH = [None, "$.err", "$", "$.a.b", "null"]


class _JsonShim:
    @staticmethod
    def dumps(o, *a, **k):
        return "<json>"
    loads = staticmethod(__import__("json").loads)


def build_handlers(nr, r0, r1, m0, m1, nc, c0, c1, p0, p1):
    retriers = []
    for i in range(nr):
        retriers.append({"ErrorEquals": pick(EE, r0 if i == 0 else r1), "IntervalSeconds": 1 + i, "MaxAttempts": m0 if i == 0 else m1, "BackoffRate": 2.0})
    catchers = []
    for i in range(nc):
        c = {"ErrorEquals": pick(EE, c0 if i == 0 else c1), "Next": "R%d" % i}
        rp = pick(RPATH, p0 if i == 0 else p1)
        if rp == "null":
            c["ResultPath"] = None
        elif rp is not None:
            c["ResultPath"] = rp
        catchers.append(c)
    return retriers, catchers


def well_formed(lists):
    """States.ALL must appear alone and only in the last handler; TaskFailed-wildcard cases are excluded."""
    for i, l in enumerate(lists):
        if l == ["States.ALL"] and i != len(lists) - 1:
            return False
    return True


def run_task_failure(state_type, retriers, catchers, error, retry_count):
    se.json = _JsonShim
    state = {"Type": "Task", "Resource": "arn:aws:rpcmessage:local::function:f", "TimeoutSeconds": 5, "Next": "N"}
    if retriers: state["Retry"] = retriers
    if catchers: state["Catch"] = catchers
    asl = {"StartAt": "T", "States": {"T": state, "N": {"Type": "Succeed"}, "R0": {"Type": "Succeed"}, "R1": {"Type": "Succeed"}}}
    eng, log = stubs.make_engine(asl)
    extra = {"RetryCount": retry_count, "RetryTimeout": 0} if retry_count else None
    ev = stubs.running_event("T", stubs.QuietDoc({"x": 1, "a": {"k": 2}}), eng=eng, extra_state=extra)
    eng.event_dispatcher.unacknowledged_messages["id1"] = True
    eng.notify(ev, "id1")
    if len(eng.task_dispatcher.calls) != 1:
        return ("other", "calls")
    cb = eng.task_dispatcher.calls[0][2]
    del log[:]
    cb({"errorType": error, "errorMessage": "msg"})
    pubs = [l for l in log if l[0] == "publish"]
    bcs = [l for l in log if l[0] == "broadcast"]
    acks = [l for l in log if l[0] == "ack"]
    if len(acks) != 1:
        return ("other", "acks=%d" % len(acks))
    if len(pubs) == 1 and not bcs:
        e = pubs[0][1]
        st = e["context"]["State"]
        if st["Name"] == "T":
            return ("retry", st.get("RetryCount"), st.get("RetryTimeout"))
        return ("catch", st["Name"], e["data"], "RetryCount" in st or "RetryTimeout" in st)
    if len(bcs) == 1 and not pubs:
        d = bcs[0][2]["detail"]
        return ("fail", d["status"], d.get("error"))
    return ("other", "pubs=%d bcs=%d" % (len(pubs), len(bcs)))


def expected_catch_data(catcher, error):
    inp = {"x": 1, "a": {"k": 2}}
    if "ResultPath" not in catcher or catcher["ResultPath"] == "$":
        return None      # whole output is the Error Output
    rp = catcher["ResultPath"]
    if rp is None:
        return inp
    if rp == "$.err":
        inp["err"] = "EO"
    else:
        inp["a"]["b"] = "EO"
    return inp


def check_catch_data(data, catcher, error):
    def is_eo(v):
        return (isinstance(v, dict) and v.get("Error") == error and isinstance(v.get("Cause", ""), str) and set(v) <= {"Error", "Cause"}
                and (error == "States.TaskFailed" or str(v.get("Cause", "")).endswith("msg")))
    want = expected_catch_data(catcher, error)
    if want is None:
        return is_eo(data)
    if "ResultPath" in catcher and catcher["ResultPath"] is None:
        return data == want
    if catcher["ResultPath"] == "$.err":
        return isinstance(data, dict) and set(data) == {"x", "a", "err"} and data["x"] == 1 and data["a"] == {"k": 2} and is_eo(data["err"])
    return (isinstance(data, dict) and set(data) == {"x", "a"} and data["x"] == 1 and isinstance(data["a"], dict)
            and set(data["a"]) == {"k", "b"} and data["a"]["k"] == 2 and is_eo(data["a"]["b"]))


def ee_pool(error):
    """ErrorEquals lists that are distinguishable for this error: exactly it, something else,
    both, the wildcard, and (for the unconstrained-wildcard clause) States.TaskFailed."""
    other = "E2" if error != "E2" else "E1"
    return [[error], [other], [other, error], ["States.ALL"], ["States.TaskFailed"]]


def _make_policy(ei):
    error = ERR[ei]

    @condition(timeout={"quick": 240, "thorough": 1200}, bounds={"quick": {"NH": 1, "K": 1, "NL": 0}, "thorough": {"NH": 1, "K": 3, "NL": 0}},
               functions=["StateEngine.notify > asl_state_Task_delegate > on_response", "handle_error (retrier/catcher scan)", "merge_result", "change_state", "handle_terminal_state", "end_execution"],
               outside=["States.TaskFailed in ErrorEquals with a different error name (wildcard or not: unspecified)", "ill-formed handler lists (States.ALL not alone/last)"])
    def policy(k: int, nr: int, r0: int, r1: int, m0: int, nc: int, c0: int, c1: int, p0: int) -> bool:
        """
        requires: 0 <= k <= @K@ and @NL@ <= nr <= @NH@ and @NL@ <= nc <= @NH@
        requires: 0 <= r0 < 5 and 0 <= r1 < 5 and 0 <= c0 < 5 and 0 <= c1 < 5 and 0 <= m0 <= @K@ and 0 <= p0 < 5
        ensures: _
        """
        pool = ee_pool(error)
        retriers = []
        for i in range(nr):
            retriers.append({"ErrorEquals": pick(pool, r0 if i == 0 else r1), "IntervalSeconds": 1 + i, "MaxAttempts": m0 if i == 0 else 1, "BackoffRate": 2.0})
        catchers = []
        for i in range(nc):
            c = {"ErrorEquals": pick(pool, c0 if i == 0 else c1), "Next": "R%d" % i}
            rp = pick(RPATH, p0) if i == 0 else "$.err"
            if rp == "null":
                c["ResultPath"] = None
            elif rp is not None:
                c["ResultPath"] = rp
            catchers.append(c)
        if not well_formed([r["ErrorEquals"] for r in retriers]) or not well_formed([c["ErrorEquals"] for c in catchers]):
            return True
        for h in retriers + catchers:
            if "States.TaskFailed" in h["ErrorEquals"] and error != "States.TaskFailed":
                return True      # unconstrained
        got = run_task_failure("Task", retriers, catchers, error, k)
        want = ref.decide(error, retriers, catchers, k)
        if want[0] == "retry":
            return got[0] == "retry" and got[1] == k + 1
        if want[0] == "catch":
            c = catchers[want[1]]
            return got[0] == "catch" and got[1] == c["Next"] and check_catch_data(got[2], c, error) and got[3] is False
        return got == ("fail", "FAILED", error)
    policy.__name__ = policy.__qualname__ = "policy_" + error.replace(".", "_")
    globals()[policy.__name__] = policy
    # two retriers and two catchers (scan order, first match wins): thorough tier only
    import copy as _copy
    from vf.api import Cond
    def policy2(k: int, nr: int, r0: int, r1: int, m0: int, nc: int, c0: int, c1: int, p0: int) -> bool:
        return policy(k, nr, r0, r1, m0, nc, c0, c1, p0)
    policy2.__doc__ = policy.__doc__
    policy2.__name__ = policy2.__qualname__ = "policy2_" + error.replace(".", "_")
    c = policy._vf
    policy2._vf = Cond(policy2, c.kind, ("thorough",), {"thorough": 1800}, {"thorough": {"NH": 2, "K": 1, "NL": 2}}, c.functions, c.note, c.expect, c.outside)
    globals()[policy2.__name__] = policy2


for _ei in range(len(ERR)):
    _make_policy(_ei)


@condition(timeout={"quick": 240, "thorough": 600}, functions=["handle_error (two retriers: the FIRST matching retrier decides, also when it is exhausted)"])
def two_retriers(ei: int, k: int, r0: int, r1: int, m0: int, m1: int, has_catch: bool) -> bool:
    """
    requires: ei == 0 and 0 <= k <= 1 and 0 <= r0 < 4 and 0 <= r1 < 4 and 0 <= m0 <= 1 and 1 <= m1 <= 2
    ensures: _
    """
    error = pick(ERR, ei)
    pool = ee_pool(error)[:4]
    k = pick([0, 1], k); m0 = pick([0, 1], m0); m1 = pick([0, 1, 2], m1)      # concrete per path
    retriers = [{"ErrorEquals": pick(pool, r0), "IntervalSeconds": 1, "MaxAttempts": m0, "BackoffRate": 1.0},
                {"ErrorEquals": pick(pool, r1), "IntervalSeconds": 2, "MaxAttempts": m1, "BackoffRate": 1.0}]
    catchers = [{"ErrorEquals": ["States.ALL"], "Next": "R0", "ResultPath": "$.err"}] if has_catch else []
    if not well_formed([r["ErrorEquals"] for r in retriers]):
        return True
    got = run_task_failure("Task", retriers, catchers, error, k)
    want = ref.decide(error, retriers, catchers, k)
    if want[0] == "retry":
        return got[0] == "retry" and got[1] == k + 1
    if want[0] == "catch":
        return got[0] == "catch" and got[1] == "R0"
    return got == ("fail", "FAILED", error)


@condition(timeout={"quick": 60, "thorough": 120}, functions=["StateEngine.change_state (RetryCount/RetryTimeout cleared)"])
def counters_do_not_leak(k: int, succeed: bool) -> bool:
    """
    requires: 1 <= k <= 3
    ensures: _
    """
    se.json = _JsonShim
    state = {"Type": "Task", "Resource": "arn:aws:rpcmessage:local::function:f", "TimeoutSeconds": 5, "Next": "N",
             "Retry": [{"ErrorEquals": ["E1"], "MaxAttempts": 5}], "Catch": [{"ErrorEquals": ["States.ALL"], "Next": "R0"}]}
    asl = {"StartAt": "T", "States": {"T": state, "N": {"Type": "Succeed"}, "R0": {"Type": "Succeed"}}}
    eng, log = stubs.make_engine(asl)
    ev = stubs.running_event("T", {"x": 1}, eng=eng, extra_state={"RetryCount": k, "RetryTimeout": 0})
    eng.notify(ev, "id1")
    cb = eng.task_dispatcher.calls[0][2]
    del log[:]
    cb({"ok": 1} if succeed else {"errorType": "E2", "errorMessage": "m"})
    pubs = [l for l in log if l[0] == "publish"]
    if len(pubs) != 1:
        return False
    st = pubs[0][1]["context"]["State"]
    return st["Name"] == ("N" if succeed else "R0") and "RetryCount" not in st and "RetryTimeout" not in st


# ---------------------------------------------------------------------------
# Engine B: back-off arithmetic on the real handle_error
# ---------------------------------------------------------------------------
class _Tok:
    n = 0


def _backoff_kernel(now, interval, rate, maxatt, k, has_rate):
    table = {"ENTERED": now, "START": now}
    env = base._SymEnv(now, table)
    captured = {}

    class D:
        @staticmethod
        def now(tz=None): return base._Stamp(now)
        @staticmethod
        def fromtimestamp(x, tz=None):
            s = base._Stamp(x)
            def iso():
                _Tok.n += 1
                t = "TOK%d" % _Tok.n
                table[t] = x; captured["entered"] = x
                return t
            s.isoformat = iso
            return s
    try:
        retrier = {"ErrorEquals": ["E1"], "IntervalSeconds": interval, "MaxAttempts": maxatt}
        if has_rate > 0:
            retrier["BackoffRate"] = rate
            eff = P.max(rate, 1)
        else:
            eff = 2
        state = {"Type": "Task", "Resource": "arn:aws:rpcmessage:local::function:f", "TimeoutSeconds": 5, "Next": "N", "Retry": [retrier]}
        asl = {"StartAt": "T", "States": {"T": state, "N": {"Type": "Succeed"}}}
        eng, log = stubs.make_engine(asl, "EXPRESS", fire_timeouts=False)
        se.datetime = D
        eng.broadcast_notification = lambda arn, detail, ctx: log.append(("broadcast", "", {"detail": dict(detail)}))
        ev = stubs.running_event("T", {"x": 1}, "EXPRESS", entered="ENTERED", start="START", extra_state={"RetryCount": k, "RetryTimeout": 0})
        eng.notify(ev, "id1")
        # deferral of the (re)entered Task: RetryTimeout 0 here
        pending = list(eng.event_dispatcher.timers.values())
        eng.event_dispatcher.timers.clear()
        for (cb0, d0) in pending:     # a deferral with RetryTimeout 0 may also run the delegate directly
            cb0()
        cb = eng.task_dispatcher.calls[0][2]
        del log[:]
        cb({"errorType": "E1", "errorMessage": "m"})
        pubs = [l for l in log if l[0] == "publish"]
        bcs = [l for l in log if l[0] == "broadcast"]
        if len(bcs) == 1 and not pubs:
            # retries exhausted -> failed
            return P.ge(k, maxatt), "exhausted"
        if len(pubs) != 1:
            return False, "other"
        st = pubs[0][1]["context"]["State"]
        # eff ** k, k concrete on this path thanks to the unrolled exponent decisions
        powk = 1
        kk = 0
        while True:
            if P_is(k, kk):
                break
            powk = powk * eff
            kk += 1
            if kk > symnum.POW_BOUND:
                return False, "k out of bound"
        delay = interval * powk
        ok = P.and_(P.lt(k, maxatt), P.eq(st["RetryCount"], k + 1), P.eq(st["RetryTimeout"], delay * 1000),
                    P.eq(captured["entered"], now + delay))
        # re-entry: the deferral timer must be armed with exactly RetryTimeout
        eng2, log2 = stubs.make_engine(asl, "EXPRESS", fire_timeouts=False)
        se.datetime = D
        ev2 = pubs[0][1]
        eng2.notify(ev2, "id2")
        armed = [l for l in log2 if l[0] == "set_timeout"]
        if len(armed) != 1:
            return False, "rearm"
        ok = P.and_(ok, P.eq(armed[0][2], delay * 1000))
        return ok, "retry"
    finally:
        env.restore()


def P_is(k, kk):
    """Is the (possibly symbolic) integer k equal to the concrete kk on this path?"""
    if isinstance(k, symnum.Sym):
        return bool(symnum.SymBool(k.e == kk))
    return k == kk


@condition(kind="symnum", timeout=180, functions=["handle_error (retry branch: IntervalSeconds * BackoffRate ** RetryCount, BackoffRate < 1 clamp, RetryCount/RetryTimeout/EnteredTime)", "asl_state_Task (deferral by RetryTimeout)"],
           outside=["RetryCount above 6 (unrolling bound of the symbolic exponent)", "IEEE rounding"])
def backoff_numbers(replay=None):
    spec = {"now": "real", "interval": "int", "rate": "real", "maxatt": "int", "k": "int", "has_rate": "int"}
    return symnum.run_kernel(_backoff_kernel, spec,
                             lambda now, interval, rate, maxatt, k, has_rate: [P.ge(now, 0), P.ge(interval, 1), P.gt(rate, 0), P.ge(maxatt, 0), P.ge(k, 0), P.le(k, 6),
                                                                               P.ge(has_rate, 0), P.le(has_rate, 1)],
                             replay)


# ---------------------------------------------------------------------------
# S2: outcome sequences err^j, success on the virtual clock; retried Parallel
# ---------------------------------------------------------------------------
def _retry_run(which, j: int, c0: int, c1: int, c2: int):
    from vf import s2, sim
    t = scn.task("f", TimeoutSeconds=50, ResultPath="$.t", End=True,
                 Retry=[{"ErrorEquals": ["Boom"], "IntervalSeconds": 2, "MaxAttempts": 3, "BackoffRate": 2.0}])
    asl = {"StartAt": "T", "States": {"T": t}}
    n = [0]; times = []

    def w(req):
        n[0] += 1
        times.append(stubs.CLOCK.now - 1_700_000_000.0)
        if n[0] <= j:
            return {"errorType": "Boom", "errorMessage": "a%d" % n[0]}
        return {"ok": n[0]}

    def chk(run, inst, mon):
        sched = [0.0, 2.0, 6.0, 14.0]
        att = min(j, 3) + 1
        if times != sched[:att]:
            return "C07 task requested at %s, expected %s" % (times, sched[:att])
        return ""
    expect = ("SUCCEEDED", {"x": 1, "t": {"ok": j + 1}}) if j <= 3 else ("FAILED", "Boom")
    return s2.run_scenario(asl, {"x": 1}, [c0, c1, c2], {"f": w}, which, "STANDARD", expect, extra_check=chk, max_steps=120)


@condition(timeout={"quick": 240, "thorough": 600}, functions=scn.ENGINE_FUNCS)
def retry_sequence(j: int, c0: int, c1: int, c2: int) -> str:
    """
    requires: 0 <= j <= 4
    ensures: _ == ""
    """
    return _retry_run({"C07", "C02", "C03", "C09"}, j, c0, c1, c2)


scn.register(globals(), {"C07", "C02", "C03"}, ["par_retry", "par_catch"],
             {"par_retry": [("_f%d_s%d" % (f, s), "nfail == %d and sib == %d" % (f, s)) for f in (0, 1, 2) for s in (0, 1)],
              "par_catch": [("_s0_a", "sib == 0 and fa and not fb")]})


# ---------------------------------------------------------------------------
# S2: a chain of retried states - the retry budget is per state (no leak of RetryCount /
# RetryTimeout from one state to the next, through success and through Catch)
# ---------------------------------------------------------------------------
def _retry_chain(which, j1: int, j2: int, m: int, via_catch: bool, c0: int, c1: int, c2: int):
    from vf import s2
    m = pick([0, 1, 2], m)
    # the failure counts only steer the harness's workers: made concrete by explicit forks, so that the engine runs
    # outside the tracer (fast mode) and the solver closes the (j1, j2, schedule) space
    j1 = stubs.cint(j1, 0, 3); j2 = stubs.cint(j2, 0, 3); via_catch = stubs.cbool(via_catch)
    retry = [{"ErrorEquals": ["Boom"], "IntervalSeconds": 1, "MaxAttempts": m, "BackoffRate": 2.0}]
    t1 = scn.task("f1", ResultPath="$.t1", Next="T2", Retry=retry)
    if via_catch:
        t1["Catch"] = [{"ErrorEquals": ["States.ALL"], "ResultPath": "$.t1", "Next": "T2"}]
    t2 = scn.task("f2", ResultPath="$.t2", End=True, Retry=retry)
    asl = {"StartAt": "T1", "States": {"T1": t1, "T2": t2}}
    n1 = [0]; n2 = [0]; times1 = []; times2 = []

    def w1(req):
        n1[0] += 1
        times1.append(stubs.CLOCK.now - 1_700_000_000.0)
        if n1[0] <= j1:
            return {"errorType": "Boom", "errorMessage": "a"}
        return {"ok": 1}

    def w2(req):
        n2[0] += 1
        times2.append(stubs.CLOCK.now - 1_700_000_000.0)
        if n2[0] <= j2:
            return {"errorType": "Boom", "errorMessage": "b"}
        return {"ok": 2}
    sched = [0.0, 1.0, 3.0]
    t1_ok = j1 <= m
    att1 = min(j1, m) + 1
    t2_runs = t1_ok or via_catch
    att2 = (min(j2, m) + 1) if t2_runs else 0
    t2_ok = t2_runs and j2 <= m

    def chk(run, inst, mon):
        if times1 != sched[:att1]:
            return "C07 first task requested at %s, expected %s" % (times1, sched[:att1])
        base_t = sched[att1 - 1]
        want2 = [base_t + s for s in sched[:att2]]
        if times2 != want2:
            return "C07 second task requested at %s, expected %s (retry budget/delay of the first state leaked?)" % (times2, want2)
        return ""
    if t2_ok:
        got1 = {"ok": 1} if t1_ok else None
        expect = None
    else:
        expect = ("FAILED", "Boom")

    def chk2(run, inst, mon):
        r = chk(run, inst, mon)
        if r:
            return r
        if t2_ok:
            got = s2.result_of()
            if got[0] != "SUCCEEDED" or got[1].get("t2") != {"ok": 2} or got[1].get("x") != 1:
                return "outcome %r" % (got,)
            if t1_ok and got[1].get("t1") != {"ok": 1}:
                return "outcome %r" % (got,)
            if not t1_ok and (got[1].get("t1") or {}).get("Error") != "Boom":
                return "C07 caught error output missing: %r" % (got,)
        return ""
    return s2.run_scenario(asl, {"x": 1}, [c0, c1, c2], {"f1": w1, "f2": w2}, which, "STANDARD", expect, extra_check=chk2, max_steps=160, fast=True)


def _make_chain(m, vc):
    @condition(timeout={"quick": 300, "thorough": 900}, functions=scn.ENGINE_FUNCS,
               outside=["chains longer than two retried states", "MaxAttempts above 2 in the chain scenario"])
    def retry_chain(j1: int, j2: int, c0: int, c1: int, c2: int) -> str:
        """
        requires: 0 <= j1 <= 3 and 0 <= j2 <= 3
        ensures: _ == ""
        """
        return _retry_chain({"C07", "C02", "C03", "C09"}, j1, j2, m, vc, c0, c1, c2)
    retry_chain.__name__ = retry_chain.__qualname__ = "retry_chain_m%d%s" % (m, "_catch" if vc else "")
    globals()[retry_chain.__name__] = retry_chain


for _m in (0, 1, 2):
    for _vc in (False, True):
        _make_chain(_m, _vc)

# The States Language's "complex retry scenarios": a Retrier's parameters apply across all visits to THAT Retrier -
# each Retrier counts its own retries (spec example: errors A, B, C, B, B against Retriers [A|B: max 2] and [C: max 5]).
PER_RETRIER_SEQS = [["EA", "EB"], ["EA", "EB", "EA"], ["EB", "EA"], ["EA", "EA"], ["EA", "EB", "EB"], ["EA"], []]


def _per_retrier(which, si: int, c0: int, c1: int, c2: int):
    from vf import s2
    seq = PER_RETRIER_SEQS[stubs.cint(si, 0, len(PER_RETRIER_SEQS) - 1)]
    retry = [{"ErrorEquals": ["EA"], "IntervalSeconds": 1, "MaxAttempts": 1, "BackoffRate": 2.0},
             {"ErrorEquals": ["EB"], "IntervalSeconds": 3, "MaxAttempts": 1, "BackoffRate": 2.0}]
    asl = {"StartAt": "T", "States": {"T": scn.task("f1", ResultPath="$.t", End=True, Retry=retry)}}
    n = [0]; times = []

    def w(req):
        n[0] += 1
        times.append(stubs.CLOCK.now - 1_700_000_000.0)
        if n[0] <= len(seq):
            return {"errorType": seq[n[0] - 1], "errorMessage": "m"}
        return {"ok": 1}
    # reference: one counter per Retrier
    used = {"EA": 0, "EB": 0}; t = 0.0; want_times = [0.0]; outcome = ("SUCCEEDED", None)
    for e in seq:
        if used[e] >= 1:
            outcome = ("FAILED", e); break
        t += {"EA": 1.0, "EB": 3.0}[e] * (2.0 ** used[e]); used[e] += 1
        want_times.append(t)

    def chk(run, inst, mon):
        got = s2.result_of()
        if got[0] != outcome[0] or (outcome[0] == "FAILED" and got[1] != outcome[1]):
            return "C07 [per-retrier] errors %s against Retriers [EA: 1 attempt] [EB: 1 attempt]: outcome %r, expected %r (each Retrier counts its own retries)" % (seq, got, outcome)
        if times != want_times:
            return "C07 [per-retrier] task requested at %s, expected %s" % (times, want_times)
        return ""
    return s2.run_scenario(asl, {"x": 1}, [c0, c1, c2], {"f1": w}, which, "STANDARD", None, extra_check=chk, max_steps=160, fast=True)


@condition(timeout={"quick": 300, "thorough": 900}, functions=scn.ENGINE_FUNCS + ["handle_error: retry counting over two Retriers"],
           note="States Language, 'Complex retry scenarios': a Retrier's parameters apply across all visits to that Retrier (one retry count per Retrier)")
def per_retrier_counts(si: int, c0: int, c1: int, c2: int) -> str:
    """
    requires: 0 <= si < len(PER_RETRIER_SEQS)
    ensures: _ == ""
    """
    return _per_retrier({"C07", "C02", "C03", "C09"}, si, c0, c1, c2)


scn.register(globals(), {"C07", "C02", "C03", "C09"}, ["fan_retry_inner_retry"],
             {"fan_retry_inner_retry": [("_k%d" % k, "kind == %d" % k) for k in (0, 1)]})

import s2_more as more
more.register(globals(), {"C07", "C02", "C03", "C09"}, ["map_retry_batches"])

more.register(globals(), {"C07", "C02", "C03", "C09"}, ["fan_catch_paths"])

import s2_found as found
found.register(globals(), {"C07", "C02", "C03", "C09"}, ["inner_join_failure"])

found.register(globals(), {"C07", "C02", "C03", "C09"}, ["map_selector_failure"])

found.register(globals(), {"C07", "C02", "C03", "C09"}, ["oversize_result_handled"])
