"""C02 - every execution ends exactly once and its terminal record never changes."""
import vf; vf.setup_paths()
import s2_scenarios as scn

PROPERTY = "C02"
ASSUMPTIONS = [
    "SimBroker/sim_messaging (vf/sim.py) stands for RabbitMQ: FIFO queues, unacked-until-acked, mandatory returns, per-connection timers on a virtual clock",
    "real StateEngine + TaskDispatcher + EventDispatcher are started through the engine's own queue_implementation switch; json codec runs natively (stubs.FastJson), clock/uuid/logger stubs",
    "schedule vector: symbolic ints choose the next enabled action (delivery per queue, worker reply, zero-delay timer); non-zero timers fire in due order when nothing else is enabled; the 1 s heartbeat is not scheduled",
    "unwinding assertion: a run needing more decisions than the vector provides is a harness error, never a pass",
    "monitor evaluated after every scheduling step: notification sequence per execution is a prefix of [RUNNING, terminal]; record invariants (stopDate iff terminal, output iff SUCCEEDED, error/cause iff FAILED); terminal record snapshot never changes; at quiescence every started execution has exactly [RUNNING, terminal]",
]
SPLIT = {"nested_par": [("_ok", "not fail"), ("_fail", "fail")], "par2": [("_none", "not fa and not fb"), ("_a", "fa and not fb"), ("_b", "fb and not fa")],
         "map_items": [("_ok", "failing == -1"), ("_fail", "failing >= 0 and n >= 1")]}
scn.register(globals(), {"C02"}, ["seq_chain", "seq_misc", "exec_timeout", "two_execs", "start_routes", "par2", "par_pass_task", "map_items", "par3", "par_wait_fail", "nested_par"], SPLIT)

import s2_more as more
more.register(globals(), {"C02"}, ["par3_mixed", "map_fail_batches", "map_in_par", "par_in_map", "branch_fail_state", "par_longform", "nested_inner_catch", "three_execs"],
              {"nested_inner_catch": [("_catch", "mode == 0 and q2 == 0"), ("_retry", "mode == 1 and q2 == 0"), ("_catch_task", "mode == 0 and q2 == 1"), ("_retry_task", "mode == 1 and q2 == 1")], "par3_mixed": [("_none", "not fa and not fb"), ("_a", "fa and not fb"), ("_b", "fb and not fa"), ("_ab", "fa and fb")], "map_in_par": [("_k%d" % k, "kind == %d" % k) for k in range(3)]})

globals()["nested_inner_catch_retry_task"]._vf.tiers = ("thorough",)   # 1665 schedules: quick tier runs it under C06 only

import s2_found as found
found.register(globals(), {"C02"}, ["caught_then_outer_fails", "three_levels", "backstop_after_end", "raw_start_events"], {"caught_then_outer_fails": [("_a", "a_fails"), ("_noa", "not a_fails")]})


# Two engine instances sharing one broker: an execution with a fan-out state still ends exactly once (its Branch
# events must come back to the instance that holds the join; whole-run harness of c19_affinity, C02's verdict)
import c19_affinity as _aff
from vf.api import condition as _condition


def _two_instances(kind):
    @_condition(timeout={"quick": 300, "thorough": 900}, functions=scn.ENGINE_FUNCS + ["EventDispatcher.publish (instance queue of the owning engine)"])
    def cond(quorum: bool, c0: int, c1: int, c2: int, c3: int, c4: int, c5: int, c6: int, c7: int, c8: int, c9: int) -> str:
        """
        requires: True
        ensures: _ == ""
        """
        r = _aff.affinity_run(2, quorum, kind, 1, [c0, c1, c2, c3, c4, c5, c6, c7, c8, c9, 0, 0, 0, 0, 0, 0])
        # only C02's own verdict counts here (where an event was delivered is C19's business)
        return r.replace("C19 terminals", "C02 with two engine instances the terminal notifications are") if r.startswith("C19 terminals") else ""
    cond.__name__ = cond.__qualname__ = "two_instances_" + ("parallel" if kind == 0 else "sync_child")
    globals()[cond.__name__] = cond


_two_instances(0)
_two_instances(1)
