"""C17 - names and ARNs round-trip and link executions to their state machine."""
import vf; vf.setup_paths()
from vf.api import condition
from vf import stubs
from vf.stubs import pick
from asl_workflow_engine import arn as arnmod, state_engine as se
from asl_workflow_engine import rest_api_asyncio as ra, rest_api as rb

PROPERTY = "C17"
ASSUMPTIONS = [
    "names are symbolic strings (any character CrossHair's string theory offers, incl. newline, ':' '/' '.' and control characters) constrained only by the repository's own valid_name; accounts are digit strings, regions/partitions from a pool",
    "engine derivation sites: names over the alphabet {a . - _ : / space newline} up to 2 characters (ARNs are formatted into log messages, which realises symbolic strings, so the alphabet must be finite)",
    "engine derivation sites are run for real (notify/start_execution, end_execution EXPRESS branch, update_execution_history recovery branch, check_for_expired_branch_results) with recording dispatchers and a constant json shim",
]
REGIONS = ["local", "eu-west-1", ""]
ALPHA = "a.-_:/ \n"      # ARN-significant, forbidden and harmless characters (engine-site conditions: the ARN is formatted into log text, which realises it)
PARTS = ["aws", "aws-cn"]


class _JsonShim:
    @staticmethod
    def dumps(o, *a, **k):
        return "<json>"
    loads = staticmethod(__import__("json").loads)


def norm(s):
    return "".join([c for c in s])


@condition(timeout={"quick": 120, "thorough": 600}, bounds={"quick": {"N": 3}, "thorough": {"N": 4}},
           functions=["arn.create_arn", "arn.parse_arn", "rest_api_asyncio.valid_name", "rest_api.valid_name"],
           outside=["names longer than the tier bound (the ARN parser is length-oblivious: it only looks for the first ':' x5 and the first '/')"])
def name_arn_roundtrip(name: str, acct: str, ri: int, pi: int, rt: int, which: int) -> bool:
    """
    requires: 1 <= len(name) <= @N@ and len(acct) <= 2 and all(c in "0123456789" for c in acct)
    requires: 0 <= ri < 3 and 0 <= pi < 2 and 0 <= rt < 2 and 0 <= which < 2
    ensures: _
    """
    name = norm(name); acct = norm(acct)
    valid = (ra.valid_name, rb.valid_name)[which]
    if not valid(name):
        return True                      # refused names cannot break the round trip
    rtype = pick(["stateMachine", "execution"], rt)
    parts = dict(arn="arn", partition=pick(PARTS, pi), service="states", region=pick(REGIONS, ri), account=acct,
                 resource_type=rtype, resource=name)
    a = arnmod.create_arn(**parts)
    p = arnmod.parse_arn(a)
    return p == parts and arnmod.create_arn(p) == a and arnmod.create_arn(dict(p)) == a


def _arns(m, e, acct="0123456789", region="local"):
    sm = arnmod.create_arn(service="states", region=region, account=acct, resource_type="stateMachine", resource=m)
    ex = arnmod.create_arn(service="states", region=region, account=acct, resource_type="execution", resource=m + ":" + e)
    return sm, ex


def _engine_for(sm_arn, sm_type):
    asl = {"StartAt": "P", "States": {"P": {"Type": "Pass", "End": True}}}
    eng, log = stubs.make_engine(asl, sm_type)
    se.json = _JsonShim
    rec = dict(eng.asl_store[stubs.SM_ARN]); rec["stateMachineArn"] = sm_arn
    eng.asl_store.clear()
    eng.asl_store[sm_arn] = rec
    looked = []
    orig = eng.asl_store.get_cached_view

    class Store(type(eng.asl_store)):
        def get_cached_view(self, key, default=None):
            looked.append(key)
            return self.get(key, default)
    s = Store(eng.asl_store)
    eng.asl_store = s
    return eng, log, looked


@condition(timeout={"quick": 240, "thorough": 900}, bounds={"quick": {"N": 2, "M": 1}, "thorough": {"N": 2, "M": 2}},
           functions=["StateEngine.start_execution (ARN minting from machine ARN + name)", "end_execution (EXPRESS: re-derivation from the execution ARN)", "broadcast_notification (account/region from the execution ARN)"])
def mint_and_rederive(m: str, e: str, express: bool, ri: int) -> bool:
    """
    requires: 1 <= len(m) <= @N@ and 1 <= len(e) <= @M@ and 0 <= ri < 2
    requires: all(c in ALPHA for c in m) and all(c in ALPHA for c in e)
    ensures: _
    """
    m = norm(m); e = norm(e)
    if not (ra.valid_name(m) and ra.valid_name(e)):
        return True
    region = pick(["local", "eu-west-1"], ri)
    sm_arn, ex_arn = _arns(m, e, region=region)
    eng, log, looked = _engine_for(sm_arn, "EXPRESS" if express else "STANDARD")
    ev = {"data": {"x": 1}, "context": {"StateMachine": {"Id": sm_arn}, "Execution": {"Name": e}}}
    eng.notify(ev, "id1")
    bcs = [l for l in log if l[0] == "broadcast"]
    if len(bcs) != 2:
        return False
    for _, subject, cw in bcs:
        d = cw["detail"]
        if d["executionArn"] != ex_arn or d["stateMachineArn"] != sm_arn or d["name"] != e:
            return False
        if cw["account"] != "0123456789" or cw["region"] != region or cw["resources"] != [ex_arn]:
            return False
        if subject != sm_arn + "." + d["status"]:
            return False
    if not express:
        r = eng.executions.get(ex_arn)
        if r is None or r["stateMachineArn"] != sm_arn or r["name"] != e:
            return False
    return True


@condition(timeout={"quick": 240, "thorough": 900}, bounds={"quick": {"N": 2, "M": 1}, "thorough": {"N": 2, "M": 2}},
           functions=["StateEngine.update_execution_history (recovery branch after restart)", "check_for_expired_branch_results (time-out back-stop)"])
def recovery_and_backstop(m: str, e: str, site: int) -> bool:
    """
    requires: 1 <= len(m) <= @N@ and 1 <= len(e) <= @M@ and 0 <= site < 2
    requires: all(c in ALPHA for c in m) and all(c in ALPHA for c in e)
    ensures: _
    """
    m = norm(m); e = norm(e)
    if not (ra.valid_name(m) and ra.valid_name(e)):
        return True
    sm_arn, ex_arn = _arns(m, e)
    eng, log, looked = _engine_for(sm_arn, "STANDARD")
    if site == 0:
        # engine restarted: the record is gone, history update must re-create it with derived fields
        eng.update_execution_history(eng.asl_store[sm_arn], ex_arn, "PassStateEntered", {"input": "{}", "name": "P"})
        r = eng.executions.get(ex_arn)
        return r is not None and r["stateMachineArn"] == sm_arn and r["name"] == e and r["executionArn"] == ex_arn
    # back-stop: an expired branch_metadata entry makes the engine look the machine up by the derived ARN
    ctx = {"Tracer": {}, "Execution": {"Id": ex_arn, "Name": e, "Input": {}, "StartTime": stubs.T0_ISO},
           "State": {"EnteredTime": stubs.T0_ISO, "Name": "P"}, "StateMachine": {"Id": sm_arn}}
    bm = se.BranchMetadata(ctx, 10)
    eng.branch_metadata[ex_arn] = bm
    eng.executions[ex_arn] = {"executionArn": ex_arn, "input": "{}", "name": e, "output": None, "startDate": stubs.CLOCK.now,
                              "stateMachineArn": sm_arn, "status": "RUNNING", "stopDate": None}
    eng.execution_history[ex_arn] = []
    stubs.CLOCK.now = 1_700_000_100.0
    try:
        eng.check_for_expired_branch_results()
    finally:
        stubs.CLOCK.now = 1_700_000_000.0
    bcs = [l for l in log if l[0] == "broadcast"]
    return looked[-1:] == [sm_arn] and len(bcs) == 1 and bcs[0][2]["detail"]["stateMachineArn"] == sm_arn and bcs[0][2]["detail"]["status"] == "FAILED"


import vh_c10 as api


@condition(timeout={"quick": 120, "thorough": 300}, bounds={"quick": {"N": 1}, "thorough": {"N": 2}},
           functions=["rest_api_asyncio / rest_api: aws_api_StartExecution (execution ARN minted from the state machine ARN)"])
def rest_mint(f: int, e: str, ri: int, has_name: bool) -> bool:
    """
    requires: 0 <= f < 2 and len(e) <= @N@ and all(c in ALPHA for c in e) and 0 <= ri < 3
    ensures: _
    """
    e = api.concrete(norm(e))
    fe = api.FE[f]
    fe.reset(True)
    region = pick(["local", "eu-west-1", "us-gov-west-1"], ri)          # the front end itself is configured for "local"
    sm = "arn:aws:states:%s:0123456789:stateMachine:m" % region
    fe.engine.asl_store[sm] = {"definition": {"StartAt": "A", "States": {"A": {"Type": "Succeed"}}}, "name": "m", "roleArn": api.ROLE1,
                               "stateMachineArn": sm, "type": "STANDARD", "creationDate": 1.0, "updateDate": 1.0, "status": "ACTIVE"}
    members = {"stateMachineArn": sm}
    if has_name:
        members["name"] = e
    v, code = fe.call("AWSStepFunctions.StartExecution", api.CT, stubs.FastJson.dumps(members).encode())
    valid = (ra.valid_name, rb.valid_name)[f]
    if has_name and not valid(e):
        return code == 400 and not fe.disp.log
    if code != 200:
        return False
    ex = v["executionArn"]
    pubs = [l for l in fe.disp.log if l[0] == "publish"]
    if len(pubs) != 1 or pubs[0][1]["context"]["Execution"]["Id"] != ex or pubs[0][1]["context"]["StateMachine"]["Id"] != sm:
        return False
    # every derivation site splits the execution ARN like this and must arrive at the machine it was started for
    split = ex.rpartition(":")
    a = arnmod.parse_arn(split[0]); a["resource_type"] = "stateMachine"
    return arnmod.create_arn(a) == sm and (not has_name or split[2] == e)


import vh_c15 as c15


@condition(timeout={"quick": 400, "thorough": 900}, bounds={"quick": {"N": 1}, "thorough": {"N": 2}},
           functions=["TaskDispatcher.execute_task > asl_service_states_startExecution (child execution ARN minted from the child state machine's ARN, not from the Task Resource ARN)"],
           outside=["accounts other than the pool"])
def child_mint(form: int, rr: int, cr: int, m: str, named: bool, ca: int, ni: int) -> bool:
    """
    requires: 0 <= form < 5 and 0 <= rr < 3 and 0 <= cr < 2 and 0 <= ca < 2 and 1 <= len(m) <= @N@ and all(c in ALPHA for c in m)
    requires: 0 <= ni < 7 and (named or ni == 0) and (ni == 0 or (rr == 1 and ca == 0))
    ensures: _
    """
    # The Task's Resource ARN may carry no region (the AWS form arn:aws:states:::states:startExecution.sync), the
    # launching engine's own region, or another one; the child machine lives in region cr / account ca.
    m = norm(m)
    if not ra.valid_name(m):
        return True
    log = []; results = []
    d = c15._dispatcher(log)
    store = d.state_engine.asl_store
    parent = dict(store[c15.SM]); parent["type"] = "STANDARD"
    store[c15.SM] = parent
    region = pick(["local", "eu-west-1"], cr)
    account = pick(["0123456789", "999"], ca)
    carn = "arn:aws:states:%s:%s:stateMachine:%s" % (region, account, m)
    c = dict(parent); c["stateMachineArn"] = carn; c["name"] = m; c["type"] = "EXPRESS" if form == 4 else "STANDARD"
    store[carn] = c
    f = pick(c15.FORMS, form)
    rregion = pick(["", "local", "us-east-1"], rr)
    res = ("arn:aws:states:%s::aws-sdk:" if form == 4 else "arn:aws:states:%s::states:") % rregion + f
    params = {"Input": {"i": 1}, "StateMachineArn": carn}
    cname = pick(["given", "2024-01-01T00:00:00Z", "a/b", "a b", "", "x" * 81, "ok-name_1.2"], ni) if named else None
    if named:
        params["Name"] = cname
    ctx = {"StateMachine": {"Id": c15.SM}, "Execution": {"Id": stubs.EX_ARN}, "State": {"Name": "T"}, "Tracer": {}}
    import asl_workflow_engine.event_dispatcher as edm
    from vf import sim
    edm.Message = sim.Message
    d.execute_task(res, params, results.append, 5000, True, ctx, "ev1", False)
    pubs = [l for l in log if l[0] == "publish"]
    if named and not ra.valid_name(cname):
        # a child execution name that would break the round trip is refused: the Task fails, nothing is launched
        return not pubs and len(results) == 1 and isinstance(results[0], dict) and bool(results[0].get("errorType")) and not d.pending_requests
    if len(pubs) != 1:
        return False
    ev = pubs[0][1]
    ex = ev["context"]["Execution"]["Id"]
    if ev["context"]["StateMachine"]["Id"] != carn:
        return False
    if named and ex.rpartition(":")[2] != cname:
        return False
    # every derivation site splits the execution ARN like this and must arrive at the machine that runs it
    split = ex.rpartition(":")
    a = arnmod.parse_arn(split[0]); a["resource_type"] = "stateMachine"
    if arnmod.create_arn(a) != carn:
        return False
    if form == 0 and not (len(results) == 1 and results[0].get("executionArn") == ex):
        return False
    return True


# names that contain the words an ARN is made of: a derivation that edits the ARN text (replace / find / split on a
# word) instead of its parsed parts goes wrong exactly on these
WORDY = ["execution", "nightly-execution-report", "stateMachine", "my_stateMachine.v2", "states", "aws", "local", "arn", "0123456789", "execution.execution"]


@condition(timeout={"quick": 240, "thorough": 600}, functions=["StateEngine.start_execution", "end_execution (EXPRESS: re-derivation from the execution ARN)", "broadcast_notification",
                                                                "update_execution_history (recovery branch)", "check_for_expired_branch_results"])
def mint_and_rederive_wordy(mi: int, ei: int, express: bool, ri: int, site: int) -> bool:
    """
    requires: 0 <= mi < len(WORDY) and 0 <= ei < len(WORDY) and 0 <= ri < 2 and 0 <= site < 3
    ensures: _
    """
    m = pick(WORDY, mi); e = pick(WORDY, ei)
    site = stubs.cint(site, 0, 2)
    if site == 0:
        return mint_and_rederive(m, e, express, ri)
    if express:
        return True
    return recovery_and_backstop(m, e, site - 1)
