"""C17 - names and ARNs round-trip."""
import vf; vf.setup_paths()
from vf.api import condition
from asl_workflow_engine import arn as arnmod

PROPERTY = "C17"

@condition(timeout={"quick": 60, "thorough": 300}, bounds={"quick": {"N": 3}, "thorough": {"N": 4}},
           functions=["arn.create_arn", "arn.parse_arn"])
def arn_roundtrip_probe(name: str, account: str) -> bool:
    """
    requires: len(name) <= @N@ and len(account) <= 2
    requires: ":" not in name and "/" not in name and ":" not in account and "/" not in account
    ensures: _
    """
    a = arnmod.create_arn(service="states", region="local", account=account, resource_type="stateMachine", resource=name)
    p = arnmod.parse_arn(a)
    return p["resource"] == name and p["resource_type"] == "stateMachine" and p["account"] == account and arnmod.create_arn(p) == a
