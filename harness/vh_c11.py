"""C11 - all observability surfaces tell the same story about an execution."""
import vf; vf.setup_paths()
import s2_scenarios as scn
import vh_c02

PROPERTY = "C11"
ASSUMPTIONS = vh_c02.ASSUMPTIONS[:4] + [
    "monitor after every step: DescribeExecution record, latest notification and last history event agree on status/input/output/error; subject == '<stateMachineArn>.<status>'; CloudWatch envelope keys present; each status published once; notification dates are int(seconds*1000) while the stored record keeps float epoch seconds; EXPRESS stores nothing",
]
SPLIT = {"par2": [("_none", "not fa and not fb"), ("_a", "fa and not fb")],
         "map_items": [("_ok", "failing == -1")]}
scn.register(globals(), {"C11", "C09"}, ["seq_chain", "seq_misc", "two_execs", "start_routes", "par2", "par_pass_task", "map_items"], SPLIT)
