"""C11 - all observability surfaces tell the same story about an execution."""
import vf; vf.setup_paths()
import s2_scenarios as scn
import vh_c02

PROPERTY = "C11"
ASSUMPTIONS = vh_c02.ASSUMPTIONS[:4] + [
    "monitor after every step: DescribeExecution record, latest notification and last history event agree on status/input/output/error; subject == '<stateMachineArn>.<status>'; CloudWatch envelope keys present; each status published once; notification dates are int(seconds*1000) while the stored record keeps float epoch seconds; EXPRESS stores nothing",
]
SPLIT = {"par2": [("_none", "not fa and not fb"), ("_a", "fa and not fb")],
         "map_items": [("_ok", "failing == -1")]}
scn.register(globals(), {"C11", "C09"}, ["seq_chain", "seq_misc", "exec_timeout", "two_execs", "start_routes", "par2", "par_pass_task", "map_items"], SPLIT)
import s2_more as more
more.register(globals(), {"C11", "C09"}, ["par3_mixed", "map_iter_catch", "map_fail_batches", "map_in_par", "par_in_map", "branch_fail_state", "par_longform", "nested_inner_catch"],
              {"nested_inner_catch": [("_catch", "mode == 0 and q2 == 0"), ("_retry", "mode == 1 and q2 == 0"), ("_catch_task", "mode == 0 and q2 == 1"), ("_retry_task", "mode == 1 and q2 == 1")], "par3_mixed": [("_none", "not fa and not fb"), ("_a", "fa and not fb"), ("_b", "fb and not fa"), ("_ab", "fa and fb")], "map_in_par": [("_k%d" % k, "kind == %d" % k) for k in range(3)]})

import s2_redis as rds
rds.register(globals(), {"C11", "C09", "C02"}, ["redis_chain", "redis_name_reused"])
ASSUMPTIONS = ASSUMPTIONS + [
    "redis_* conditions: the engine's stores are the real RedisDictStore/RedisListStore over vf.fake_redis (one connection per process, tracker thread not run: cache invalidation messages are delivered by the harness before each read, or left pending); after every scheduling step DescribeExecution, GetExecutionHistory and ListExecutions are answered by the real REST handlers (asyncio / blocking front end) of the engine's own process or of a second process with its own connection, and compared with the execution's latest notification",
]
globals()["nested_inner_catch_retry_task"]._vf.tiers = ("thorough",)   # 1665 schedules: quick tier runs it under C06 only


# ---------------------------------------------------------------------------
# One-step kernel (Engine A): broadcast_notification
# ---------------------------------------------------------------------------
from vf.api import condition
from vf import stubs
from vf.stubs import pick

SECONDS = [1_700_000_000.0, 1_700_000_000.25, 0.5, 1e-3, 12345.678]


@condition(timeout={"quick": 120, "thorough": 300}, functions=["StateEngine.broadcast_notification (ms conversion, record restored, subject, envelope, account/region)"])
def notification_kernel(si: int, ti: int, has_stop: int, status: int, whole: int, ri: int) -> bool:
    """
    requires: 0 <= si < 5 and 0 <= ti < 5 and 0 <= has_stop < 3 and 0 <= status < 3 and 0 <= whole < 3 and 0 <= ri < 2
    ensures: _
    """
    eng, log = stubs.make_engine({"StartAt": "P", "States": {"P": {"Type": "Succeed"}}})
    region = pick(["local", "eu-west-1"], ri)
    sm = "arn:aws:states:%s:0123456789:stateMachine:m" % region
    ex = "arn:aws:states:%s:0123456789:execution:m:e1" % region
    whole = pick([0, 1, 86400], whole)               # floats stay concrete (CrossHair's real-valued floats cannot close)
    start = pick(SECONDS, si) + whole
    stop = pick([None, 0, "x"], has_stop)
    if stop == "x":
        stop = pick(SECONDS, ti) + whole
    st = pick(["RUNNING", "SUCCEEDED", "FAILED"], status)
    detail = {"executionArn": ex, "input": "{}", "name": "e1", "output": None, "startDate": start, "stateMachineArn": sm, "status": st, "stopDate": stop}
    before = dict(detail)
    eng.broadcast_notification(ex, detail, {"Tracer": {}})
    bcs = [l for l in log if l[0] == "broadcast"]
    if len(bcs) != 1 or detail != before or type(detail["startDate"]) is not type(before["startDate"]):
        return False
    _, subject, cw = bcs[0]
    d = cw["detail"]
    if subject != sm + "." + st or cw["account"] != "0123456789" or cw["region"] != region or cw["resources"] != [ex]:
        return False
    for k in ("version", "id", "detail-type", "source", "time"):
        if k not in cw:
            return False
    if d["startDate"] != int(start * 1000):
        return False
    if stop is None or stop == 0:
        return d["stopDate"] == stop
    return d["stopDate"] == int(stop * 1000)



@condition(timeout={"quick": 60, "thorough": 120}, functions=["StateEngine.broadcast_notification (the stored record when publishing fails)"])
def notification_failure_leaves_record(si: int, has_stop: bool, raises: bool) -> bool:
    """
    requires: 0 <= si < 5
    ensures: _
    """
    # "publishing it does not alter the stored record (which keeps epoch seconds)" - also when the send raises
    eng, log = stubs.make_engine({"StartAt": "P", "States": {"P": {"Type": "Succeed"}}})
    sm = "arn:aws:states:local:0123456789:stateMachine:m"
    ex = "arn:aws:states:local:0123456789:execution:m:e1"
    start = pick(SECONDS, si)
    detail = {"executionArn": ex, "input": "{}", "name": "e1", "output": None, "startDate": start, "stateMachineArn": sm,
              "status": "SUCCEEDED" if has_stop else "RUNNING", "stopDate": (start + 1.5) if has_stop else None}
    before = dict(detail)
    if raises:
        def boom(subject, item, carrier_properties=None):
            raise RuntimeError("connection lost")
        eng.event_dispatcher.broadcast = boom
    try:
        eng.broadcast_notification(ex, detail, {"Tracer": {}})
    except RuntimeError:
        if not raises:
            return False
    return detail == before and type(detail["startDate"]) is float


import vh_c16 as _c16


@condition(timeout={"quick": 60, "thorough": 120}, functions=["StateEngine.notify (history limit guard)", "update_execution_history", "end_execution"],
           note="the surfaces agree at the history limit too: the notification says FAILED/States.ExecutionHistoryLimitExceeded and the history's last event is that ExecutionFailed")
def surfaces_agree_at_history_limit(n: int, retried: bool) -> bool:
    """
    requires: 1 <= n <= 25004
    ensures: _
    """
    return _c16.history_limit_on_retry(n) if retried else _c16.history_limit(n)
