"""C20 - Stores act as dictionaries, persist definitions, and caches are never stale.

Unit: the real JSONStore / SimpleStore / RedisDictStore / RedisListStore classes and
the three factories of asl_workflow_engine/store.py, driven by symbolic OPERATION
SEQUENCES.  `redis`/`pottery` are the in-memory fakes of vf.fake_redis, the file
system is vf.memfs.MemFS, the tracker thread is replaced by harness-controlled
delivery of the queued invalidation messages.

Every step of a sequence is one symbolic int ("step code") that selects one row of
the family's table of alternatives (operation x key x value x instance); the oracle is
a plain dict per key-space (+ list append order, + a reference LRU list for the cache).
"""
import copy
import json as _json
import os as _os

import vf; vf.setup_paths()
from vf.api import condition
from vf import stubs, memfs
from vf import fake_redis as fr
from vf.stubs import pick

fr.install()                                   # before store.py imports redis / pottery
from asl_workflow_engine import store as st    # the REAL code
from crosshair.tracers import NoTracing

stubs.install_env(st)                          # silent logger, virtual time (time.sleep is a no-op)
st.threading = fr.FakeThreading                # the tracker thread is never started
FS = memfs.MemFS()
st.open = FS.open                              # `open` inside store.py -> in-memory files
st.os = FS.os_shim(st.os)                      # os.replace / os.remove inside store.py -> the same in-memory files

PROPERTY = "C20"
ASSUMPTIONS = [
    "redis / pottery are replaced by vf.fake_redis: keyspace of hashes and lists, DEL/EXISTS/EXPIRE/SCAN (one batch, cursor 0)/INFO/CLIENT ID/PUBLISH/SUBSCRIBE; RedisDict/RedisList are MutableMapping/MutableSequence views with JSON-encoded fields/elements; one fake Redis object = one logical connection (single-threaded redis-py pool)",
    "Redis client-side caching is modelled after https://redis.io/topics/client-side-caching (RESP2 redirect mode): keys named by read-only commands on a tracking connection are remembered (existing or not); a modification of a remembered key by anybody queues ONE invalidation for the redirect connection and forgets the key; CLIENT TRACKING ON REDIRECT re-issued on a connection replaces its redirect target; PUBLISH reaches every subscriber of the channel",
    "the tracker thread of RedisStore is not run (store.threading is a stub); queued Pub/Sub messages reach the store's handler only when the harness delivers them, oldest first, between operations - every placement of delivery between operations is explored, interleavings inside one store operation are not",
    "`open` in store.py's namespace is MemFS (text files; missing file -> FileNotFoundError; 'w' truncates at once, write() appends immediately); logger, time.sleep are stubs",
    "a restart / second engine instance on Redis is a new store object over a new connection (RedisStore.connection is deleted first) to the same fake server; a JSONStore restart is a new JSONStore over the same MemFS file",
    "Redis-backed stores follow the convention documented in the RedisStore docstring: Redis cannot hold an empty hash/list, so an empty dict/list value is the same as an absent key (reads give an empty view, membership/len/iteration do not list it) and updating through the view of an absent key creates it; the oracle follows that convention",
    "after the step codes have been decoded by explicit forks every value in the sequence conditions is concrete, so the sequence itself is executed with CrossHair's tracer suspended (NoTracing); the solver's job there is the exhaustive partition of the selector space. Conditions with genuinely symbolic data (file content, ttl, cached values) run fully traced",
    "values come from small pools of JSON dicts/lists; keys from a pool of 2 (3 for the LRU conditions)",
]

URL = "redis://fake:6379"
FILE = "ASL_store.json"
KEYS = ["k0", "arn:aws:states:local:0123456789:stateMachine:k1"]
KEYS3 = KEYS + ["k2"]
DVALS = [{"a": 1, "n": "old"}, {"b": {"x": [1, "s"]}, "c": None}, {}]
LVALS = [[{"id": 1}], [{"id": 1}, "two", 3], []]
DPREFIX = "asl_store"
LPREFIX = "execution_history"
READ_CMDS = ("EXISTS", "SCAN", "HGET", "HKEYS", "HLEN", "HGETALL", "HEXISTS", "LRANGE", "LLEN", "LINDEX")

# operation kinds
SET, NEST, DEL, REOPEN, CGET, DELIVER, SETI, APPEND, TTL, UPD, NOP = "set", "nested", "del", "reopen", "cget", "deliver", "seti", "append", "set_ttl", "update", "nop"


# ---------------------------------------------------------------------------
# environment helpers
# ---------------------------------------------------------------------------
def drop_conn():
    """Forget the class-level connection: the next RedisStore opens a new one
    (= another process / a restarted engine)."""
    try:
        del st.RedisStore.connection
    except AttributeError:
        pass


def fresh(version="6.2.0"):
    fr.SERVER.reset(version)
    FS.reset()
    drop_conn()
    stubs.SeqUUID.reset()


def noise():
    """Foreign keys on the same server: prefixes that extend / are extended by ours."""
    raw = fr.Redis()
    raw.hset("asl_storeX:k0", "f", "1")
    raw.hset("asl_store", "f", "1")
    raw.rpush("execution_history_old:k0", "1")
    raw.rpush("zz:" + KEYS[1], "1")


def prefix_of(kind):
    return DPREFIX if kind == "dict" else LPREFIX


def mk(kind, cap=None):
    """A store of the given kind.  Without `cap` the repository's factory is used."""
    if kind == "json":
        return st.create_ASL_store(FILE)
    if kind == "simple":
        return st.create_executions_store(FILE)
    if cap is None:
        return st.create_ASL_store(URL) if kind == "dict" else st.create_history_store(URL)
    cls = st.RedisDictStore if kind == "dict" else st.RedisListStore
    return cls(URL, prefix_of(kind), cache_size=cap)


def empty_of(kind):
    return {} if kind == "dict" else []


def stepval(kind, idx):
    """Step-determined value: distinct per step, alternating shape (so a replacement
    must drop the fields / elements of the previous value)."""
    if kind == "dict":
        return {"a": idx, "n": "old"} if idx % 2 == 0 else {"b": {"x": [idx]}}
    return [{"id": idx}] if idx % 2 == 0 else [idx, "two", {"id": idx}]


def native(kind, view):
    return dict(view) if kind == "dict" else list(view)


# ---------------------------------------------------------------------------
# observation = every read operation, compared with the oracle
# ---------------------------------------------------------------------------
def observe_plain(kind, s, model, where):
    before = copy.deepcopy(FS.files)
    for k in KEYS:
        want = model.get(k)
        if s.get(k) != want: return "%s: get(%s) = %r, last written %r" % (where, k, s.get(k), want)
        if s.get_cached_view(k) != want: return "%s: get_cached_view(%s) = %r, want %r" % (where, k, s.get_cached_view(k), want)
        if s.get_cached_view(k, "dflt") != model.get(k, "dflt"): return "%s: get_cached_view default" % where
        if (k in s) != (k in model): return "%s: contains(%s) = %r" % (where, k, k in s)
        try:
            got = s[k]; raised = False
        except KeyError:
            got = None; raised = True
        if raised != (k not in model) or got != want: return "%s: [%s] = %r / KeyError %r, want %r" % (where, k, got, raised, want)
        s.set_ttl(k, 5)
    if sorted(s) != sorted(model): return "%s: iteration %r, want %r" % (where, sorted(s), sorted(model))
    if sorted(s.keys()) != sorted(model): return "%s: keys()" % where
    if len(s) != len(model): return "%s: len %r, want %r" % (where, len(s), len(model))
    if dict(s.items()) != model: return "%s: items() %r, want %r" % (where, dict(s.items()), model)
    if FS.files != before: return "%s: a read operation changed the store file" % where
    return ""


def observe_redis(kind, s, model, where):
    mark = len(fr.SERVER.log)
    empty = empty_of(kind)
    for k in KEYS:
        want = model.get(k, empty)
        g = s.get(k)
        if g is None or native(kind, g) != want: return "%s: get(%s) = %r, last written %r" % (where, k, g, want)
        if bool(g) != (k in model): return "%s: truth of get(%s)" % (where, k)
        if not (g == want): return "%s: get(%s) == value is False (%r vs %r)" % (where, k, g, want)
        if native(kind, s[k]) != want: return "%s: [%s] = %r, want %r" % (where, k, s[k], want)
        if (k in s) != (k in model): return "%s: contains(%s) = %r" % (where, k, k in s)
    if sorted(s) != sorted(model): return "%s: iteration %r, want %r" % (where, sorted(s), sorted(model))
    if len(s) != len(model): return "%s: len %r, want %r" % (where, len(s), len(model))
    items = {k: native(kind, v) for k, v in s.items()}
    if items != model: return "%s: items() %r, want %r" % (where, items, model)
    for e in fr.SERVER.log[mark:]:
        if e[1] not in READ_CMDS: return "%s: a read operation issued %r" % (where, e)
    return ""


# ---------------------------------------------------------------------------
# runners (executed on concrete, decoded steps)
# ---------------------------------------------------------------------------
def run_plain(kind, steps):
    """JSONStore ('json') / SimpleStore ('simple'): mapping behaviour + reopen."""
    fresh()
    s = mk(kind)
    model = {}
    r = observe_plain(kind, s, model, "initially")
    if r: return r
    for idx, alt in enumerate(steps):
        op = alt[0]
        where = "after step %d %r" % (idx + 1, alt)
        if op == NOP:
            continue
        if op == SET:
            k = KEYS[alt[1]]
            s[k] = copy.deepcopy(DVALS[alt[2]])
            model[k] = copy.deepcopy(DVALS[alt[2]])
        elif op == NEST or op == UPD:
            k = KEYS[alt[1]]
            view = s.get(k)
            if (view is None) != (k not in model): return "%s: get(%s) presence" % (where, k)
            if view is not None:
                view["n"] = 100 + idx
                model[k]["n"] = 100 + idx
                if op == UPD:            # what aws_api_UpdateStateMachine does: get, mutate, re-assign
                    s[k] = view
        elif op == DEL:
            k = KEYS[alt[1]]
            try:
                del s[k]; raised = False
            except KeyError:
                raised = True
            if raised != (k not in model): return "%s: del raised KeyError = %r" % (where, raised)
            model.pop(k, None)
        elif op == REOPEN:
            s = mk(kind)
        r = observe_plain(kind, s, model, where)
        if r: return r
    return "ok"


def run_redis_map(kind, ninst, steps, stepvals=False):
    """RedisDictStore ('dict') / RedisListStore ('list') as a mapping, through one or
    two store instances (own connections) on the same server; alt = (op, inst, key, val)."""
    fresh(); noise()
    insts = [mk(kind)]
    if ninst == 2:
        drop_conn(); insts.append(mk(kind))
    model = {}
    ttls = {}          # prefixed key -> seconds (Redis keeps a ttl with the key until the key is deleted)
    pre = prefix_of(kind) + ":"
    pool = DVALS if kind == "dict" else LVALS
    for idx, alt in enumerate(steps):
        op = alt[0]
        where = "after step %d %r" % (idx + 1, alt)
        if op == NOP:
            continue
        s = insts[alt[1]]
        if op == SET or op == SETI:
            k = KEYS[alt[2]]
            v = stepval(kind, idx) if op == SETI else pool[alt[3]]
            s[k] = copy.deepcopy(v)
            if v: model[k] = copy.deepcopy(v)
            else: model.pop(k, None)
            ttls.pop(pre + k, None)        # replaced = deleted and re-created
        elif op == TTL:
            k = KEYS[alt[2]]
            s.set_ttl(k, 60 + idx)
            if k in model: ttls[pre + k] = 60 + idx
        elif op == NEST:
            k = KEYS[alt[2]]
            s.get(k)["n"] = 100 + idx
            model.setdefault(k, {})["n"] = 100 + idx
        elif op == APPEND:
            k = KEYS[alt[2]]
            s.get(k).append({"e": idx})
            model.setdefault(k, []).append({"e": idx})
        elif op == UPD:                  # get, mutate, re-assign the same view (aws_api_UpdateStateMachine)
            k = KEYS[alt[2]]
            view = s.get(k)
            if kind == "dict":
                view["n"] = 100 + idx
                model.setdefault(k, {})["n"] = 100 + idx
            else:
                view.append({"e": idx})
                model.setdefault(k, []).append({"e": idx})
            s[k] = view
        elif op == DEL:
            k = KEYS[alt[2]]
            try:
                del s[k]
            except KeyError:
                if k in model: return "%s: del of a present key raised KeyError" % where
            model.pop(k, None)
            ttls.pop(pre + k, None)
        elif op == REOPEN:
            drop_conn()
            insts[alt[1]] = mk(kind)
        if fr.SERVER.expiry != ttls: return "%s: time-to-live of the keys %r, want %r" % (where, fr.SERVER.expiry, ttls)
        for j, inst in enumerate(insts):
            r = observe_redis(kind, inst, model, where + " via instance %d" % j)
            if r: return r
    insts = None
    return "ok"


class LRU:
    """Reference LRU (keys, least recently used first)."""
    def __init__(self, cap):
        self.cap = cap; self.keys = []

    def touch(self, k):
        if k in self.keys:
            self.keys.remove(k); self.keys.append(k); return True
        self.keys.append(k)
        if len(self.keys) > self.cap:
            self.keys.pop(0)
        return False

    def drop(self, k):
        if k in self.keys: self.keys.remove(k)


def deliver_one(s, kind, lru):
    """Deliver the oldest queued Pub/Sub message of store `s`'s tracker connection."""
    tid = s.tracker_id
    if tid is None:
        return ""
    q = fr.SERVER.pending.get(tid)
    if not q:
        return ""
    data = q[0]["data"]
    try:
        fr.SERVER.deliver(tid)
    except Exception as e:
        return "the invalidation handler raised %s: %s on message data %r (the listener thread would die and the cache stay stale)" % (type(e).__name__, e, data)
    if lru is not None and isinstance(data, list):
        pre = prefix_of(kind) + ":"
        for kb in data:
            ks = kb.decode("utf-8")
            lru.drop(ks[len(pre):] if ks.startswith(pre) else ks)
    return ""


def check_cget(s, kind, k, model, lru, where, cap):
    got = s.get_cached_view(k)
    want = model.get(k, empty_of(kind))
    if type(got) is not type(want): return "%s: cached view is a %s, not a native %s" % (where, type(got).__name__, type(want).__name__)
    owed = fr.SERVER.owed(s.tracker_id, prefix_of(kind) + ":" + k)
    if not owed and got != want:
        return "%s: get_cached_view(%s) = %r but the current value is %r and no invalidation for it is outstanding" % (where, k, got, want)
    lru.touch(k)
    if len(s.cache) > cap: return "%s: cache holds %d > %d entries" % (where, len(s.cache), cap)
    if list(s.cache) != lru.keys: return "%s: cache order %r, reference LRU %r" % (where, list(s.cache), lru.keys)
    return ""


def write_op(w, kind, op, k, idx, model):
    if op == SETI:
        v = stepval(kind, idx)
        w[k] = copy.deepcopy(v); model[k] = copy.deepcopy(v)
    elif op == NEST:
        w.get(k)["n"] = 100 + idx
        model.setdefault(k, {})["n"] = 100 + idx
    elif op == APPEND:
        w.get(k).append({"e": idx})
        model.setdefault(k, []).append({"e": idx})
    elif op == DEL:
        del w[k]
        model.pop(k, None)


def drain_and_compare(readers, kind, model, lrus, cap, keys):
    """Once everything owed has been delivered every cached view is current."""
    for j, s in enumerate(readers):
        if s.tracker_id is None:
            continue
        while fr.SERVER.n_pending(s.tracker_id):
            r = deliver_one(s, kind, lrus[j])
            if r: return r
        for k in keys:
            r = check_cget(s, kind, k, model, lrus[j], "after all deliveries, instance %d" % j, cap)
            if r: return r
    return ""


def run_cache(kind, other, steps, cap=2, keys=KEYS):
    """One caching reader A; the writer is A itself (other=False) or a second,
    non-caching instance on its own connection.  alt = (op, key)."""
    fresh(); noise()
    a = mk(kind, cap)
    w = a
    if other:
        drop_conn(); w = mk(kind)
    model = {}
    lru = LRU(cap)
    for idx, alt in enumerate(steps):
        op = alt[0]
        where = "step %d %r" % (idx + 1, alt)
        if op == NOP:
            continue
        if op == CGET:
            r = check_cget(a, kind, keys[alt[1]], model, lru, where, cap)
            if r: return r
        elif op == DELIVER:
            r = deliver_one(a, kind, lru)
            if r: return r
        else:
            write_op(w, kind, op, keys[alt[1]], idx, model)
        if a.cache is not None and list(a.cache) != lru.keys:
            return "%s: cache order %r, reference LRU %r" % (where, list(a.cache), lru.keys)
    r = drain_and_compare([a], kind, model, [lru], cap, keys)
    a = w = None
    return r or "ok"


def run_cache_two(kind, steps, cap=2):
    """Two caching instances (own connections); alt = (op, inst, key).  REOPEN(i)
    stops instance i (RedisStore.stop(), what its destructor does) and replaces it by
    a new instance on a new connection."""
    fresh(); noise()
    insts = [mk(kind, cap)]
    drop_conn(); insts.append(mk(kind, cap))
    lrus = [LRU(cap), LRU(cap)]
    model = {}
    for idx, alt in enumerate(steps):
        op = alt[0]
        where = "step %d %r" % (idx + 1, alt)
        if op == NOP:
            continue
        i = alt[1]
        if op == CGET:
            r = check_cget(insts[i], kind, KEYS[alt[2]], model, lrus[i], where, cap)
            if r: return r
        elif op == DELIVER:
            r = deliver_one(insts[i], kind, lrus[i])
            if r: return r
        elif op == REOPEN:
            insts[i].stop()
            drop_conn()
            insts[i] = mk(kind, cap); lrus[i] = LRU(cap)
        else:
            write_op(insts[i], kind, op, KEYS[alt[2]], idx, model)
    r = drain_and_compare(insts, kind, model, lrus, cap, KEYS)
    insts = None
    return r or "ok"


def run_shared_connection(steps, cap=2):
    """Two caching stores of ONE process: they share RedisStore.connection (class
    attribute) and use different prefixes, like asl_store / executions in the engine.
    alt = (op, store)."""
    fresh()
    a = st.RedisDictStore(URL, "asl_store", cache_size=cap)
    b = st.RedisDictStore(URL, "executions", cache_size=cap)
    stores = [a, b]; prefixes = ["asl_store", "executions"]
    models = [{}, {}]
    k = KEYS[0]
    for idx, alt in enumerate(steps):
        op = alt[0]
        where = "step %d %r" % (idx + 1, alt)
        if op == NOP:
            continue
        i = alt[1]
        if op == SETI:
            v = stepval("dict", idx)
            stores[i][k] = copy.deepcopy(v); models[i][k] = v
        elif op == CGET:
            stores[i].get_cached_view(k)
    # deliver everything to whoever it is addressed to, then both caches must be current
    for tid in list(fr.SERVER.pending):
        while fr.SERVER.n_pending(tid):
            try:
                fr.SERVER.deliver(tid)
            except Exception as e:
                return "handler raised %s: %s" % (type(e).__name__, e)
    for i in (0, 1):
        got = stores[i].get_cached_view(k)
        if got != models[i].get(k, {}):
            return "store %r: get_cached_view = %r, current value %r, every queued invalidation has been delivered" % (prefixes[i], got, models[i].get(k, {}))
    stores = a = b = None
    return "ok"


def run_cache_disabled(mode, steps):
    """cache_size == 0 or a server older than 6.0: get_cached_view is a plain read."""
    fresh("5.0.7" if mode == 1 else "6.2.0")
    s = st.RedisDictStore(URL, DPREFIX, cache_size=(0 if mode == 0 else 4))
    model = {}
    for idx, alt in enumerate(steps):
        op = alt[0]
        if op == NOP:
            continue
        k = KEYS[alt[1]]
        if op == CGET:
            got = s.get_cached_view(k)
            if dict(got) != model.get(k, {}): return "step %d: get_cached_view(%s) = %r, want %r" % (idx + 1, k, got, model.get(k, {}))
        else:
            write_op(s, "dict", op, k, idx, model)
    if any(e[1] == "CLIENT" for e in fr.SERVER.log): return "tracking was switched on although the cache is disabled"
    if s.cache is not None or s.tracker_id is not None: return "cache state created although disabled"
    s = None
    return "ok"


# ---------------------------------------------------------------------------
# tables of alternatives (one row per value of a step code)
# ---------------------------------------------------------------------------
T_JSON = [(SET, 0, 0), (SET, 0, 1), (SET, 1, 0), (SET, 1, 1), (NEST, 0), (NEST, 1), (DEL, 0), (DEL, 1), (REOPEN,)]
T_SIMPLE = T_JSON[:-1]
T_JSON_UPD = [(SET, 0, 0), (SET, 1, 1), (UPD, 0), (UPD, 1), (NEST, 0), (DEL, 0), (REOPEN,)]


def _t_redis_upd(kind):
    upd = NEST if kind == "dict" else APPEND
    return [(SET, 0, 0, 0), (SET, 0, 1, 1), (UPD, 0, 0), (UPD, 0, 1), (upd, 0, 0), (DEL, 0, 0), (REOPEN, 0)]


def _t_redis1(kind, nvals):
    upd = NEST if kind == "dict" else APPEND
    t = [(SET, 0, k, v) for k in (0, 1) for v in range(nvals)]
    t += [(upd, 0, 0), (upd, 0, 1), (DEL, 0, 0), (DEL, 0, 1), (REOPEN, 0)]
    if nvals == 3:
        t += [(TTL, 0, 0), (TTL, 0, 1)]
    return t


def _t_redis2(kind):
    upd = NEST if kind == "dict" else APPEND
    t = []
    for i in (0, 1):
        t += [(SETI, i, 0), (SETI, i, 1), (upd, i, 0), (upd, i, 1), (DEL, i, 0), (DEL, i, 1), (REOPEN, i)]
    return t


def _t_cache(kind, nkeys=2, dels=True):
    upd = NEST if kind == "dict" else APPEND
    t = [(SETI, k) for k in range(nkeys)]
    if dels:
        t += [(upd, k) for k in range(nkeys)] + [(DEL, k) for k in range(nkeys)]
    return t + [(CGET, k) for k in range(nkeys)] + [(DELIVER,)]


def _t_two(reopen):
    t = []
    for i in (0, 1):
        t += [(CGET, i, 0), (CGET, i, 1), (SETI, i, 0), (SETI, i, 1), (DELIVER, i)]
        if reopen:
            t.append((REOPEN, i))
    return t


T_SHARED = [(CGET, 0), (CGET, 1), (SETI, 0), (SETI, 1)]
T_DISABLED = [(SETI, 0), (SETI, 1), (NEST, 0), (DEL, 0), (CGET, 0), (CGET, 1)]


def sel(table, c):
    """Concrete row of `table` chosen by the symbolic step code `c`: binary search with
    an explicit fork per comparison, so the row is concrete on every path.  Codes are
    clamped (c <= 0 is the first row, c >= len-1 the last), so every int is a valid
    code and no range precondition has to be re-evaluated on every path."""
    lo, hi = 0, len(table)
    while hi - lo > 1:
        mid = (lo + hi) // 2
        if c < mid:
            hi = mid
        else:
            lo = mid
    return table[lo]


FAMILY = {}     # condition name -> (table, rows allowed in the first step, N quick, N thorough)
_MEMO = [None]


def steps_of(name, c1, c2, c3, c4, c5):
    """Decode the step codes of sequence condition `name` for the current tier: the
    first code selects among the rows of the condition's group, the next N-1 codes
    among all rows of the family's table; codes beyond N are not looked at."""
    m = _MEMO[0]
    if m is not None and m[0] == name and m[1] is c1 and m[2] is c2 and m[3] is c3 and m[4] is c4 and m[5] is c5:
        return m[6]
    table, first, nq, nt = FAMILY[name]
    n = nq if vf.tier() == "quick" else nt
    cs = [c1, c2, c3, c4, c5]
    steps = [sel(first, c1)] + [sel(table, c) for c in cs[1:n]]
    _MEMO[0] = (name, c1, c2, c3, c4, c5, steps)
    return steps


def json_nested_lost(name, c1, c2, c3, c4, c5):
    """The sequence re-opens the JSON store while a nested update made through a
    returned view has not been followed by a re-assignment / deletion of that key."""
    dirty = [False, False]
    present = [False, False]
    for alt in steps_of(name, c1, c2, c3, c4, c5):
        op = alt[0]
        if op == SET:
            present[alt[1]] = True; dirty[alt[1]] = False
        elif op == DEL:
            present[alt[1]] = False; dirty[alt[1]] = False
        elif op == NEST:
            if present[alt[1]]: dirty[alt[1]] = True
        elif op == UPD:
            dirty[alt[1]] = False
        elif op == REOPEN:
            if dirty[0] or dirty[1]: return True
    return False


def restart_while_both_track(c1, c2, c3, c4, c5):
    """Some instance is stopped/re-opened while it and the other instance both have
    tracking switched on (each has made a cached read since it was opened)."""
    tracking = [False, False]
    for alt in steps_of("rdict_cache_two_readers_restart", c1, c2, c3, c4, c5):
        if alt[0] == CGET:
            tracking[alt[1]] = True
        elif alt[0] == REOPEN:
            if tracking[0] and tracking[1]: return True
            tracking[alt[1]] = False
    return False


def both_stores_cache(c1, c2, c3, c4, c5):
    """Both stores of the process have made a cached read (so both issued CLIENT
    TRACKING ON REDIRECT on the shared connection)."""
    seen = [False, False]
    for alt in steps_of("rstore_cache_shared_connection", c1, c2, c3, c4, c5):
        if alt[0] == CGET:
            seen[alt[1]] = True
    return seen[0] and seen[1]


T_TWO = _t_two(False)
T_TWO_R = _t_two(True)


# ---------------------------------------------------------------------------
# generator for the sequence conditions
# ---------------------------------------------------------------------------
def _make_cond(name, runner):
    def cond(c1: int, c2: int, c3: int, c4: int, c5: int) -> str:
        steps = steps_of(name, c1, c2, c3, c4, c5)
        with NoTracing():
            return runner(steps)
    return cond


def seq_family(name, table, runner, nq, nt, groups, functions, outside=(), extra=(), tq=150, tt=1500):
    """Register `groups` conditions that together cover all sequences over `table`
    of length nq (quick) / nt (thorough) - every step is checked, so shorter
    sequences are covered as prefixes; group g fixes the rows allowed in step 1."""
    m = len(table)
    cuts = [round(g * m / groups) for g in range(groups + 1)]
    for g in range(groups):
        lo, hi = cuts[g], cuts[g + 1]
        cname = name if groups == 1 else "%s_g%d" % (name, g)
        FAMILY[cname] = (table, table[lo:hi], nq, nt)
        cond = _make_cond(cname, runner)
        doc = ["requires: " + e.replace("$NAME", repr(cname)) for e in extra] or ["requires: True"]
        doc += ['ensures: _ == "ok"']
        cond.__doc__ = "\n".join(doc)
        cond.__name__ = cond.__qualname__ = cname
        info = lambda n: {"N": n, "rows": m, "first_step_rows": "%d..%d" % (lo, hi - 1), "sequences": (hi - lo) * m ** (n - 1)}
        fn = condition(timeout={"quick": tq, "thorough": tt}, bounds={"quick": info(nq), "thorough": info(nt)},
                       functions=functions, outside=list(outside),
                       note="step codes c1..cN select rows of the table by clamped binary search (sel); rows: %r" % (table,))(cond)
        globals()[cname] = fn


_O_REDIS = ["real Redis servers (versions, eviction, key expiry as time passes, network failures), pottery's own correctness and redis-py's connection pool - replaced by the contract in vf/fake_redis.py",
            "interleavings inside one store operation (RedisDictStore/RedisListStore.__setitem__ is DEL followed by HSET/RPUSH: another client can see the key missing in between) and thread scheduling of the tracker thread"]

# (1)+(2) mapping behaviour and persistence -----------------------------------
seq_family("json_seq", T_JSON, lambda s: run_plain("json", s), 4, 5, 3,
           ["JSONStore.__init__ (load)", "JSONStore.__getitem__/__setitem__/__delitem__/__iter__/__len__/__contains__", "JSONStore._update_store",
            "JSONStore.set_ttl", "JSONStore.get_cached_view", "create_ASL_store (file URL)"],
           outside=["JSONStore: a nested update made through a returned view that is never followed by re-assignment/deletion of the key, then a re-open (only __setitem__/__delitem__ write the file; the REST API always re-assigns after mutating - aws_api_UpdateStateMachine). The same-instance read-back of such an update IS checked",
                    "two live JSONStore objects over one file (documented as a single-instance store)"],
           extra=["not json_nested_lost($NAME, c1, c2, c3, c4, c5)"])
seq_family("json_seq_api_update", T_JSON_UPD, lambda s: run_plain("json", s), 4, 5, 1,
           ["JSONStore.__setitem__ with the (mutated) object returned by get() - the get/mutate/re-assign pattern of aws_api_UpdateStateMachine", "JSONStore._update_store"],
           extra=["not json_nested_lost($NAME, c1, c2, c3, c4, c5)"])
seq_family("simple_seq", T_SIMPLE, lambda s: run_plain("simple", s), 3, 4, 1,
           ["SimpleStore (dict subclass) mapping operations, set_ttl, get_cached_view", "create_executions_store (non-redis URL)"])
for _kind, _nm in (("dict", "rdict"), ("list", "rlist")):
    _cls = "RedisDictStore" if _kind == "dict" else "RedisListStore"
    _fns = [_cls + ".__getitem__/__setitem__", "RedisStore.__init__/get_connection/__delitem__/__len__/__iter__/__contains__/_remove_prefix",
            "create_ASL_store / create_history_store (redis URL)"]
    _nt = 5 if _kind == "dict" else 4     # the list store shares every RedisStore method with the dict store: one step shallower in the thorough tier
    seq_family(_nm + "_seq", _t_redis1(_kind, 2), lambda s, k=_kind: run_redis_map(k, 1, s), 4, _nt, 3, _fns, outside=_O_REDIS)
    seq_family(_nm + "_seq_api_update", _t_redis_upd(_kind), lambda s, k=_kind: run_redis_map(k, 1, s), 4, _nt, 1,
               [_cls + ".__setitem__ with the view returned by get() (same key: no-op, the view already wrote through)"])
    seq_family(_nm + "_seq_emptyvals_ttl", _t_redis1(_kind, 3), lambda s, k=_kind: run_redis_map(k, 1, s), 3, _nt - 1, 1, _fns + ["RedisStore.set_ttl"],
               outside=["Redis-backed stores: an empty dict/list value is indistinguishable from an absent key (documented Redis limitation); the oracle follows that, it does not demand `k in store` after `store[k] = {}`"])
    seq_family(_nm + "_seq_two_instances", _t_redis2(_kind), lambda s, k=_kind: run_redis_map(k, 2, s), 3, _nt - 1, 2, _fns, outside=_O_REDIS)

# (3) cache coherence -----------------------------------------------------------
_C_FNS = ["RedisStore.get_cached_view", "RedisStore._write_to_cache", "RedisStore._start_tracking", "RedisStore._cache_invalidation_handler", "RedisStore._remove_prefix"]
seq_family("rdict_cache_self", _t_cache("dict"), lambda s: run_cache("dict", False, s), 4, 5, 3, _C_FNS, outside=_O_REDIS)
seq_family("rdict_cache_other_writer", _t_cache("dict"), lambda s: run_cache("dict", True, s), 4, 4, 3, _C_FNS, outside=_O_REDIS)
seq_family("rlist_cache_self", _t_cache("list"), lambda s: run_cache("list", False, s), 3, 4, 1, _C_FNS)
seq_family("rlist_cache_other_writer", _t_cache("list"), lambda s: run_cache("list", True, s), 3, 4, 1, _C_FNS)
seq_family("rdict_cache_two_readers", T_TWO, lambda s: run_cache_two("dict", s), 3, 4, 1, _C_FNS)
seq_family("rdict_cache_two_readers_restart", T_TWO_R, lambda s: run_cache_two("dict", s), 3, 4, 1, _C_FNS + ["RedisStore.stop"])
seq_family("rdict_cache_lru_cap1", _t_cache("dict", 3, False), lambda s: run_cache("dict", False, s, 1, KEYS3), 4, 4, 1, _C_FNS)
seq_family("rdict_cache_lru_cap2", _t_cache("dict", 3, False), lambda s: run_cache("dict", False, s, 2, KEYS3), 4, 5, 1, _C_FNS)
seq_family("rstore_cache_shared_connection", T_SHARED, run_shared_connection, 4, 5, 1, _C_FNS + ["RedisStore.get_connection (class-level connection)"])
seq_family("rdict_cache_disabled_size0", T_DISABLED, lambda s: run_cache_disabled(0, s), 3, 4, 1, ["RedisStore.get_cached_view (cache_size == 0)"])
seq_family("rdict_cache_disabled_old_server", T_DISABLED, lambda s: run_cache_disabled(1, s), 3, 4, 1, ["RedisStore.get_cached_view (redis_version < 600)", "RedisStore.__init__ (version parsing)"],
           outside=["version strings other than '5.0.7' / '6.2.0' (int('5.0.14'.replace('.', '')) = 5014 >= 600 would be taken for a 6.x server)"])


# ---------------------------------------------------------------------------
# (3) LRU one-step invariant from an arbitrary cache content (fully traced)
# ---------------------------------------------------------------------------
@condition(timeout={"quick": 120, "thorough": 600},
           functions=["RedisStore.get_cached_view (hit: move_to_end; miss: _write_to_cache + eviction of the oldest)"])
def cache_lru_one_step(n: int, a: int, b: int, k: int, x: int, y: int) -> str:
    """
    requires: 0 <= n <= 2 and 0 <= a < 3 and 0 <= b < 3 and a != b and 0 <= k < 3
    ensures: _ == "ok"
    """
    fresh()
    s = st.RedisDictStore(URL, DPREFIX, cache_size=2)
    for j in range(3):
        s[KEYS3[j]] = {"cur": j}
    s.get_cached_view(KEYS3[0])                 # starts tracking
    s.cache.clear()
    ka = pick(KEYS3, a); kb = pick(KEYS3, b); kk = pick(KEYS3, k)
    content = []
    if n >= 1: content.append((ka, {"v": x}))
    if n >= 2: content.append((kb, {"v": y}))
    for ck, cv in content:
        s.cache[ck] = cv                        # arbitrary (possibly stale) content, LRU first
    before = [ck for ck, _ in content]
    hit = kk in before
    got = s.get_cached_view(kk)
    after = list(s.cache)
    if len(after) > 2: return "cache holds %d entries" % len(after)
    if not after or after[-1] != kk: return "the key just read is not the most recently used: %r" % (after,)
    if hit:
        if got is not dict(content)[kk]: return "hit did not return the cached object"
        if after != [c for c in before if c != kk] + [kk]: return "hit changed the order of the other entries: %r -> %r" % (before, after)
    else:
        if got != {"cur": k}: return "miss returned %r" % (got,)
        want = before + [kk]
        if len(want) > 2: want = want[1:]
        if after != want: return "miss: %r -> %r, want %r" % (before, after, want)
    s = None
    return "ok"


# ---------------------------------------------------------------------------
# (2) unreadable store file
# ---------------------------------------------------------------------------
def json_kind(content):
    """'object' | 'nonobject' | 'invalid' according to Python's json (trusted)."""
    try:
        v = _json.loads(content)
    except ValueError:
        return "invalid"
    return "object" if isinstance(v, dict) else "nonobject"


def starts_usable(content, expect_loaded):
    """Construct a JSONStore over a file with the given content; it must not raise,
    must show the loaded object (or be empty) and must then work as a store."""
    fresh()
    FS.files[FILE] = content
    try:
        s = st.JSONStore(FILE)
        have = dict(s.items())
        n = len(s)
        absent = KEYS[0] not in s
        s[KEYS[0]] = {"v": 1}
        back = st.JSONStore(FILE).get(KEYS[0])
    except Exception as e:
        return "raised %s: %s" % (type(e).__name__, e)
    if expect_loaded is None:
        if have != {} or n != 0 or not absent: return "store over an unreadable file is not empty: %r" % (have,)
    elif have != expect_loaded:
        return "loaded %r, file holds %r" % (have, expect_loaded)
    if back != {"v": 1}: return "store not usable after start: read back %r" % (back,)
    return "ok"


ALPHABET = '{}[]":,0a -'
TEXTS = ["null", "true", "false", "-1.5", '"x"', "[]", '[{"a": 1}]', " 7 ",                       # valid JSON, not an object
         "{'k': 1}", "{\"k0\": {\"a\": 1},}", "\ufeff{}", "nul", "{\"k0\": tru}", "{\"k0\": {\"a\": 1}} x",   # not JSON / lenient JSON
         "{\"k0\": {\"a\": 1}}", " {\"k0\": 1, \"k0\": {\"v\": 2}}\n"]                                   # objects


def file_text(content, pool):
    return content if pool < 0 else pick(TEXTS, pool)


def nonobject_file(content, pool):
    """The store file holds valid JSON that is not an object (null, a number, a string, a list)."""
    return json_kind(file_text(content, pool)) == "nonobject"


@condition(timeout={"quick": 150, "thorough": 900}, bounds={"quick": {"N": 2}, "thorough": {"N": 3}},
           functions=["JSONStore.__init__ (IOError / ValueError handling, file holding JSON that is not an object)", "JSONStore._update_store"],
           outside=["store files longer than the tier bound with arbitrary text (a pool of longer texts and every prefix of real store files are covered: TEXTS, json_truncated_file)",
                    "I/O errors other than a missing file; deeply nested text that exhausts the recursion limit"])
def json_unreadable_file(content: str, pool: int) -> str:
    """
    requires: -1 <= pool < len(TEXTS) and len(content) <= @N@ and all(ch in ALPHABET for ch in content)
    requires: pool < 0 or content == ""
    ensures: _ == "ok"
    """
    text = file_text(content, pool)
    loaded = _json.loads(text) if json_kind(text) == "object" else None
    return starts_usable(text, loaded)


FULL = [{KEYS[0]: DVALS[0], KEYS[1]: DVALS[1]}, {KEYS[0]: {"definition": {"StartAt": "S", "States": {"S": {"Type": "Succeed"}}}, "name": "m"}}]
FULL_TEXT = [_json.dumps(d) for d in FULL]
MAXLEN = max(len(t) for t in FULL_TEXT)


@condition(timeout={"quick": 120, "thorough": 600},
           functions=["JSONStore.__init__ after an interrupted _update_store (file = prefix of the JSON text)"])
def json_truncated_file(which: int, cut: int) -> str:
    """
    requires: 0 <= which < 2 and 0 <= cut <= MAXLEN
    ensures: _ == "ok"
    """
    text = pick(FULL_TEXT, which)
    doc = pick(FULL, which)
    n = pick(list(range(MAXLEN + 1)), cut)
    with NoTracing():
        if n >= len(text):
            return starts_usable(text, doc)
        return starts_usable(text[:n], None)


CRASH_OPS = ["add a second definition", "replace the stored definition", "delete the stored definition"]
_BASE = {KEYS[0]: FULL[1][KEYS[0]]}
_AFTER = [dict(_BASE, **{KEYS[1]: {"definition": {"StartAt": "T", "States": {"T": {"Type": "Succeed"}}}, "name": "n"}}),
          {KEYS[0]: {"definition": {"StartAt": "U", "States": {"U": {"Type": "Succeed"}}}, "name": "m2"}}, {}]
CRASH_MAX = max(len(_json.dumps(d)) for d in _AFTER) + 1


def crash_during_write(op, cut, at_rename):
    """A definition is stored (write completed); the engine then dies while the NEXT write is in progress, after `cut`
    characters of it have reached the file system (or, at_rename, just before a rename that publishes it).  The
    restarted store must hold the state before or after the interrupted operation - what was written earlier must
    still be there."""
    fresh()
    s = st.JSONStore(FILE)
    s[KEYS[0]] = copy.deepcopy(_BASE[KEYS[0]])
    before = copy.deepcopy(_BASE); after = copy.deepcopy(_AFTER[op])
    FS.crash_after = cut
    FS.crash_at_replace = at_rename
    crashed = False
    try:
        if op == 0: s[KEYS[1]] = copy.deepcopy(after[KEYS[1]])
        elif op == 1: s[KEYS[0]] = copy.deepcopy(after[KEYS[0]])
        else: del s[KEYS[0]]
    except memfs.Crash:
        crashed = True
    FS.crash_after = None; FS.crash_at_replace = False
    try:
        r = st.JSONStore(FILE)
        have = {k: r[k] for k in r}
    except Exception as e:
        return "restart raised %s: %s" % (type(e).__name__, e)
    if not crashed:
        return "ok" if have == after else "after the completed operation the restarted store holds %r" % (have,)
    if have != before and have != after:
        return "C20 the engine died %d characters into the write of '%s': the restarted store holds %r, neither the state before (%r) nor after the operation" % (cut, CRASH_OPS[op], have, sorted(before))
    return "ok"


@condition(timeout={"quick": 120, "thorough": 600},
           functions=["JSONStore._update_store (an interrupted write)", "JSONStore.__init__ (restart)"],
           outside=["torn writes below the granularity of a character; a crash of the file system itself (the rename is taken as atomic, as POSIX rename and os.replace are)"],
           note="crash point = number of characters of the next write that reached the file system (symbolic), or the moment before the publishing rename")
def json_crash_during_write(op: int, cut: int, at_rename: bool) -> str:
    """
    requires: 0 <= op < 3 and 0 <= cut <= CRASH_MAX
    ensures: _ == "ok"
    """
    o = pick([0, 1, 2], op)
    n = pick(list(range(CRASH_MAX + 1)), cut)
    ar = True if at_rename else False
    with NoTracing():
        return crash_during_write(o, n, ar)


# ---------------------------------------------------------------------------
# (4) time-to-live
# ---------------------------------------------------------------------------
TTL_KEYS = KEYS + ["arn:aws:states:local:0123456789:execution:m:e1", ""]


@condition(timeout={"quick": 120, "thorough": 600},
           functions=["RedisStore.set_ttl", "JSONStore.set_ttl", "SimpleStore.set_ttl"],
           outside=["expiry itself (the fake records EXPIRE and keeps the ttl with the key; keys never expire because virtual time does not advance)"])
def set_ttl_issues_expire(kind: int, ki: int, exists: bool, ttl: int) -> str:
    """
    requires: 0 <= kind < 4 and 0 <= ki < 4
    ensures: _ == "ok"
    """
    fresh(); noise()
    key = pick(TTL_KEYS, ki)
    if kind == 0: s = st.create_executions_store(URL); pre = "executions"; val = DVALS[0]
    elif kind == 1: s = st.create_history_store(URL); pre = "execution_history"; val = LVALS[1]
    elif kind == 2: s = st.JSONStore(FILE); pre = None; val = DVALS[0]
    else: s = st.SimpleStore(); pre = None; val = DVALS[0]
    if exists:
        s[key] = copy.deepcopy(val)
    mark = len(fr.SERVER.log)
    files = dict(FS.files)
    s.set_ttl(key, ttl)
    new = fr.SERVER.log[mark:]
    if pre is None:
        if new or FS.files != files: return "set_ttl on a non-Redis store had an effect"
        return "ok" if (key in s) == exists else "set_ttl changed membership"
    if len(new) != 1: return "set_ttl issued %r" % (new,)
    e = new[0]
    if e[1] != "EXPIRE" or e[2] != pre + ":" + key or e[3] != ttl: return "set_ttl issued %r, want EXPIRE %s:%s %r" % (e, pre, key, ttl)
    full = pre + ":" + key
    if exists and ttl > 0:
        if fr.SERVER.expiry.get(full) != ttl: return "ttl not attached to the key"
        if native("dict" if kind == 0 else "list", s[key]) != val: return "value changed by set_ttl"
    elif exists:
        if key in s: return "EXPIRE with ttl <= 0 must delete the key"
    else:
        if fr.SERVER.expiry: return "ttl recorded for a key that does not exist"
    s = None
    return "ok"


ASL = {"StartAt": "S", "States": {"S": {"Type": "Pass", "End": True}}}


@condition(timeout={"quick": 150, "thorough": 600},
           functions=["StateEngine.start_execution (executions[...] = detail; set_ttl)", "StateEngine.update_execution_history (first append -> set_ttl)",
                      "create_executions_store / create_history_store (redis URL)"],
           outside=["EXPRESS workflows keep no execution records (checked: nothing is stored)", "execution_ttl <= 0 (Redis deletes the key at once)"])
def engine_records_get_ttl(ttl: int, express: bool, more: int) -> str:
    """
    requires: ttl >= 1 and 0 <= more <= 2
    ensures: _ == "ok"
    """
    fresh()
    eng, log = stubs.make_engine(ASL, "EXPRESS" if express else "STANDARD", ttl=ttl)
    eng.executions = st.create_executions_store(URL)
    eng.execution_history = st.create_history_store(URL)
    sm = eng.asl_store[stubs.SM_ARN]
    ev = {"data": {"x": 1}, "context": {"StateMachine": {"Id": stubs.SM_ARN}, "State": {}}}
    eng.start_execution(sm, "S", ev)
    arn = ev["context"]["Execution"]["Id"]
    for j in range(more):
        eng.update_execution_history(sm, arn, "PassStateEntered", {"input": "{}", "name": "S"})
    expires = [(e[2], e[3]) for e in fr.SERVER.log if e[1] == "EXPIRE"]
    ke = "executions:" + arn; kh = "execution_history:" + arn
    if express:
        ok = not expires and ke not in fr.SERVER.data and kh not in fr.SERVER.data
        return "ok" if ok else "EXPRESS execution left records %r" % (sorted(fr.SERVER.data),)
    if len(expires) != 2 or expires[0][0] != ke or expires[1][0] != kh: return "EXPIRE calls %r" % (expires,)
    if expires[0][1] != ttl or expires[1][1] != ttl: return "EXPIRE not issued with the configured execution_ttl"
    if fr.SERVER.expiry.get(ke) != ttl or fr.SERVER.expiry.get(kh) != ttl: return "record without the configured ttl: %r" % (fr.SERVER.expiry,)
    if dict(eng.executions[arn]).get("status") != "RUNNING": return "execution record not stored"
    hist = list(eng.execution_history[arn])
    if [h["id"] for h in hist] != list(range(1, more + 2)): return "history ids %r" % ([h["id"] for h in hist],)
    if hist[0]["type"] != "ExecutionStarted": return "history order"
    eng = None
    return "ok"


# ---------------------------------------------------------------------------
# factories
# ---------------------------------------------------------------------------
URLS = [URL, "redis://fake:6379?connection_attempts=3&retry_delay=0.5", FILE, "", "rediss.json"]
ENVV = [None, "true", "TRUE", "false", "1"]


@condition(timeout={"quick": 120, "thorough": 600},
           functions=["create_ASL_store", "create_executions_store", "create_history_store", "RedisStore.get_connection (URL options, retry)"])
def factories_choose_kind(u: int, de: int, dh: int, fails: int) -> str:
    """
    requires: 0 <= u < 5 and 0 <= de < 5 and 0 <= dh < 5 and 0 <= fails <= 2
    ensures: _ == "ok"
    """
    ui = pick([0, 1, 2, 3, 4], u)
    url = URLS[ui]; e = pick(ENVV, de); h = pick(ENVV, dh); nf = pick([0, 1, 2], fails)
    with NoTracing():
        fresh()
        if ui != 1: nf = 0
        fr.SERVER.ping_failures = nf
        saved = {n: _os.environ.get(n) for n in ("DISABLE_EXECUTIONS_STORE", "DISABLE_HISTORY_STORE")}
        try:
            for n, v in (("DISABLE_EXECUTIONS_STORE", e), ("DISABLE_HISTORY_STORE", h)):
                if v is None: _os.environ.pop(n, None)
                else: _os.environ[n] = v
            a = st.create_ASL_store(url); x = st.create_executions_store(url); y = st.create_history_store(url)
        finally:
            for n, v in saved.items():
                if v is None: _os.environ.pop(n, None)
                else: _os.environ[n] = v
        redis = ui < 2
        if redis:
            if type(a) is not st.RedisDictStore or a.key != "asl_store": return "ASL store %r" % (a,)
            if len({id(s.redis) for s in (a, x, y) if isinstance(s, st.RedisStore)}) != 1: return "stores of one process do not share the connection"
        elif type(a) is not st.JSONStore or a.json_store != url: return "ASL store %r" % (a,)
        want_x = redis and (e is None or e.lower() != "true")
        want_y = redis and (h is None or h.lower() != "true")
        if want_x:
            if type(x) is not st.RedisDictStore or x.key != "executions": return "executions store %r" % (x,)
        elif type(x) is not st.SimpleStore: return "executions store %r" % (x,)
        if want_y:
            if type(y) is not st.RedisListStore or y.key != "execution_history": return "history store %r" % (y,)
        elif type(y) is not st.SimpleStore: return "history store %r" % (y,)
        a = x = y = None
        return "ok"


@condition(timeout={"quick": 60, "thorough": 120}, functions=["StateEngine.restore_lost_execution / update_execution_history / end_execution over each kind of executions store (absent record)"])
def lost_record_is_restored(kind: int, via: int) -> bool:
    """
    requires: 0 <= kind < 2 and 0 <= via < 2
    ensures: _
    """
    # the execution's record is absent (engine restarted with a volatile store, or the record's time-to-live expired):
    # the engine recreates it lazily - with a store that answers an absent key with None (in-memory) and with one that
    # answers with an empty view (Redis)
    from asl_workflow_engine import state_engine as se
    fresh()
    asl = {"StartAt": "P", "States": {"P": {"Type": "Succeed"}}}
    eng, log = stubs.make_engine(asl)
    if kind == 1:
        eng.executions = st.create_executions_store(URL)
        eng.execution_history = st.create_history_store(URL)
    sm = eng.asl_store[stubs.SM_ARN]
    ev = stubs.running_event("P", {"Error": "Boom", "Cause": "c"})
    try:
        if via == 0:
            eng.update_execution_history(sm, stubs.EX_ARN, "PassStateEntered", {"input": "{}", "name": "P"})
        else:
            eng.end_execution(sm, "Pass", ev)
    except Exception:
        return False
    rec = eng.executions.get(stubs.EX_ARN)
    rec = rec.to_dict() if hasattr(rec, "to_dict") else rec
    if not rec or rec.get("executionArn") != stubs.EX_ARN or rec.get("stateMachineArn") != stubs.SM_ARN:
        return False
    return rec.get("status") == ("RUNNING" if via == 0 else "FAILED")
