"""C13 - Payload templates and intrinsic functions evaluate as specified, fail cleanly.

Unit: the real state_engine_paths.evaluate_payload_template (with its nested
evaluate_intrinsic_function / asl_intrinsic_* / evaluate / clone closures),
called with templates and intrinsic invocation strings assembled from symbolic
pieces.  Oracle: vf/ref/intrinsics.py (written from the States Language)."""
import vf; vf.setup_paths()
import copy, re as _re, json as _json, base64 as _b64
from vf.api import condition
from vf import stubs
from vf.ref import intrinsics as ref
from asl_workflow_engine import state_engine_paths as sep
from asl_workflow_engine.asl_exceptions import IntrinsicFailure, PathMatchFailure, ParameterPathFailure

PROPERTY = "C13"
ASSUMPTIONS = [
    "evaluate_payload_template is called directly with the real json/base64/hashlib/re/jsonpath/random modules; the only planted name is set (below)",
    "the only exceptions the harness catches are IntrinsicFailure and PathMatchFailure/ParameterPathFailure; anything else escapes and is a counterexample",
    "paths used inside templates/intrinsics are the member forms $, $.a, $.a.b, $$.a (JSONPath evaluation itself belongs to C12)",
    "strings are bounded (2-3 characters per symbolic piece) over an alphabet containing , ' \\ ( ) { } [ ] ^ - and letters; C-level sinks (str.format, json, base64, hashlib, re with a symbolic pattern) realise their arguments, so these conditions enumerate the bounded space path by path",
    "integers reaching str.format/json.dumps/range() are bounded to a small interval; integers that only flow through Python arithmetic/comparison (MathAdd, ArrayGetItem, ArrayPartition, MathRandom) are unbounded symbolic ints passed by $.reference",
    "floats come from a concrete pool (CrossHair's real-valued floats cannot close)",
    "States.MathRandom: CrossHair models random.randrange as an arbitrary integer in range, so the range claim is decided for every outcome; distribution and seeding are outside the claim",
    "Hash digests and Base64 text are compared with hashlib/base64 (trusted); JSON text with json.loads (trusted)",
    "CrossHair models set() as insertion-ordered, which would mask hash-order dependence: state_engine_paths.set is replaced by a wrapper that applies the real builtin to realised members outside tracing (harness-side only)",
    "invocation strings are realised before the call (one path per distinct text) so that the tokeniser runs on the real re module rather than on CrossHair's regex model; values passed by $.reference stay symbolic",
    "workers run with PYTHONHASHSEED=0 (set by the runner) so that an ArrayUnique ordering counterexample replays deterministically; the oracle itself is seed independent",
]

BS = chr(92)
UUID_RE = _re.compile(r"^[0-9a-f]{8}-[0-9a-f]{4}-4[0-9a-f]{3}-[89ab][0-9a-f]{3}-[0-9a-f]{12}$")


try:
    from crosshair import realize as _realize      # identity on ordinary values
except Exception:                                  # pragma: no cover
    def _realize(v):
        return v


try:
    from crosshair.tracers import NoTracing as _NoTracing, is_tracing as _is_tracing
except Exception:                                  # pragma: no cover
    _NoTracing = None
    def _is_tracing():
        return False

_builtin_set = set


def _native_set(items=()):
    """CrossHair replaces set() by an insertion-ordered model, which would hide any
    dependence on the real (hash) iteration order.  The module under test gets the
    real builtin back, applied to realised members outside tracing."""
    items = [_realize(x) for x in items]
    if _is_tracing():
        with _NoTracing():
            return _builtin_set(items)
    return _builtin_set(items)


def conc(s):
    """Concrete value of a symbolic string on this path (CrossHair's str proxy is
    rejected by the C-level bytes(str, encoding) constructor used before base64/hashlib)."""
    return _realize(s)


sep.set = _native_set


def pick(pool, i):
    for k in range(len(pool)):
        if i == k:
            return pool[k]
    return pool[0]


def over(s, alphabet):
    return all(ch in alphabet for ch in s)


def run(template, inp=None, ctx=None):
    """Real code.  ("ok", payload) | ("fail", "intrinsic"|"path"); other exceptions escape."""
    try:
        out = sep.evaluate_payload_template(inp, ctx, template)
    except IntrinsicFailure:
        return ("fail", "intrinsic")
    except (PathMatchFailure, ParameterPathFailure):
        return ("fail", "path")
    return ("ok", out)


def call(expr, inp=None, ctx=None):
    """Evaluate one intrinsic invocation string through the real payload-template entry point."""
    got = run({"r.$": conc(expr)}, inp, ctx)
    if got[0] == "ok":
        out = got[1]
        if not (isinstance(out, dict) and len(out) == 1 and "r" in out):
            return ("malformed", out)
        return ("ok", out["r"])
    return got


def canonical_b64(text):
    """The text this canonical Base64 string decodes to, or None."""
    try:
        raw = _b64.b64decode(text.encode("ascii"), validate=True)
        s = raw.decode("utf-8")
    except Exception:
        return None
    return s if _b64.b64encode(raw).decode("ascii") == text else None


def agree(got, want):
    """Does the observed outcome agree with the reference outcome?"""
    if want[0] == "fail":
        return got[0] == "fail" and got[1] in want[1]
    if isinstance(want[1], ref.Base64Decoded):
        return agree_b64decode(got, want[1].text)
    if got[0] != "ok":
        return False
    g = got[1]; w = want[1]
    if isinstance(w, ref.Random):
        return ref.is_int(g) and w.lo <= g < w.hi
    if isinstance(w, ref.UUID):
        return isinstance(g, str) and UUID_RE.match(g) is not None
    if isinstance(w, ref.JsonText):
        if not isinstance(g, str):
            return False
        try:
            back = _json.loads(g)
        except Exception:
            return False
        return ref.same(back, w.value)
    return ref.same(g, w)


def agree_b64decode(got, text):
    """States.Base64Decode(text): canonical Base64 of UTF-8 text must decode to it;
    anything else may fail with IntrinsicFailure or decode leniently to a string."""
    want = canonical_b64(text)
    if want is not None:
        return got == ("ok", want)
    return got == ("fail", "intrinsic") or (got[0] == "ok" and isinstance(got[1], str))


def check(expr, inp=None, ctx=None):
    expr = conc(expr)
    want = ref.outcome(expr, inp, ctx)       # the reference first: it never modifies its arguments
    return agree(call(expr, inp, ctx), want)


def unchanged(before, after):
    return ref.same(before, after)


FLOATS = [0.5, -1.5]


def mk(kind: int, i: int, s: str):
    """JSON value of the selected kind."""
    if kind == 1: return None
    if kind == 2: return i % 2 == 0
    if kind == 3: return i
    if kind == 4: return s
    if kind == 5: return [i]
    if kind == 6: return {"k": i}
    if kind == 7: return pick(FLOATS, i)
    return None


def _register(fn, name=None):
    if name:
        fn.__name__ = fn.__qualname__ = name
    globals()[fn.__name__] = fn
    return fn


# ===================================================================== (1) payload templates

A_KEY = "a.$"
PATHS = ["$.x", "$.y.z", "$$.c", "$", "$$", "$.nope", "$$.nope"]


def doc_in(x):
    return {"x": x, "y": {"z": [x, "s"]}}


def doc_ctx(x):
    return {"c": {"d": x}}


def member(k, lit, p):
    """Value of a template member named k: a path from the pool when the name ends in
    '.$' (so that the template is well-formed), otherwise the literal."""
    return pick(PATHS, p) if k.endswith(".$") else lit


def template_ok(tpl, inp, ctx):
    b_inp = copy.deepcopy(inp); b_ctx = copy.deepcopy(ctx); b_tpl = copy.deepcopy(tpl)
    want = ref.payload(b_tpl, b_inp, b_ctx)
    got = run(tpl, inp, ctx)
    return agree(got, want) and unchanged(b_inp, inp) and unchanged(b_ctx, ctx) and unchanged(b_tpl, tpl)


_T_OUT = ["two members whose names collide after the '.$' suffix is removed",
          "an object or array as the value of a member whose name ends in '.$'",
          "aliasing between the payload and the input (only equality before/after the call is checked)"]
_T_FUNCS = ["evaluate_payload_template", "evaluate_payload_template>clone", "evaluate_payload_template>evaluate", "apply_path"]


@condition(timeout={"quick": 150, "thorough": 600}, bounds={"quick": {"N": 3}, "thorough": {"N": 4}}, functions=_T_FUNCS, outside=_T_OUT)
def template_top_key(k: str, lit: int, p: int, x: int) -> bool:
    """
    requires: len(k) <= @N@ and over(k, A_KEY) and 0 <= p < 7 and -1 <= x <= 1
    requires: k not in ('lit', 'o', 'lit.$', 'o.$', 'q', 'q.$')
    ensures: _
    """
    tpl = {k: member(k, lit, p), "lit": "$.x", "o": {"n": lit, "q.$": "$.x", "lst": [lit, "$.x", {"w.$": "$$.c.d"}]}}
    return template_ok(tpl, doc_in(x), doc_ctx(x))


@condition(timeout={"quick": 150, "thorough": 600}, bounds={"quick": {"N": 3}, "thorough": {"N": 4}}, functions=_T_FUNCS, outside=_T_OUT)
def template_nested_key(k: str, lit: int, p: int, x: int) -> bool:
    """
    requires: len(k) <= @N@ and over(k, A_KEY) and 0 <= p < 7 and -1 <= x <= 1
    requires: k not in ('lit', 'lit.$')
    ensures: _
    """
    tpl = {"o": {k: member(k, lit, p), "lit": "$.x"}, "m.$": "$.y"}
    return template_ok(tpl, doc_in(x), doc_ctx(x))


@condition(timeout={"quick": 150, "thorough": 600}, bounds={"quick": {"N": 3}, "thorough": {"N": 4}}, functions=_T_FUNCS, outside=_T_OUT)
def template_key_in_array(k: str, lit: int, p: int, x: int) -> bool:
    """
    requires: len(k) <= @N@ and over(k, A_KEY) and 0 <= p < 7 and -1 <= x <= 1
    ensures: _
    """
    tpl = {"arr": [{k: member(k, lit, p)}, lit, "$.x", [lit]]}
    return template_ok(tpl, doc_in(x), doc_ctx(x))


@condition(timeout={"quick": 120, "thorough": 600}, bounds={"quick": {"N": 3}, "thorough": {"N": 4}}, functions=_T_FUNCS,
           outside=["literal floats other than the pool 0.5/-1.5"])
def template_literal_leaf(kind: int, i: int, s: str, depth: int) -> bool:
    """
    requires: 1 <= kind <= 7 and len(s) <= @N@ and over(s, 'a.$') and 0 <= depth <= 2
    ensures: _
    """
    # members whose name does not end in '.$' are copied verbatim whatever they hold (also '$.x' / 'States.X()' texts)
    v = mk(kind, i, s)
    if depth == 0: tpl = {"k": v, "e.$": "$.x"}
    elif depth == 1: tpl = {"o": {"k": v, "$": v}, "e.$": "$.x"}
    else: tpl = {"o": {"p": {"k": v}}, "e": "States.UUID()"}
    return template_ok(tpl, doc_in(1), doc_ctx(1))


@condition(timeout={"quick": 120, "thorough": 600}, bounds={"quick": {"N": 3}, "thorough": {"N": 4}}, functions=_T_FUNCS,
           note="the implementation documents an extension: array items that are strings ending in '.$' are evaluated; the property says everything else is copied verbatim")
def template_array_leaf(s: str, depth: int) -> bool:
    """
    requires: len(s) <= @N@ and over(s, 'x.$') and 0 <= depth <= 1
    ensures: _
    """
    tpl = {"arr": [s, 1]} if depth == 0 else {"o": {"arr": [[s]]}}
    return template_ok(tpl, doc_in(1), doc_ctx(1))


@condition(timeout={"quick": 120, "thorough": 300}, functions=_T_FUNCS)
def template_nonstring_under_suffix(kind: int, i: int, depth: int) -> bool:
    """
    requires: kind in (1, 2, 3, 4, 7) and 0 <= depth <= 1
    ensures: _
    """
    # a '.$' member must hold a path or intrinsic string (kind 4, control): anything else is ill-formed and must fail cleanly
    v = mk(kind, i, "$.x")
    tpl = {"k.$": v} if depth == 0 else {"o": {"k.$": v, "a": 1}}
    return template_ok(tpl, doc_in(1), doc_ctx(1))


@condition(timeout={"quick": 120, "thorough": 600}, bounds={"quick": {"N": 3}, "thorough": {"N": 4}}, functions=_T_FUNCS + ["evaluate (v == '$' branch)"])
def template_root_path(kind: int, i: int, s: str, k: str) -> bool:
    """
    requires: 1 <= kind <= 8 and len(s) <= 1 and len(k) <= @N@ and over(k, A_KEY) and -1 <= i <= 1
    ensures: _
    """
    # "$" selects the whole input, whatever JSON value it is and whatever its member names are
    inp = {k: i, "n": {"m": s}} if kind == 8 else mk(kind, i, s)
    tpl = {"r.$": "$", "o": {"q.$": "$"}}
    return template_ok(tpl, inp, doc_ctx(1))


@condition(timeout={"quick": 120, "thorough": 300}, functions=_T_FUNCS)
def template_path_failures(p: int, q: int, depth: int) -> bool:
    """
    requires: 0 <= p < 7 and 0 <= q < 7 and 0 <= depth <= 1
    ensures: _
    """
    inner = {"a.$": pick(PATHS, p), "b.$": pick(PATHS, q)}
    tpl = inner if depth == 0 else {"o": inner, "l": 1}
    return template_ok(tpl, doc_in(1), doc_ctx(1))


# ===================================================================== (2) intrinsic functions

AL_FULL = "a,'(){}[]^-" + BS      # the property's alphabet plus a letter
ALL_KINDS = "(1, 2, 3, 4, 5, 6, 7)"
_F = "evaluate_intrinsic_function>asl_intrinsic_"
_ARGS = "evaluate_intrinsic_function (name normalisation, regex tokeniser, argument evaluation)"


def well_typed(k, i, s, kinds, i_ok, s_ok):
    """Selector discipline: unused components are pinned so that they do not multiply paths."""
    if k not in kinds: return False
    if k == 4: return i == 0 and s_ok
    if s != "": return False
    if k == 1: return i == 0
    if k in (2, 7): return 0 <= i <= 1
    return i_ok


def _make_typed(fname, nargs, ibound="True", sbound="len(@S@) <= 1", extra_pre="True", timeout=None, outside=(), tag="types",
                kinds=ALL_KINDS, realize=False):
    """States.X($.a[, $.b[, $.c]]) with every argument of every JSON type (by reference)."""
    names = ["a", "b", "c"][:nargs]
    expr = "States.%s(%s)" % (fname, ", ".join("$." + n for n in names))
    pre = []
    for n in names:
        pre.append("well_typed(k%s, i%s, s%s, %s, %s, %s)" % (n, n, n, kinds, ibound.replace("@I@", "i" + n), sbound.replace("@S@", "s" + n)))
    doc = "\n".join(["requires: " + extra_pre] + ["requires: " + p for p in pre] + ["ensures: _"])     # cheap cuts first
    fix = conc if realize else (lambda v: v)

    if nargs == 1:
        def cond(ka: int, ia: int, sa: str) -> bool:
            return check(expr, {"a": mk(ka, ia, fix(sa))})
    elif nargs == 2:
        def cond(ka: int, ia: int, sa: str, kb: int, ib: int, sb: str) -> bool:
            return check(expr, {"a": mk(ka, ia, fix(sa)), "b": mk(kb, ib, fix(sb))})
    else:
        def cond(ka: int, ia: int, sa: str, kb: int, ib: int, sb: str, kc: int, ic: int, sc: str) -> bool:
            return check(expr, {"a": mk(ka, ia, fix(sa)), "b": mk(kb, ib, fix(sb)), "c": mk(kc, ic, fix(sc))})
    cond.__doc__ = doc
    cond = condition(timeout=timeout or {"quick": 120, "thorough": 300}, functions=[_F + fname, _ARGS], outside=list(outside))(cond)
    return _register(cond, "%s_%s" % (fname, tag))


_B2 = "-2 <= @I@ <= 2"
_EQ_OUT = ["ArrayContains/ArrayUnique: whether true/false equal the numbers 1/0 (Python conflates them; JSON does not say)"]

_make_typed("MathAdd", 2)
_make_typed("ArrayLength", 1)
_make_typed("ArrayGetItem", 2)
_make_typed("ArrayPartition", 2, "-1 <= @I@ <= 3")
_make_typed("ArrayContains", 2, extra_pre="not (ka == 5 and 0 <= ia <= 1 and kb == 2) and not (ka == 5 and kb == 7)", outside=_EQ_OUT)
_make_typed("ArrayUnique", 1, _B2)
_make_typed("ArrayRange", 3, "0 <= @I@ <= 1", kinds="(1, 2, 3, 4, 5, 6, 7)", sbound="@S@ == '1'", extra_pre="(ka == 3) + (kb == 3) + (kc == 3) >= 2",
            timeout={"quick": 150, "thorough": 600})
_make_typed("Base64Encode", 1, sbound="len(@S@) <= 1 and over(@S@, 'a,' + chr(233))", realize=True)
_make_typed("Base64Decode", 1, sbound="@S@ in ('', 'YQ==', 'YQ')", realize=True)
_make_typed("Hash", 2, sbound="@S@ in ('', 'MD5')", realize=True)
_make_typed("StringSplit", 2, sbound="@S@ in ('a', ',')")
_make_typed("StringToJson", 1, sbound="@S@ in ('', '1')")
_make_typed("JsonToString", 1, _B2, sbound="len(@S@) <= 1 and over(@S@, 'a' + chr(34) + chr(92))")
_make_typed("MathRandom", 2, tag="types")
_make_typed("UUID", 1, tag="rejects_arguments")
_make_typed("JsonMerge", 3, extra_pre="kc == 2 and ic == 1", tag="types_ab", sbound="@S@ == 'a'", ibound="@I@ == 0", timeout={"quick": 150, "thorough": 300})
_make_typed("JsonMerge", 3, extra_pre="ka == 6 and kb == 6 and ia == 0 and ib == 0", sbound="@S@ == 'a'", tag="third_argument")
_make_typed("Format", 2, _B2, sbound="@S@ in ('', '{}', 'a')", extra_pre="kb not in (1, 2, 7)",
            outside=["States.Format: the text used for boolean, null and float arguments ('natural string representation')"])


# --------------------------------------------------------------------- literal arguments (text in the invocation string)

LIT_INTS = ["0", "1", "-2"]
LIT_FLOATS = ["0.5", "-1.5"]


def lit(k, i, strs):
    """Text of a literal argument of the selected JSON type, concrete on each path
    (arrays via a nested States.Array call).  i selects the value inside the type."""
    if k == 1: return "null"
    if k == 2: return pick(["true", "false"], i)
    if k == 3: return pick(LIT_INTS, i)
    if k == 4: return ref.quote(pick(strs, i))
    if k == 5: return "States.Array(" + pick(LIT_INTS, i) + ")"
    if k == 7: return pick(LIT_FLOATS, i)
    return "null"


def lit_ok(k, i, kinds, nstr):
    if k not in kinds: return False
    if k == 1: return i == 0
    if k in (2, 7): return 0 <= i <= 1
    if k == 4: return 0 <= i < nstr
    return 0 <= i <= 2


def _make_literal(fname, nargs, extra_pre="True", outside=(), kinds="(1, 2, 3, 4, 5, 7)", strs=("", ","), timeout=None):
    names = ["a", "b", "c"][:nargs]
    strs = list(strs)
    pre = ["lit_ok(k%s, i%s, %s, %d)" % (n, n, kinds, len(strs)) for n in names]
    doc = "\n".join(["requires: " + extra_pre] + ["requires: " + p for p in pre] + ["ensures: _"])
    head = "States.%s(" % fname

    if nargs == 1:
        def cond(ka: int, ia: int) -> bool:
            return check(head + lit(ka, ia, strs) + ")")
    elif nargs == 2:
        def cond(ka: int, ia: int, kb: int, ib: int) -> bool:
            return check(head + lit(ka, ia, strs) + ", " + lit(kb, ib, strs) + ")")
    else:
        def cond(ka: int, ia: int, kb: int, ib: int, kc: int, ic: int) -> bool:
            return check(head + lit(ka, ia, strs) + ", " + lit(kb, ib, strs) + "," + lit(kc, ic, strs) + ")")
    cond.__doc__ = doc
    cond = condition(timeout=timeout or {"quick": 120, "thorough": 300}, functions=[_F + fname, _ARGS], outside=list(outside))(cond)
    return _register(cond, "%s_literals" % fname)


_make_literal("MathAdd", 2)
_make_literal("ArrayLength", 1)
_make_literal("ArrayGetItem", 2)
_make_literal("ArrayPartition", 2)
_make_literal("ArrayContains", 2, extra_pre="not (ka == 5 and kb == 2) and not (ka == 5 and kb == 7)", outside=_EQ_OUT)
_make_literal("ArrayUnique", 1)
_make_literal("ArrayRange", 3, kinds="(2, 3, 4)", extra_pre="ia <= 1 and ib <= 1 and ic <= 1", timeout={"quick": 150, "thorough": 300})
_make_literal("Base64Encode", 1, strs=("", ",", "a(b)"))
_make_literal("Base64Decode", 1, strs=("", "YQ==", "YQ"))
_make_literal("Hash", 2, strs=("", "MD5", "SHA-256"))
_make_literal("StringSplit", 2, strs=("a,b", ",", "a"))
_make_literal("StringToJson", 1, strs=("", "1", "[1, 2]"))
_make_literal("JsonToString", 1, outside=["JsonToString: the specification restricts the argument to a Path; literal arguments are accepted by the reference too"])
_make_literal("MathRandom", 2)
_make_literal("JsonMerge", 3, kinds="(1, 2, 3, 4)", extra_pre="ia == 0 and ib == 0", timeout={"quick": 150, "thorough": 300})
_make_literal("Format", 2, strs=("", "{}", "a"), extra_pre="kb not in (1, 2, 7)")


# --------------------------------------------------------------------- arity

FUNCS = ["StringToJson", "JsonToString", "Array", "ArrayPartition", "ArrayContains", "ArrayRange", "ArrayGetItem",
         "ArrayLength", "ArrayUnique", "Base64Encode", "Base64Decode", "Hash", "JsonMerge", "MathAdd", "StringSplit", "UUID"]
ARITY_ARGS = ["1", "$.arr", "'a'", "$.obj"]


def _make_arity(ak):
    @condition(timeout={"quick": 120, "thorough": 300}, functions=[_F + "* (argument count checks)", _ARGS],
               note="Format and MathRandom have their own arity conditions")
    def cond(f: int, n: int) -> bool:
        """
        requires: 0 <= f < 16 and 0 <= n <= 4
        ensures: _
        """
        expr = "States." + pick(FUNCS, f) + "(" + ", ".join([ARITY_ARGS[ak]] * n) + ")"
        return check(expr, {"arr": [1, 2], "obj": {"k": 1}})
    return _register(cond, "arity_%s_arguments" % ["integer", "array", "string", "object"][ak])


for _ak in range(4):
    _make_arity(_ak)


# --------------------------------------------------------------------- per-function value semantics

def arr_n(n, e1, e2, e3, e4=None):
    return [e1, e2, e3, e4][:n]


@condition(timeout={"quick": 120, "thorough": 300}, bounds={"quick": {"N": 3}, "thorough": {"N": 4}}, functions=[_F + "ArrayPartition"])
def ArrayPartition_values(n: int, e1: int, e2: int, e3: int, e4: int, size: int) -> bool:
    """
    requires: 0 <= n <= @N@ and -1 <= size <= @N@ + 1
    ensures: _
    """
    return check("States.ArrayPartition($.arr, $.size)", {"arr": arr_n(n, e1, e2, e3, e4), "size": size})


@condition(timeout={"quick": 120, "thorough": 300}, bounds={"quick": {"N": 3}, "thorough": {"N": 4}}, functions=[_F + "ArrayGetItem", _F + "ArrayLength"])
def ArrayGetItem_ArrayLength_values(n: int, e1: int, e2: int, e3: int, e4: int, idx: int) -> bool:
    """
    requires: 0 <= n <= @N@
    ensures: _
    """
    inp = {"arr": arr_n(n, e1, e2, e3, e4), "idx": idx}
    return check("States.ArrayGetItem($.arr, $.idx)", inp) and check("States.ArrayLength($.arr)", inp)


def el(k, i, s):
    """Array element: null / boolean / integer / string / array / object."""
    return mk(k, i, s)


def el_ok(k, i, s, kinds, smax, alphabet):
    if k not in kinds: return False
    if k == 4: return i == 0 and len(s) <= smax and over(s, alphabet)
    if s != "": return False
    if k == 1: return i == 0
    if k == 2: return 0 <= i <= 1
    return True


def bool_num_clash(ks, vals):
    """Is there a boolean together with a number that Python considers equal to it?"""
    hasbool = any(k == 2 for k in ks)
    has01 = any(k == 3 and 0 <= i <= 1 for k, i in zip(ks, vals))
    return hasbool and has01


@condition(timeout={"quick": 150, "thorough": 900}, bounds={"quick": {"K": "(3, 4)", "KX": "(2, 3, 4)"}, "thorough": {"K": "(1, 2, 3, 4, 5, 6)", "KX": "(1, 2, 3, 4, 5, 6)"}},
           functions=[_F + "ArrayContains"], outside=_EQ_OUT)
def ArrayContains_values(n: int, k1: int, i1: int, s1: str, k2: int, i2: int, s2: str, kx: int, ix: int, sx: str) -> bool:
    """
    requires: 0 <= n <= 2 and el_ok(k1, i1, s1, @K@, 1, 'ab') and el_ok(k2, i2, s2, @K@, 1, 'ab') and el_ok(kx, ix, sx, @KX@, 1, 'ab')
    requires: n >= 1 or (k1 == 3 and i1 == 0)
    requires: n >= 2 or (k2 == 3 and i2 == 0)
    requires: not bool_num_clash([k1 if n >= 1 else 0, k2 if n >= 2 else 0, kx], [i1, i2, ix])
    ensures: _
    """
    arr = [el(k1, i1, s1), el(k2, i2, s2)][:n]
    return check("States.ArrayContains($.arr, $.x)", {"arr": arr, "x": el(kx, ix, sx)})


@condition(timeout={"quick": 120, "thorough": 300}, bounds={"quick": {"N": 3}, "thorough": {"N": 4}}, functions=[_F + "ArrayUnique"])
def ArrayUnique_integers(n: int, e1: int, e2: int, e3: int, e4: int) -> bool:
    """
    requires: 0 <= n <= @N@ and -2 <= e1 <= 9 and -2 <= e2 <= 9 and -2 <= e3 <= 9 and -2 <= e4 <= 9
    ensures: _
    """
    return check("States.ArrayUnique($.arr)", {"arr": arr_n(n, e1, e2, e3, e4)})


@condition(timeout={"quick": 120, "thorough": 300}, bounds={"quick": {"N": 3, "L": 1}, "thorough": {"N": 3, "L": 2}}, functions=[_F + "ArrayUnique"],
           note="string hashes depend on PYTHONHASHSEED; the oracle (first-occurrence order) does not")
def ArrayUnique_strings(n: int, s1: str, s2: str, s3: str) -> bool:
    """
    requires: 0 <= n <= @N@ and len(s1) <= @L@ and len(s2) <= @L@ and len(s3) <= @L@ and over(s1 + s2 + s3, 'ab')
    ensures: _
    """
    return check("States.ArrayUnique($.arr)", {"arr": arr_n(n, conc(s1), conc(s2), conc(s3))})


@condition(timeout={"quick": 120, "thorough": 600}, bounds={"quick": {"I": 1, "K3": "(5,)"}, "thorough": {"I": 2, "K3": "(1, 2, 3, 5, 6)"}}, functions=[_F + "ArrayUnique"], outside=_EQ_OUT)
def ArrayUnique_mixed(k1: int, i1: int, k2: int, i2: int, k3: int, i3: int) -> bool:
    """
    requires: el_ok(k1, i1, '', (1, 2, 3, 5, 6), 0, '') and el_ok(k2, i2, '', (1, 2, 3, 5, 6), 0, '') and el_ok(k3, i3, '', (1, 2, 3, 5, 6), 0, '')
    requires: 0 <= i1 <= @I@ and 0 <= i2 <= @I@ and 0 <= i3 <= @I@ and k3 in @K3@ and not bool_num_clash([k1, k2, k3], [i1, i2, i3])
    ensures: _
    """
    return check("States.ArrayUnique($.arr)", {"arr": [el(k1, i1, ""), el(k2, i2, ""), el(k3, i3, "")]})


@condition(timeout={"quick": 150, "thorough": 600}, bounds={"quick": {"N": 3}, "thorough": {"N": 6}}, functions=[_F + "ArrayRange"])
def ArrayRange_values(a: int, b: int, step: int) -> bool:
    """
    requires: -@N@ <= a <= @N@ and -@N@ <= b <= @N@ and -@N@ <= step <= @N@
    ensures: _
    """
    return check("States.ArrayRange($.a, $.b, $.step)", {"a": a, "b": b, "step": step})


RANGE_LIMITS = [(0, 999, 1), (0, 1000, 1), (1, 1000, 1), (1, 1001, 1), (0, 1999, 2), (0, 2000, 2), (-999, 0, 1), (-1000, 0, 1), (-500, 500, 1), (5, 5, 1000)]


@condition(timeout={"quick": 120, "thorough": 120}, functions=[_F + "ArrayRange (1000 item limit)"])
def ArrayRange_limit(c: int, literal: bool) -> bool:
    """
    requires: 0 <= c < 10
    ensures: _
    """
    a, b, s = pick(RANGE_LIMITS, c)
    if literal:
        return check("States.ArrayRange(%d, %d, %d)" % (a, b, s))
    return check("States.ArrayRange($.a, $.b, $.step)", {"a": a, "b": b, "step": s})


AL_B64 = "a,'" + BS + chr(233) + chr(0x20AC)


@condition(timeout={"quick": 120, "thorough": 300}, bounds={"quick": {"N": 2}, "thorough": {"N": 3}}, functions=[_F + "Base64Encode", _F + "Base64Decode", "nested call evaluation"])
def Base64_roundtrip(s: str) -> bool:
    """
    requires: len(s) <= @N@ and over(s, AL_B64)
    ensures: _
    """
    inp = {"s": conc(s)}
    return check("States.Base64Encode($.s)", inp) and call("States.Base64Decode(States.Base64Encode($.s))", inp) == ("ok", inp["s"])


@condition(timeout={"quick": 120, "thorough": 600}, bounds={"quick": {"N": 4, "AL": "'YQ='"}, "thorough": {"N": 4, "AL": "'YQ=w6k'"}}, functions=[_F + "Base64Decode"],
           outside=["Base64Decode of text that is not canonical Base64 of UTF-8 text: may fail (IntrinsicFailure) or decode leniently"])
def Base64Decode_text(s: str) -> bool:
    """
    requires: len(s) <= @N@ and over(s, @AL@)
    ensures: _
    """
    return check("States.Base64Decode($.s)", {"s": conc(s)})


def json_value(shape, k, i, s, key):
    v = mk(k, i, s)
    if shape == 0: return v
    if shape == 1: return [v, i]
    if shape == 2: return {"m": v, key: []}
    return {"o": {"p": [v]}}


AL_JSON = "a" + chr(34) + BS


@condition(timeout={"quick": 150, "thorough": 600}, bounds={"quick": {"N": 1, "SH": 2}, "thorough": {"N": 2, "SH": 3}}, functions=[_F + "JsonToString", _F + "StringToJson", "nested call evaluation"],
           outside=["the exact text of JsonToString (white space, key order); only its parse is compared"])
def Json_roundtrip(shape: int, k: int, i: int, s: str, key: str) -> bool:
    """
    requires: 0 <= shape <= @SH@ and well_typed(k, i, s, (1, 2, 3, 4, 5, 6, 7), -1 <= i <= 1, len(s) <= @N@ and over(s, AL_JSON))
    requires: len(key) <= @N@ and over(key, AL_JSON) and (shape == 2 or key == '')
    ensures: _
    """
    v = json_value(shape, k, conc(i), conc(s), conc(key))
    inp = {"v": v}
    got = call("States.StringToJson(States.JsonToString($.v))", inp)
    return check("States.JsonToString($.v)", inp) and got[0] == "ok" and ref.same(got[1], v)


@condition(timeout={"quick": 120, "thorough": 600}, bounds={"quick": {"N": 2, "AL": "'[]1, '"}, "thorough": {"N": 3, "AL": "'[]{}1a, :' + chr(34)"}}, functions=[_F + "StringToJson"],
           note="the JSON parser itself (json.loads) is trusted: it is also the oracle; the condition decides the mapping of parser errors to IntrinsicFailure")
def StringToJson_text(s: str) -> bool:
    """
    requires: len(s) <= @N@ and over(s, @AL@)
    ensures: _
    """
    return check("States.StringToJson($.s)", {"s": s})


ALGS = ["MD5", "SHA-1", "SHA-256", "SHA-384", "SHA-512", "md5", "SHA256", ""]


@condition(timeout={"quick": 120, "thorough": 300}, bounds={"quick": {"N": 1}, "thorough": {"N": 2}}, functions=[_F + "Hash"])
def Hash_values(s: str, alg: int, literal: bool) -> bool:
    """
    requires: len(s) <= @N@ and over(s, 'a,' + chr(233)) and 0 <= alg < 8
    ensures: _
    """
    s = conc(s)
    if literal:
        return check("States.Hash(" + ref.quote(s) + ", '" + pick(ALGS, alg) + "')")
    return check("States.Hash($.s, $.alg)", {"s": s, "alg": pick(ALGS, alg)})


@condition(timeout={"quick": 120, "thorough": 300}, functions=[_F + "JsonMerge"])
def JsonMerge_values(k1: str, k2: str, k3: str, v1: int, v2: int, v3: int, n1: int, n2: int) -> bool:
    """
    requires: len(k1) == 1 and len(k2) == 1 and len(k3) == 1 and over(k1 + k2 + k3, 'ab') and 0 <= n1 <= 2 and 0 <= n2 <= 1
    ensures: _
    """
    a = {}
    if n1 >= 1: a[k1] = v1
    if n1 >= 2: a[k2] = {"deep": v2}
    b = {k3: {"other": v3}} if n2 else {}
    inp = {"a": a, "b": b}
    before = copy.deepcopy(inp)
    return check("States.JsonMerge($.a, $.b, false)", inp) and unchanged(before, inp)


@condition(timeout={"quick": 120, "thorough": 300}, functions=[_F + "MathRandom"],
           outside=["MathRandom: distribution and the effect of the seed (only lo <= result < hi is decided; CrossHair models randrange as any integer in range)"])
def MathRandom_range(a: int, b: int) -> bool:
    """
    requires: True
    ensures: _
    """
    return check("States.MathRandom($.a, $.b)", {"a": a, "b": b})


@condition(timeout={"quick": 120, "thorough": 300}, functions=[_F + "MathRandom (arity, seed argument)"],
           outside=["MathRandom: which JSON types are acceptable as seed (the specification only says 'optional seed value')"])
def MathRandom_arity_seed(n: int, ks: int, i: int) -> bool:
    """
    requires: 0 <= n <= 4 and well_typed(ks, i, '', (3, 4), -2 <= i <= 2, True)
    ensures: _
    """
    args = ["$.a", "$.b", "$.s", "$.a"][:n]
    return check("States.MathRandom(" + ", ".join(args) + ")", {"a": 1, "b": 5, "s": mk(ks, i, "")})


@condition(timeout={"quick": 150, "thorough": 900}, bounds={"quick": {"D": 1, "S": 2, "AL": "'a^-]' + BS"}, "thorough": {"D": 2, "S": 2, "AL": "'ab^-]' + BS"}}, functions=[_F + "StringSplit"],
           outside=["StringSplit: whether empty pieces (adjacent, leading or trailing separators) are kept - pieces are compared after dropping empty strings",
                    "StringSplit with an empty separator string"])
def StringSplit_values(data: str, seps: str) -> bool:
    """
    requires: len(data) <= @D@ and 1 <= len(seps) <= @S@ and over(data, @AL@) and over(seps, @AL@)
    ensures: _
    """
    expr = "States.StringSplit($.data, $.seps)"
    inp = {"data": conc(data), "seps": conc(seps)}      # concrete, so that the real re module runs (not CrossHair's regex model)
    want = ref.outcome(expr, inp)
    got = call(expr, inp)
    if got[0] != "ok" or not isinstance(got[1], list):
        return False
    return [p for p in got[1] if p != ""] == [p for p in want[1] if p != ""]


@condition(timeout={"quick": 60, "thorough": 60}, functions=[_F + "UUID"], outside=["UUID randomness/uniqueness (shape only: canonical version-4 text)"])
def UUID_shape(n: int, spaced: bool) -> bool:
    """
    requires: 0 <= n <= 2
    ensures: _
    """
    expr = ("States.UUID( " if spaced else "States.UUID(") + ", ".join(["1"] * n) + ")"
    return check(expr)


# --------------------------------------------------------------------- States.Format

AL_FMT = "a{}'" + BS


@condition(timeout={"quick": 120, "thorough": 900}, bounds={"quick": {"N": 2}, "thorough": {"N": 3}}, functions=[_F + "Format", _ARGS])
def Format_template_text(t: str, nargs: int) -> bool:
    """
    requires: len(t) <= @N@ and over(t, AL_FMT) and 0 <= nargs <= 2
    ensures: _
    """
    # raw template text (well-formed or not): escapes \\' \\{ \\} \\\\ are honoured, {} is the only brace field
    return check("States.Format('" + t + "'" + pick(["", ", 'x'", ", 'x', 7"], nargs) + ")")


FMT_TEMPLATES = ["", "a", "{}", "a{}b{}", "{}{}{}", "{} {}"]


@condition(timeout={"quick": 120, "thorough": 300}, functions=[_F + "Format"])
def Format_arity(t: int, n: int, byref: bool) -> bool:
    """
    requires: 0 <= t < 6 and 0 <= n <= 4
    ensures: _
    """
    # "There MUST be as many remaining arguments as there are occurrences of {}"
    args = (["$.p", "$.q", "$.p", "$.q"] if byref else ["'x'", "2", "'y'", "3"])[:n]
    return check("States.Format(" + ", ".join(["'" + pick(FMT_TEMPLATES, t) + "'"] + args) + ")", {"p": "x{}", "q": -1})


FIELD_HEADS = ["", "0", "0.__class__", "0.__class__.__mro__", "0.__doc__", "0[0]", "1", "x", "!r", "!s", ":>3", ":", "0:", "0!r:>4"]


@condition(timeout={"quick": 120, "thorough": 900}, bounds={"quick": {"N": 1, "AL": "'0.[a'"}, "thorough": {"N": 2, "AL": "'0.[]!:ra'"}}, functions=[_F + "Format (str.format replacement fields)"],
           note="steered: the template is '{' + field + '}' with the field assembled from a pool of replacement-field heads and a symbolic tail")
def Format_brace_field(h: int, tail: str, byref: bool) -> bool:
    """
    requires: 0 <= h < 14 and len(tail) <= @N@ and over(tail, @AL@) and (not byref or tail == '')
    ensures: _
    """
    # any brace field other than {} is ill-formed: IntrinsicFailure, never attribute / index / conversion access
    field = pick(FIELD_HEADS, h) + tail
    if byref:
        return check("States.Format($.t, 'x')", {"t": "{" + field + "}"})
    return check("States.Format('{" + field + "}', 'x')")


@condition(timeout={"quick": 120, "thorough": 300}, bounds={"quick": {"N": 2}, "thorough": {"N": 3}}, functions=[_F + "Format"],
           outside=["States.Format whose template comes from a Path and contains a backslash (whether escapes apply to data is not specified)"])
def Format_values_by_reference(t: str, k: int, i: int, s: str) -> bool:
    """
    requires: len(t) <= @N@ and over(t, 'a{}') and well_typed(k, i, s, (3, 4, 5, 6), -2 <= i <= 2, len(s) <= 1 and over(s, AL_FMT))
    ensures: _
    """
    # substituted values are not scanned again; arrays and objects are not allowed
    return check("States.Format($.t, $.v)", {"t": t, "v": mk(k, i, s)})


# --------------------------------------------------------------------- tokeniser: string arguments, separators, names, nesting

AL_STR = "a,'()" + BS
AL_ESC = "a,'({}" + BS


@condition(timeout={"quick": 120, "thorough": 900}, bounds={"quick": {"N": 2}, "thorough": {"N": 3}}, functions=[_ARGS],
           outside=["unescaped { or } in a string argument of a function other than States.Format (reserved characters; the property is silent)"])
def string_argument_raw_text(t: str, second: bool) -> bool:
    """
    requires: len(t) <= @N@ and over(t, AL_STR)
    ensures: _
    """
    # raw text between the apostrophes, well-formed or not; States.Array shows the arguments as parsed
    return check("States.Array('" + t + "'" + (", 1)" if second else ")"))


@condition(timeout={"quick": 120, "thorough": 900}, bounds={"quick": {"N": 2, "AL": "AL_ESC", "M": 1}, "thorough": {"N": 2, "AL": "AL_FULL", "M": 2}}, functions=[_ARGS])
def string_argument_escaped(s: str, fn: int) -> bool:
    """
    requires: len(s) <= @N@ and over(s, @AL@) and 0 <= fn <= 2 and (fn == 0 or len(s) <= @M@)
    ensures: _
    """
    # every string value written with the reserved characters ' { } \\ escaped must arrive unchanged
    q = ref.quote(s)
    if fn == 0: return check("States.Array(" + q + ")")
    if fn == 1: return check("States.Array(1, " + q + "," + q + ")")
    return check("States.StringSplit(" + q + ", 'a')")


SEPARATORS = [",", ", ", " , ", ",  "]


@condition(timeout={"quick": 120, "thorough": 300}, bounds={"quick": {"KA3": "(3, 4)"}, "thorough": {"KA3": "(1, 2, 3, 4, 5, 7)"}}, functions=[_ARGS, _F + "Array"],
           outside=["white space other than blanks around arguments"])
def argument_list_shapes(n: int, sep: int, ka: int, ia: int, kb: int, ib: int, kc: int, ic: int) -> bool:
    """
    requires: 0 <= n <= 3 and 0 <= sep < 4 and (sep == 1 or (ka == 4 and kb == 3 and kc == 5))
    requires: (n >= 1 or (ka == 1)) and (n >= 2 or (kb == 1)) and (n >= 3 or (kc == 2 and ic == 0))
    requires: ib <= 1 and ic <= 1 and (n < 3 or ka in @KA3@)
    requires: lit_ok(ka, ia, (1, 2, 3, 4, 5, 7), 3) and lit_ok(kb, ib, (1, 3, 4), 3) and lit_ok(kc, ic, (2, 4, 5), 3)
    ensures: _
    """
    strs = ["", "a,b", "(x)"]
    args = [lit(ka, ia, strs), lit(kb, ib, strs), lit(kc, ic, strs)][:n]
    return check("States.Array(" + pick(SEPARATORS, sep).join(args) + ")")


ILL_ARGS = ["", "abc", "1x", "'a", "a'", "1 2", "--1", "1.", ".5", "1e", "nul", "True", "None", "States", "States.", "States.Array", "States.Array(", "$", "(1)", "[1]", "{}", chr(34) + "a" + chr(34)]


@condition(timeout={"quick": 120, "thorough": 300}, functions=[_ARGS],
           outside=["numbers in exponent / leading-dot notation and other tokens Python's int()/float() accept beyond JSON numbers (e.g. '1_0', 'inf')"])
def ill_formed_argument(a: int, pos: int) -> bool:
    """
    requires: 0 <= a < 22 and 0 <= pos <= 2 and a not in (7, 8, 17)
    ensures: _
    """
    x = pick(ILL_ARGS, a)
    expr = pick(["States.Array(" + x + ")", "States.Array(1, " + x + ")", "States.Array(" + x + ", 1)"], pos)
    return check(expr, {"k": 1})


NAMES = ["States.Nope", "Nope", "States.", "", "States.format", "states.Format", "States.Default", "States.States.Format", "asl_intrinsic_Format",
         "args", "func", "arglist", "intrinsic", "normalised_func", "input", "context", "apply_path", "evaluate_intrinsic_function", "asl_intrinsic_Default", "print", "eval"]


@condition(timeout={"quick": 120, "thorough": 300}, functions=["evaluate_intrinsic_function (name normalisation and locals() dispatch)"])
def function_name_pool(f: int, n: int) -> bool:
    """
    requires: 0 <= f < 21 and 0 <= n <= 2
    ensures: _
    """
    # anything that is not the name of an intrinsic function must fail with IntrinsicFailure
    return check(pick(NAMES, f) + "(" + ", ".join(["'a'", "1"][:n]) + ")", {"k": 1}, {"c": 1})


@condition(timeout={"quick": 120, "thorough": 600}, bounds={"quick": {"N": 3, "AL": "'aigr'", "NS": "n == 1"}, "thorough": {"N": 3, "AL": "'aigrsf.'", "NS": "0 <= n <= 1"}},
           functions=["evaluate_intrinsic_function (name normalisation and locals() dispatch)"])
def function_name_symbolic(f: str, n: int) -> bool:
    """
    requires: len(f) <= @N@ and over(f, @AL@) and @NS@
    ensures: _
    """
    return check(f + "(" + ", ".join(["1"][:n]) + ")")


@condition(timeout={"quick": 120, "thorough": 600}, bounds={"quick": {"N": 2}, "thorough": {"N": 3}}, functions=["evaluate", "evaluate_intrinsic_function (split on '(')"])
def not_a_call(v: str) -> bool:
    """
    requires: len(v) <= @N@ and over(v, 'aS.()1 ') and not v.startswith('$')
    ensures: _
    """
    # a '.$' member whose text is neither a Path nor an intrinsic invocation is ill-formed
    return check(v)


@condition(timeout={"quick": 120, "thorough": 300}, functions=[_ARGS, _F + "MathAdd", "nested call evaluation"])
def nested_depth2_values(a: int, b: int, c: int, shape: int) -> bool:
    """
    requires: 0 <= shape <= 3
    ensures: _
    """
    inp = {"a": a, "b": b, "c": c}
    expr = pick(["States.MathAdd(States.MathAdd($.a, $.b), $.c)", "States.MathAdd($.a, States.MathAdd($.b, $.c))",
                 "States.MathAdd(States.MathAdd($.a, $.b), States.MathAdd($.c, 1))", "States.Array(States.Array($.a, $.b), States.Array(), States.Array($.c))"], shape)
    return check(expr, inp)


NESTED3 = ["States.MathAdd(States.MathAdd(States.MathAdd($.a, 1), 2), 3)",
           "States.Array(States.Array(States.Array($.a)))",
           "States.MathAdd($.a, States.MathAdd(1, States.MathAdd(2, 3)))",
           "States.Array(States.Array(States.Array($.a), 2), 3)",
           "States.ArrayGetItem($.arr, States.MathAdd(States.ArrayLength($.arr), -1))",
           "States.Format('{}', States.Format('{}', States.Format('{}', $.a)))",
           "States.Array(States.Array(States.Array(States.Array($.a))))",
           "States.Array(States.MathAdd($.a, 1), States.Array(2))"]           # depth-2 control


@condition(timeout={"quick": 120, "thorough": 300}, functions=[_ARGS, "nested call evaluation (depth 3 and 4)"])
def nested_depth3(e: int, a: int) -> bool:
    """
    requires: 0 <= e < 8 and -2 <= a <= 2
    ensures: _
    """
    return check(pick(NESTED3, e), {"a": a, "arr": [a, 5]})


@condition(timeout={"quick": 120, "thorough": 600}, bounds={"quick": {"N": 2}, "thorough": {"N": 3}}, functions=[_ARGS, "nested call evaluation"])
def nested_string_argument(s: str, shape: int) -> bool:
    """
    requires: len(s) <= @N@ and over(s, 'a,()') and 0 <= shape <= 2
    ensures: _
    """
    # commas and parentheses inside the string argument of a nested call
    q = ref.quote(s)
    expr = pick(["States.Array(States.Array(" + q + "), 1)", "States.Format('{}-{}', States.Format('{}', " + q + "), " + q + ")",
                 "States.Array(0, States.StringSplit(" + q + ", ','))"], shape)
    return check(expr)


@condition(timeout={"quick": 120, "thorough": 300}, functions=[_ARGS, "apply_path (inside intrinsic arguments)"])
def path_arguments(p: int, q: int, fn: int) -> bool:
    """
    requires: 0 <= p < 7 and 0 <= q < 7 and 0 <= fn <= 2
    ensures: _
    """
    # bad paths inside an invocation give a path failure (or IntrinsicFailure when the call is ill-formed as well)
    a = pick(PATHS, p); b = pick(PATHS, q)
    expr = pick(["States.Array(" + a + ", " + b + ")", "States.MathAdd(" + a + ", " + b + ")", "States.Array(States.Array(" + a + "), " + b + ")"], fn)
    return check(expr, doc_in(1), doc_ctx(1))


# --------------------------------------------------------------------- additions after the seeded-change round
@condition(timeout={"quick": 120, "thorough": 600}, bounds={"quick": {"N": 2}, "thorough": {"N": 3}}, functions=[_F + "Format"],
           outside=["WHICH value a by-reference template with backslashes yields (only that the call returns or fails with IntrinsicFailure)"])
def Format_by_reference_fails_cleanly(t: str, nargs: int) -> bool:
    """
    requires: len(t) <= @N@ and over(t, 'a{}' + BS) and 0 <= nargs < 3
    ensures: _
    """
    # any exception other than IntrinsicFailure / path failures escapes run() and is reported by CrossHair
    got = call("States.Format($.t" + pick(["", ", 'x'", ", 'x', 7"], nargs) + ")", {"t": t})
    return got[0] in ("ok", "fail")


@condition(timeout={"quick": 60, "thorough": 120}, functions=["evaluate_payload_template (absent / empty templates)"])
def template_empty_or_absent(kind: int, x: int) -> bool:
    """
    requires: 0 <= kind < 4 and 0 <= x <= 1
    ensures: _
    """
    inp = {"x": x, "y": {"z": 1}}
    before = _json.loads(_json.dumps(inp))
    tpl = pick([None, {}, {"n": {}}, {"n": []}], kind)
    got = run(tpl, inp, {"c": 1})
    if not unchanged(before, inp):
        return False
    if kind == 0:
        return got == ("ok", inp)                 # no template: the input passes through
    return got[0] == "ok" and ref.same(got[1], tpl) and got[1] is not inp     # an empty object selects {}, not the input


# numeric literals: the digits of an argument are parsed by the tokeniser itself (values that arrive through a Path
# are not).  Magnitudes around the places where a detour through a binary64 float, a 32/64-bit word or a fixed digit
# count would show; the offset around each base is symbolic.
BIG_BASES = [0, 2 ** 31, 2 ** 53, 2 ** 63, 10 ** 18 + 10 ** 9, 2 ** 64, 10 ** 30]
NUM_FORMS = ["States.Array({0})", "States.MathAdd({0}, 0)", "States.MathAdd(1, {0})", "States.ArrayContains(States.Array({0}), {1})",
             "States.ArrayUnique(States.Array({0}, {1}))", "States.ArrayGetItem(States.Array({0}, 7), 0)", "States.JsonToString({0})"]


@condition(timeout={"quick": 120, "thorough": 300}, bounds={"quick": {"D": 2}, "thorough": {"D": 6}}, functions=[_ARGS, _F + "Array", _F + "MathAdd", _F + "ArrayContains", _F + "ArrayUnique", _F + "ArrayGetItem", _F + "JsonToString"],
           outside=["integer literals other than base + d for the listed bases (powers of two / ten where a machine representation would change)"])
def numeric_literal_integers(bi: int, d: int, neg: bool, form: int) -> bool:
    """
    requires: 0 <= bi < len(BIG_BASES) and -@D@ <= d <= @D@ and 0 <= form < len(NUM_FORMS)
    ensures: _
    """
    n = pick(BIG_BASES, bi) + stubs.cint(d, -6, 6)
    if neg:
        n = -n
    expr = pick(NUM_FORMS, form).format(str(n), str(n + 1))
    return check(expr)



@condition(timeout={"quick": 60, "thorough": 120}, functions=[_F + "Format (rendering of non-string arguments)"])
def Format_json_scalars(k1: int, k2: int, byref: bool) -> bool:
    """
    requires: 0 <= k1 < 6 and 0 <= k2 < 6
    ensures: _
    """
    vals = [True, False, None, 0, 1.5, "s"]
    lits = ["true", "false", "null", "0", "1.5", "'s'"]
    if byref:
        return check("States.Format('{}-{}', $.a, $.b)", {"a": pick(vals, k1), "b": pick(vals, k2)})
    return check("States.Format('{}-{}', " + pick(lits, k1) + ", " + pick(lits, k2) + ")")


NUM_TOKENS = ["nan", "NaN", "inf", "-inf", "Infinity", "1_000", "1_0", "+1", ".5", "1.", "-0", "00", "01", "1e", "0x10", "1.5.2", "--1", chr(0xff11) + chr(0xff12)]


@condition(timeout={"quick": 120, "thorough": 300}, functions=[_ARGS + " (numeric literals)", _F + "Array", _F + "MathAdd", _F + "JsonToString"],
           outside=["exponent notation (1e5): the States Language does not say whether it is a numeric literal of an intrinsic argument"])
def numeric_literal_tokens(ti: int, form: int) -> bool:
    """
    requires: 0 <= ti < len(NUM_TOKENS) and 0 <= form < 3
    ensures: _
    """
    tok = pick(NUM_TOKENS, ti)
    expr = pick(["States.Array({0})", "States.MathAdd({0}, 1)", "States.JsonToString(States.Array(1, {0}))"], form).format(tok)
    return check(expr)
