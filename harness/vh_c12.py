"""C12 - InputPath/OutputPath/ResultPath obey the filter laws and never corrupt data.

Units: the real apply_jsonpath / apply_path / apply_resultpath of
state_engine_paths, the real merge_result of state_engine, and the real
StateEngine.notify driven into its nested asl_state_Pass closure.  Documents are
built from shape selectors; member names and leaves are chosen by the solver.
Read paths are concrete strings of the supported grammar (hit or miss is decided
by the member names of the document); write paths carry symbolic names and indices."""
import base64 as _b64

import vf; vf.setup_paths()
from vf.api import condition
from vf import stubs
from vf.stubs import pick
from vf.ref import paths as ref
import jsonpath as _jp
from asl_workflow_engine import state_engine as se
from asl_workflow_engine import state_engine_paths as sp
from asl_workflow_engine.asl_exceptions import PathMatchFailure, ResultPathMatchFailure

PROPERTY = "C12"
ASSUMPTIONS = [
    "documents are built inside the harness from shape selectors (member kinds: absent, int, string, null, {}, {k: leaf}, [leaf, leaf], [], bool, [{k: leaf}], {k: [..]}, {k: {k: leaf}}); a Python dict hashes (realises) every member name on insertion, so the names of document members are drawn by integer selectors from NAMES = every string of length 1..2 over the tier's identifier alphabet (plus a few of length 3 at thorough) - the same space as a symbolic string under that bound, 3-4x cheaper for z3; read_symbolic_names and all write conditions use genuinely symbolic strings",
    "read paths (InputPath/OutputPath/'$$' paths) are concrete strings from a pool of the supported grammar: a symbolic read path stalls in the regex callbacks of the third-party jsonpath.normalize; hit-or-miss is decided by the member names of the document",
    "jsonpath.normalize (third party, a pure function of the path text) is memoised for the pool paths: its value is computed once natively at import and returned for the same concrete text (CrossHair's regex interpreter otherwise spends 35 ms per path re-deriving the same constant)",
    "conditions in which a read can MISS use concrete, pairwise distinct leaves: the real PathMatchFailure message formats the whole input and CrossHair realises format() arguments, which would enumerate symbolic leaves; leaf opacity is shown separately with unbounded symbolic leaves on paths that hit (read_leaves, read_root, read_null_path, read_context) and in every apply_resultpath condition (its messages never format the document)",
    "Pass-handler conditions: clock/uuid/logger stubs (vf.stubs), EventDispatcher/TaskDispatcher replaced by recording stubs, STANDARD workflow, one real notify() call; the real json module is kept (a cyclic output makes the real json.dumps fail)",
    "the context object of the '$$' conditions is a harness-built dict with the members Execution.Id/Name, State.Name and optionally Task.Token",
]

# ---------------------------------------------------------------- path pools, jsonpath.normalize memo
READ_POOL = [
    ("dot1", "$.a", ["a"]),
    ("dot2", "$.a.b", ["a", "b"]),
    ("br1", "$['a']", ["a"]),
    ("br2", "$['a']['b']", ["a", "b"]),
    ("mixed", "$.a['b']", ["a", "b"]),
    ("idx0", "$.a[0]", ["a", 0]),
    ("bridx1", "$['a'][1]", ["a", 1]),
    ("idxdot", "$.a[0].b", ["a", 0, "b"]),
    ("dot3", "$.a.b.a", ["a", "b", "a"]),
    ("dotidx", "$.a.b[1]", ["a", "b", 1]),
]
TOP_POOL = [("$.a", ["a"]), ("$[0]", [0]), ("$[1]", [1]), ("$.a.b", ["a", "b"]), ("$[0].a", [0, "a"])]
CTX_HIT = [("$$", []), ("$$.Execution.Id", ["Execution", "Id"]), ("$$.State.Name", ["State", "Name"]),
           ("$$.State", ["State"]), ("$$['Execution']['Name']", ["Execution", "Name"])]
CTX_MISS = [("$$.Task.Token", ["Task", "Token"]), ("$$.Execution.Nope", ["Execution", "Nope"]), ("$$.Nope", ["Nope"]),
            ("$$.Execution.Id.x", ["Execution", "Id", "x"]), ("$$.Task", ["Task"])]
OUT_POOL = [("$", []), (None, None), ("$.a", ["a"]), ("$.b", ["b"]), ("$.a.b", ["a", "b"]), ("$['a']", ["a"])]
IN_POOL = [("$", []), (None, None), ("$.a", ["a"]), ("$.a.b", ["a", "b"]), ("$['a']", ["a"]), ("$.a[0]", ["a", 0])]
SYM_POOL = [("$.a.b", ["a", "b"]), ("$['a']['b']", ["a", "b"]), ("$.a", ["a"]), ("$.a[0]", ["a", 0])]
TOKENS = ["tok", "", "a/b+c"]

_orig_normalize = _jp.normalize
_NORM = {}
for _p in ([p for _, p, _ in READ_POOL] + [p for p, _ in TOP_POOL + OUT_POOL + IN_POOL + SYM_POOL if p]
           + [p[1:] for p, _ in CTX_HIT + CTX_MISS]
           + ["$.a.b", "$.b", "$['a']['a'][0]", "$.a.a[1]", "$.c[0]", "$.c[1].a", "$.a", "$.c"]):
    _NORM[_p] = _orig_normalize(_p)


def _normalize_memo(x):
    if type(x) is str and x in _NORM:
        return _NORM[x]
    return _orig_normalize(x)


_jp.normalize = _normalize_memo

# ---------------------------------------------------------------- document builders
# Member names: a prefix of this list is every string of length 1..2 over 'ab' (6) / over 'ab_' (12);
# then some names of length 3 (16) and names with digits (20, write conditions only).
NAMES = ["a", "b", "aa", "ab", "ba", "bb", "_", "a_", "b_", "_a", "_b", "__", "aba", "abb", "a_b", "bab", "0", "a0", "0a", "00"]


def okkey(k, alpha, n):
    """k is a member name of 1..n characters over the alphabet."""
    return 1 <= len(k) <= n and all(c in alpha for c in k)


def keyif(needed, k, alpha, n):
    """okkey (and not starting with a digit) when the name is used, otherwise pinned (no wasted forks)."""
    if not needed:
        return k == "b"
    return okkey(k, alpha, n) and ("0" not in alpha or not ("0" <= k[0] <= "9"))


def nested(kind):
    """shapes that use the nested member name k3"""
    return kind in (5, 9, 10, 11)


def member(kind, k3, v, s):
    """A JSON value of the selected shape (0 = member absent)."""
    if kind == 0: return ref.MISSING
    if kind == 1: return v
    if kind == 2: return s
    if kind == 3: return None
    if kind == 4: return {}
    if kind == 5: return {k3: v}
    if kind == 6: return [v, s]
    if kind == 7: return []
    if kind == 8: return v > 0
    if kind == 9: return [{k3: v}]
    if kind == 10: return {k3: [s, v]}
    return {k3: {k3: v, "a": s}}


def build(k1, k2, k3, s1, s2, w3, v=11, s="s"):
    """{k1: member(s1), k2: member(s2), [k3: 33]} - later members overwrite equal names."""
    d = {}
    m1 = member(s1, k3, v, s)
    if m1 is not ref.MISSING: d[k1] = m1
    m2 = member(s2, "b", v + 11, s + "2")
    if m2 is not ref.MISSING: d[k2] = m2
    if w3: d[k3] = 33
    return d


CTX = {"Execution": {"Id": "ctx-id"}, "State": {"Name": "S"}}


def _register(fn, name):
    fn.__name__ = fn.__qualname__ = name
    globals()[name] = fn
    return fn


def read_outcome(d, d0, ctx, path, toks):
    """Law for one selection: the addressed value exactly, or PathMatchFailure when the
    path matches nothing; the document read is left as it was."""
    want = ref.get(d0, toks)
    try:
        got = sp.apply_path(d, ctx, path)
    except PathMatchFailure:
        return want is ref.MISSING and d == d0
    return want is not ref.MISSING and got == want and d == d0


# ---------------------------------------------------------------- (a) selection
_ALLK = "(0, 1, 2, 3, 4, 5, 6, 7, 8, 9, 10, 11)"
_RB = {"quick": {"NK": 6, "NK2": 6, "K": "(0, 1, 2, 3, 4, 5, 6, 7)", "K2": "(0, 1)", "W3": "False"},
       "thorough": {"NK": 12, "NK2": 6, "K": _ALLK, "K2": "(0, 1, 5)", "W3": "(i1 < 6 and i2 < 6 and i3 < 6)"}}
# the other forms differ from $.a / $.a.b / $.a[0] only in the (concrete) path text: the second member's name ranges over a, b at quick
_RB_ALT = {"quick": dict(_RB["quick"], NK2=2), "thorough": dict(_RB["thorough"], K2="(0, 1)")}
_RB_MAIN = {"dot2": {"quick": _RB["quick"], "thorough": dict(_RB["thorough"], NK2=2)},      # second member int or {"b": ..} named a / b
            "dot1": {"quick": _RB["quick"], "thorough": _RB_ALT["thorough"]}, "idx0": {"quick": _RB["quick"], "thorough": _RB_ALT["thorough"]}}
_RB_SPELL = {"quick": _RB_ALT["quick"], "thorough": dict(_RB_ALT["thorough"], W3="False")}   # alternative spellings of the same token lists
_RB_DEEP = {"quick": {"NK": 6, "NK2": 2, "K": "(0, 1, 4, 5, 6, 9, 10, 11)", "K2": "(0, 1)", "W3": "False"},
            "thorough": _RB_ALT["thorough"]}
_RO = ["indefinite paths (wildcard, filter, slice, union, recursive descent) and the eval() of the third-party filter syntax",
       "member names that are digit strings: the third-party jsonpath treats [0] and ['0'] alike ($.a[0] selects member '0' of an object)",
       "documents deeper than 3 levels / wider than 3 members; member names outside NAMES[:NK] of the tier"]


def _make_read(name, path, toks):
    deep = len(toks) >= 3

    @condition(timeout={"quick": 90, "thorough": 1500}, bounds=_RB_DEEP if deep else (_RB_MAIN[name] if name in _RB_MAIN else _RB_SPELL),
               functions=["state_engine_paths.apply_path", "state_engine_paths.apply_jsonpath", "jsonpath.jsonpath (third party)"],
               outside=_RO, note="read path " + path)
    def read(i1: int, i2: int, i3: int, s1: int, s2: int, w3: bool) -> bool:
        """
        requires: s1 in @K@ and s2 in @K2@ and 0 <= i1 and 0 <= i2 and 0 <= i3 and ((not w3) or @W3@)
        requires: i1 < (@NK@ if s1 != 0 else 1) and i2 < (@NK2@ if s2 != 0 else 1) and i3 < (@NK@ if (w3 or nested(s1)) else 1)
        ensures: _
        """
        k1 = pick(NAMES, i1); k2 = pick(NAMES, i2); k3 = pick(NAMES, i3)
        d = build(k1, k2, k3, s1, s2, w3)
        d0 = build(k1, k2, k3, s1, s2, w3)
        return read_outcome(d, d0, CTX, path, toks)
    _register(read, "read_" + name)


for _n, _p, _t in READ_POOL:
    _make_read(_n, _p, _t)


@condition(timeout={"quick": 90, "thorough": 900},
           bounds={"quick": {"A": "'ab'", "N": 2, "K": "(0, 1, 5)"}, "thorough": {"A": "'ab_'", "N": 2, "K": "(0, 1, 4, 5, 6, 9, 10)"}},
           functions=["apply_path / apply_jsonpath on documents whose member names are symbolic strings"], outside=_RO)
def read_symbolic_names(pi: int, k1: str, k3: str, s1: int) -> bool:
    """
    requires: 0 <= pi < 4 and s1 in @K@ and keyif(s1 != 0, k1, @A@, @N@) and keyif(nested(s1), k3, @A@, @N@)
    ensures: _
    """
    path, toks = pick(SYM_POOL, pi)
    d = build(k1, "b", k3, s1, 1, False); d0 = build(k1, "b", k3, s1, 1, False)
    return read_outcome(d, d0, CTX, path, toks)


def _top(top, k1, k3, s1, v, s):
    """top-level value: object, array, string, int, bool, empty object - leaves are the symbolic v, s"""
    if top == 0: return build(k1, "b", k3, s1, 1, False, v, s)
    if top == 1: return [v, s, {k3: v}]
    if top == 2: return s
    if top == 3: return v
    if top == 4: return v > 0
    return {}


_TB = {"quick": {"NK": 6, "K": "(0, 1, 2, 3, 4, 5, 6, 7, 8)", "NS": 2}, "thorough": {"NK": 16, "K": _ALLK, "NS": 4}}


@condition(timeout={"quick": 60, "thorough": 600}, bounds=_TB, functions=["apply_path / apply_jsonpath with path '$'"],
           note="'$' selects the whole input; leaves unbounded")
def read_root(top: int, i1: int, i3: int, s1: int, v: int, s: str, direct: bool) -> bool:
    """
    requires: 0 <= top <= 5 and s1 in @K@ and len(s) <= @NS@ and 0 <= i1 and 0 <= i3
    requires: i1 < (@NK@ if (top == 0 and s1 != 0) else 1) and i3 < (@NK@ if ((top == 0 and nested(s1)) or top == 1) else 1)
    ensures: _
    """
    k1 = pick(NAMES, i1); k3 = pick(NAMES, i3)
    d = _top(top, k1, k3, s1, v, s); d0 = _top(top, k1, k3, s1, v, s)
    got = sp.apply_jsonpath(d, "$") if direct else sp.apply_path(d, CTX, "$")
    return got == d0 and d == d0


@condition(timeout={"quick": 60, "thorough": 600}, bounds=_TB, functions=["apply_path / apply_jsonpath with a null path"],
           note="a null path selects {} whatever the document; leaves unbounded")
def read_null_path(top: int, i1: int, i3: int, s1: int, v: int, s: str, direct: bool) -> bool:
    """
    requires: 0 <= top <= 5 and s1 in @K@ and len(s) <= @NS@ and 0 <= i1 and 0 <= i3
    requires: i1 < (@NK@ if (top == 0 and s1 != 0) else 1) and i3 < (@NK@ if ((top == 0 and nested(s1)) or top == 1) else 1)
    ensures: _
    """
    k1 = pick(NAMES, i1); k3 = pick(NAMES, i3)
    d = _top(top, k1, k3, s1, v, s); d0 = _top(top, k1, k3, s1, v, s)
    got = sp.apply_jsonpath(d, None) if direct else sp.apply_path(d, CTX, None)
    return type(got) is dict and len(got) == 0 and d == d0


@condition(timeout={"quick": 60, "thorough": 300}, bounds={"quick": {"NS": 2}, "thorough": {"NS": 4}},
           functions=["apply_path / apply_jsonpath: definite paths that hit, leaves unbounded"],
           note="leaf opacity: integer leaves are unbounded, string leaves any text up to the bound, including the falsy values 0, '' and false")
def read_leaves(pi: int, v: int, s: str, b: bool) -> bool:
    """
    requires: 0 <= pi < 8 and len(s) <= @NS@
    ensures: _
    """
    d = {"a": {"b": v, "a": [s, b]}, "b": s, "c": [b, {"a": v}]}
    d0 = {"a": {"b": v, "a": [s, b]}, "b": s, "c": [b, {"a": v}]}
    if pi == 0: path, want = "$.a.b", v
    elif pi == 1: path, want = "$.b", s
    elif pi == 2: path, want = "$['a']['a'][0]", s
    elif pi == 3: path, want = "$.a.a[1]", b
    elif pi == 4: path, want = "$.c[0]", b
    elif pi == 5: path, want = "$.c[1].a", v
    elif pi == 6: path, want = "$.a", {"b": v, "a": [s, b]}
    else: path, want = "$.c", [b, {"a": v}]
    got = sp.apply_path(d, CTX, path)
    return got == want and d == d0


@condition(timeout={"quick": 60, "thorough": 300}, bounds={"quick": {"V": 1}, "thorough": {"V": 3}},
           functions=["apply_jsonpath on a top-level array / string / number / boolean / empty document"])
def read_toplevel(top: int, pi: int, v: int, i3: int) -> bool:
    """
    requires: 0 <= top <= 7 and 0 <= pi < 5 and 0 <= v <= @V@ and 0 <= i3 < (2 if top == 2 else 1)
    ensures: _
    """
    path, toks = pick(TOP_POOL, pi)
    k3 = pick(NAMES, i3)
    if top == 0: d = [v, "s"]; d0 = [v, "s"]
    elif top == 1: d = []; d0 = []
    elif top == 2: d = [{k3: v}]; d0 = [{k3: v}]
    elif top == 3: d = v; d0 = v                      # number, including 0
    elif top == 4: d = pick(["", "a", "ab"], v); d0 = pick(["", "a", "ab"], v)
    elif top == 5: d = v > 0; d0 = v > 0
    elif top == 6: d = {}; d0 = {}
    else: d = [[v], v]; d0 = [[v], v]
    return read_outcome(d, d0, CTX, path, toks)


@condition(timeout={"quick": 60, "thorough": 300}, bounds={"quick": {"NS": 2}, "thorough": {"NS": 4}},
           functions=["apply_path: '$$' routes to the context object"])
def read_context(pi: int, eid: str, sname: str, v: int) -> bool:
    """
    requires: 0 <= pi < 5 and len(eid) <= @NS@ and len(sname) <= @NS@
    ensures: _
    """
    path, toks = pick(CTX_HIT, pi)
    ctx = {"Execution": {"Id": eid, "Name": "n"}, "State": {"Name": sname}}
    ctx0 = {"Execution": {"Id": eid, "Name": "n"}, "State": {"Name": sname}}
    d = {"Execution": {"Id": v, "Name": v}, "State": v}          # the input has the same member names: must not be read
    d0 = {"Execution": {"Id": v, "Name": v}, "State": v}
    got = sp.apply_path(d, ctx, path)
    return got == ref.get(ctx0, toks) and ctx == ctx0 and d == d0


@condition(timeout={"quick": 60, "thorough": 300},
           functions=["apply_path: '$$' paths that match nothing in the context; $$.Task.Token"],
           outside=["the opaque (base64) encoding of $$.Task.Token is a repository extension: the check only demands that decoding it gives the context's token"])
def read_context_miss(pi: int, has_task: bool, ti: int) -> bool:
    """
    requires: 0 <= pi < 5 and 0 <= ti < 3
    ensures: _
    """
    path, toks = pick(CTX_MISS, pi)
    tok = pick(TOKENS, ti)
    ctx = {"Execution": {"Id": "e"}, "State": {"Name": "S"}}
    ctx0 = {"Execution": {"Id": "e"}, "State": {"Name": "S"}}
    if has_task:
        ctx["Task"] = {"Token": tok}; ctx0["Task"] = {"Token": tok}
    d = {"Task": {"Token": "input"}, "Nope": 1, "Execution": {"Nope": 1, "Id": {"x": 1}}}
    want = ref.get(ctx0, toks)
    try:
        got = sp.apply_path(d, ctx, path)
    except PathMatchFailure:
        return want is ref.MISSING and ctx == ctx0
    if want is ref.MISSING or ctx != ctx0:
        return False
    if pi == 0:
        return _b64.b64decode(got).decode("utf-8") == tok
    if pi == 4:
        # the whole $$.Task object: its Token member is the same opaque token that $$.Task.Token selects
        return type(got) is dict and list(got) == ["Token"] and _b64.b64decode(got["Token"]).decode("utf-8") == tok \
            and got["Token"] == sp.apply_path(d, ctx, "$$.Task.Token")
    return got == want


@condition(timeout={"quick": 30, "thorough": 60},
           functions=["apply_jsonpath / apply_path when the document is JSON null"],
           note="a null document: '$' must select null, a member path must fail, a null path selects {}")
def read_null_document(pi: int, direct: bool) -> bool:
    """
    requires: 0 <= pi < 4
    ensures: _
    """
    path = pick(["$", "$.a", "$[0]", None], pi)
    try:
        got = sp.apply_jsonpath(None, path) if direct else sp.apply_path(None, CTX, path)
    except PathMatchFailure:
        return pi in (1, 2)
    if pi == 3:
        return type(got) is dict and len(got) == 0
    return pi == 0 and got is None


# ---------------------------------------------------------------- (b) ResultPath
def wdoc(k3, s1, s2, v, s):
    """{'a': member(s1), 'b': member(s2)} - fixed member names, selected nested name, symbolic leaves."""
    d = {}
    m1 = member(s1, k3, v, s)
    if m1 is not ref.MISSING: d["a"] = m1
    m2 = member(s2, "a", v + 1, s)
    if m2 is not ref.MISSING: d["b"] = m2
    return d


def fresh(rk, rv, s):
    if rk == 0: return rv
    if rk == 1: return {"r": rv}
    if rk == 2: return [rv, s]
    if rk == 3: return None
    if rk == 4: return {}
    return s


def place_outcome(d, d0, r, r0, path, toks):
    """Laws for one placement.  d0 / r0 are independent copies built before the call."""
    try:
        out = sp.apply_resultpath(d, r, path)
    except ResultPathMatchFailure:
        # failing on a clearly placeable path is a violation too; and a refused placement must leave the input as it
        # was ("never corrupt data": the raw input is what a Catcher's ResultPath or a retry goes on to use)
        return not ref.placeable(d0, toks) and d == d0
    if not ref.finite_tree(out):
        return False
    return ref.get(out, toks) == r0 and ref.frame_same(d0, out, toks)


_WF = ["state_engine_paths.apply_resultpath (tokeniser regex and nested update_path)"]
_WO = ["reference paths outside the grammar '$' ( '.'name | '['quoted-name']' | '['index']' )*; names outside the tier's alphabet/length or starting with a digit; negative indices",
       "a null input document combined with a non-null ResultPath (the repository substitutes {})"]


def _wpath(form, p1, p2, i):
    if form == "dot1": return "$." + p1, [p1]
    if form == "dot2": return "$." + p1 + "." + p2, [p1, p2]
    if form == "dot3": return "$." + p1 + "." + p2 + "." + p1, [p1, p2, p1]
    if form == "br1": return "$['" + p1 + "']", [p1]
    if form == "br2": return "$['" + p1 + "']['" + p2 + "']", [p1, p2]
    if form == "mixed": return "$." + p1 + "['" + p2 + "']", [p1, p2]
    if form == "dq1": return '$["' + p1 + '"]', [p1]
    if form == "idx": return "$." + p1 + "[" + str(i) + "]", [p1, i]
    if form == "idxdot": return "$." + p1 + "[" + str(i) + "]." + p2, [p1, i, p2]
    if form == "bridx": return "$['" + p1 + "'][" + str(i) + "]", [p1, i]
    raise ValueError(form)


_ONE = ("dot1", "br1", "dq1", "idx", "bridx")     # forms without a second name
_QUICK_FORMS = ("dot1", "dot2", "br1", "mixed", "idx")


def _wbounds(form):
    """Bounds per path form: @A@/@N@ alphabet and length of the first name, @N2@ of the second (0 = unused),
    @I@ largest index (0 = unused), @K@/@K2@/@K2A@ shapes of members a / b (b in the alias conditions),
    @A2@/@NK3A@ alphabet of the second name / nested-name range in the alias conditions,
    @RK@ kinds of fresh result, @NK3@ how many of NAMES the nested member name ranges over, @NS@ string-leaf length."""
    two = form not in _ONE
    idx = "idx" in form
    q = {"A": "'ab'", "N": 2, "N2": 2 if two else 0, "I": 2 if idx else 0, "NS": 1, "K2": "(0, 1)", "K2A": "(0, 1)"}
    t = {"A": "'ab_'", "N": 2, "N2": 2 if two else 0, "I": 3 if idx else 0, "NS": 3, "K2": "(0, 1)", "K2A": "(0, 1)"}
    if two:
        q.update(K="(0, 1, 4, 5, 6)", RK="(0,)", NK3=2, K2A="(1,)")
        t.update(K="(0, 1, 3, 4, 5, 6, 10, 11)", RK="(0,)", NK3=2, K2A="(1,)")
    elif idx:
        q.update(K="(0, 1, 4, 5, 6, 7)", RK="(0,)", NK3=2)
        t.update(K="(0, 1, 3, 4, 5, 6, 7, 9, 10)", RK="(0,)", NK3=6)
    else:
        q.update(K="(0, 1, 3, 4, 5, 6, 7)", RK="(0, 1)", NK3=6)
        t.update(A="'ab_0'", K=_ALLK, RK="(0, 1)", NK3=6)
    if form in ("idxdot", "dot3"):
        t.update(A="'ab'", K="(0, 1, 4, 5, 6, 7, 9, 10)" if form == "idxdot" else "(0, 1, 4, 5, 6, 10, 11)")
    q["A2"] = q["A"]; q["NK3A"] = q["NK3"]
    t["A2"] = "'ab'" if two else t["A"]            # alias conditions: the second name over 'ab' (the first over @A@)
    t["NK3A"] = 4 if not two and not idx else t["NK3"]
    return {"quick": q, "thorough": t}


def _make_write(form):
    tiers = ("quick", "thorough") if form in _QUICK_FORMS else ("thorough",)

    @condition(timeout={"quick": 90, "thorough": 1500}, bounds=_wbounds(form), functions=_WF, outside=_WO, tiers=tiers,
               note="fresh result placed at " + _wpath(form, "<p1>", "<p2>", 0)[0].replace("[0]", "[<i>]"))
    def fresh_c(p1: str, p2: str, i: int, i3: int, s1: int, s2: int, rk: int, v: int, s: str, rv: int) -> bool:
        """
        requires: s1 in @K@ and s2 in @K2@ and rk in @RK@ and len(s) <= @NS@ and 0 <= i <= @I@ and 0 <= i3 < (@NK3@ if nested(s1) else 1)
        requires: keyif(True, p1, @A@, @N@) and keyif(@N2@ > 0, p2, @A@, @N2@)
        ensures: _
        """
        path, toks = _wpath(form, p1, p2, i)
        k3 = pick(NAMES, i3)
        d = wdoc(k3, s1, s2, v, s); d0 = wdoc(k3, s1, s2, v, s)
        return place_outcome(d, d0, fresh(rk, rv, s), fresh(rk, rv, s), path, toks)
    _register(fresh_c, "write_" + form + "_fresh")

    @condition(timeout={"quick": 90, "thorough": 1500}, bounds=_wbounds(form), functions=_WF, outside=_WO, tiers=tiers,
               note="the result is the input object itself (whole=True) or the sub-tree that is member 'a' of the input")
    def alias_c(p1: str, p2: str, i: int, i3: int, s1: int, s2: int, whole: bool, v: int, s: str) -> bool:
        """
        requires: s1 in @K@ and s1 != 0 and s2 in @K2A@ and len(s) <= @NS@ and 0 <= i <= @I@ and 0 <= i3 < (@NK3A@ if nested(s1) else 1)
        requires: keyif(True, p1, @A@, @N@) and keyif(@N2@ > 0, p2, @A2@, @N2@)
        ensures: _
        """
        path, toks = _wpath(form, p1, p2, i)
        k3 = pick(NAMES, i3)
        d = wdoc(k3, s1, s2, v, s); d0 = wdoc(k3, s1, s2, v, s)
        r = d if whole else d["a"]
        r0 = wdoc(k3, s1, s2, v, s)
        if not whole: r0 = r0["a"]
        return place_outcome(d, d0, r, r0, path, toks)
    _register(alias_c, "write_" + form + "_alias")


for _f in ("dot1", "dot2", "br1", "br2", "mixed", "dq1", "idx", "bridx", "idxdot", "dot3"):
    _make_write(_f)


@condition(timeout={"quick": 60, "thorough": 600},
           bounds={"quick": {"K": "(0, 1, 3, 4, 5, 6, 7)", "NS": 2, "NK3": 6}, "thorough": {"K": _ALLK, "NS": 4, "NK3": 20}},
           functions=["apply_resultpath: '$' replaces, null discards, '$$...' is rejected"])
def write_root_null(mode: int, i3: int, s1: int, s2: int, rk: int, v: int, s: str, rv: int) -> bool:
    """
    requires: 0 <= mode <= 4 and s1 in @K@ and s2 in (0, 1) and -2 <= rk <= 5 and len(s) <= @NS@ and 0 <= i3 < (@NK3@ if nested(s1) else 1)
    ensures: _
    """
    k3 = pick(NAMES, i3)
    d = wdoc(k3, s1, s2, v, s); d0 = wdoc(k3, s1, s2, v, s)
    if rk == -1: r = d; r0 = d0
    elif rk == -2 and s1 != 0: r = d["a"]; r0 = d0["a"]
    else: r = fresh(rk, rv, s); r0 = fresh(rk, rv, s)
    if mode == 0:                                    # '$' means replace
        out = sp.apply_resultpath(d, r, "$")
        return ref.finite_tree(out) and out == r0 and d == d0
    if mode == 1:                                    # null means discard
        out = sp.apply_resultpath(d, r, None)
        return ref.finite_tree(out) and out == d0
    if mode == 2:                                    # default is '$'
        out = sp.apply_resultpath(d, r)
        return ref.finite_tree(out) and out == r0 and d == d0
    try:                                             # may not write into the context object
        sp.apply_resultpath(d, r, "$$.a" if mode == 3 else "$$")
    except ResultPathMatchFailure:
        return d == d0
    return False


@condition(timeout={"quick": 30, "thorough": 60}, functions=["apply_resultpath when the input document is JSON null"],
           note="a null input: a null ResultPath must give the input (null) back, '$' gives the result")
def write_null_document(mode: int, rv: int) -> bool:
    """
    requires: 0 <= mode <= 1
    ensures: _
    """
    if mode == 0:
        return sp.apply_resultpath(None, rv, None) is None
    return sp.apply_resultpath(None, rv, "$") == rv


@condition(timeout={"quick": 90, "thorough": 900},
           bounds={"quick": {"A": "'ab'", "N": 2, "K": "(0, 1, 5, 6)", "NK3": 2, "RK": 1}, "thorough": {"A": "'ab_'", "N": 2, "K": "(0, 1, 3, 4, 5, 6, 7, 10)", "NK3": 6, "RK": 1}},
           functions=["state_engine.merge_result (ResultPath then OutputPath)"])
def merge_result_fresh(p1: str, oi: int, i3: int, s1: int, rk: int, explicit_out: bool) -> bool:
    """
    requires: keyif(True, p1, @A@, @N@) and s1 in @K@ and 0 <= oi < (3 if explicit_out else 6) and 0 <= rk <= @RK@ and 0 <= i3 < (@NK3@ if nested(s1) else 1)
    ensures: _
    """
    opath, otoks = pick(OUT_POOL, oi)
    k3 = pick(NAMES, i3)
    d = wdoc(k3, s1, 1, 11, "s"); d0 = wdoc(k3, s1, 1, 11, "s")
    r = fresh(rk, 7, "r"); r0 = fresh(rk, 7, "r")
    state = {"Type": "Pass", "ResultPath": "$." + p1}
    if not explicit_out:
        state["OutputPath"] = opath
    placed = ref.put(d0, [p1], r0)
    if explicit_out and opath is None:
        opath_eff, otoks_eff = "$", []               # merge_result: a null output_path argument falls back to the state's OutputPath (default '$')
    else:
        opath_eff, otoks_eff = opath, otoks
    try:
        out = se.merge_result(d, CTX, r, state, opath if explicit_out else None)
    except PathMatchFailure:
        return opath_eff is not None and ref.get(placed, otoks_eff) is ref.MISSING
    if not ref.finite_tree(out):
        return False
    if opath_eff is None:
        return out == {}
    return out == ref.get(placed, otoks_eff)


# ---------------------------------------------------------------- (c) through the real Pass state handler
def run_pass(state, data):
    """One real notify() on a machine whose start state is this Pass state.
    Returns ("next", data) | ("failed", error) | ("other", text)."""
    st = dict(state); st["Type"] = "Pass"; st["Next"] = "B"
    asl = {"StartAt": "P", "States": {"P": st, "B": {"Type": "Succeed"}}}
    eng, log = stubs.make_engine(asl)
    ev = stubs.running_event("P", data, eng=eng)
    eng.event_dispatcher.unacknowledged_messages["id1"] = True
    eng.notify(ev, "id1")
    pubs = [l for l in log if l[0] == "publish"]
    bcs = [l for l in log if l[0] == "broadcast"]
    acks = [l for l in log if l[0] == "ack"]
    if len(acks) != 1:
        return ("other", "acks=%d" % len(acks))
    if len(pubs) == 1 and not bcs:
        if pubs[0][1]["context"]["State"]["Name"] != "B":
            return ("other", "next state")
        return ("next", pubs[0][1]["data"])
    if len(bcs) == 1 and not pubs:
        det = bcs[0][2]["detail"]
        return ("failed", det.get("error")) if det["status"] == "FAILED" else ("other", det["status"])
    return ("other", "pubs=%d bcs=%d" % (len(pubs), len(bcs)))


_PB = {"quick": {"A": "'ab'", "N": 2, "K": "(0, 1, 4, 5, 6)", "NK3": 2, "RK": 0}, "thorough": {"A": "'ab_'", "N": 2, "K": "(0, 1, 3, 4, 5, 6, 7, 10)", "NK3": 6, "RK": 0}}
_PF = ["StateEngine.notify>asl_state_Pass", "state_engine.merge_result", "apply_resultpath", "StateEngine.change_state"]


@condition(timeout={"quick": 120, "thorough": 1200}, bounds=_PB, functions=_PF,
           note="Pass state with ResultPath and no Result: the result is the (effective) input itself; with InputPath '$.a' it is a sub-tree of the input")
def pass_resultpath_alias(p1: str, two: bool, p2: str, sub: bool, i3: int, s1: int) -> bool:
    """
    requires: s1 in @K@ and ((not sub) or s1 != 0) and 0 <= i3 < (@NK3@ if nested(s1) else 1)
    requires: keyif(True, p1, @A@, @N@) and keyif(two, p2, @A@, 1)
    ensures: _
    """
    toks = [p1, p2] if two else [p1]
    path = "$." + p1 + ("." + p2 if two else "")
    k3 = pick(NAMES, i3)
    d = wdoc(k3, s1, 1, 11, "s"); d0 = wdoc(k3, s1, 1, 11, "s")
    r0 = wdoc(k3, s1, 1, 11, "s")
    state = {"ResultPath": path}
    if sub:
        state["InputPath"] = "$.a"; r0 = r0["a"]
    got = run_pass(state, d)
    if not ref.placeable(d0, toks):
        return got == ("failed", "States.ResultPathMatchFailure")
    if got[0] != "next":
        return False
    out = got[1]
    return ref.finite_tree(out) and ref.get(out, toks) == r0 and ref.frame_same(d0, out, toks)


@condition(timeout={"quick": 120, "thorough": 1200}, bounds=_PB, functions=_PF,
           note="Pass state with a literal Result placed by ResultPath")
def pass_resultpath_fresh(p1: str, two: bool, p2: str, i3: int, s1: int, rk: int) -> bool:
    """
    requires: s1 in @K@ and 0 <= rk <= @RK@ and 0 <= i3 < (@NK3@ if nested(s1) else 1)
    requires: keyif(True, p1, @A@, @N@) and keyif(two, p2, @A@, 1)
    ensures: _
    """
    toks = [p1, p2] if two else [p1]
    path = "$." + p1 + ("." + p2 if two else "")
    k3 = pick(NAMES, i3)
    d = wdoc(k3, s1, 1, 11, "s"); d0 = wdoc(k3, s1, 1, 11, "s")
    got = run_pass({"ResultPath": path, "Result": fresh(rk, 7, "r")}, d)
    if not ref.placeable(d0, toks):
        return got == ("failed", "States.ResultPathMatchFailure")
    if got[0] != "next":
        return False
    out = got[1]
    return ref.finite_tree(out) and ref.get(out, toks) == fresh(rk, 7, "r") and ref.frame_same(d0, out, toks)


@condition(timeout={"quick": 120, "thorough": 1200},
           bounds={"quick": {"NK": 6, "NK3": 2, "K": "(0, 1, 5, 6)"}, "thorough": {"NK": 12, "NK3": 6, "K": "(0, 1, 4, 5, 6, 7, 9)"}},
           functions=["StateEngine.notify>asl_state_Pass: InputPath and OutputPath", "handle_error (States.Runtime)"],
           note="a path that matches nothing fails the state with States.Runtime; otherwise the next state receives exactly the selected value",
           outside=["a Pass state whose InputPath selects a null member (the null effective input becomes {}: same cause as the null-document finding of read_null_document)"])
def pass_input_output_path(i1: int, i3: int, s1: int, ii: int, oi: int) -> bool:
    """
    requires: s1 in @K@ and 0 <= ii < 6 and 0 <= oi < 6 and (ii == 0 or oi == 0)
    requires: 0 <= i1 < (@NK@ if s1 != 0 else 1) and 0 <= i3 < (@NK3@ if nested(s1) else 1)
    ensures: _
    """
    ipath, itoks = pick(IN_POOL, ii)
    opath, otoks = pick(OUT_POOL, oi)
    k1 = pick(NAMES, i1); k3 = pick(NAMES, i3)
    d = build(k1, "b", k3, s1, 1, False); d0 = build(k1, "b", k3, s1, 1, False)
    got = run_pass({"InputPath": ipath, "OutputPath": opath}, d)
    # effective input -> result -> ResultPath '$' (replace) -> OutputPath
    eff = {} if ipath is None else ref.get(d0, itoks)
    if eff is ref.MISSING:
        return got == ("failed", "States.Runtime")
    res = {} if opath is None else ref.get(eff, otoks)
    if res is ref.MISSING:
        return got == ("failed", "States.Runtime")
    return got == ("next", res)


# member names that are not identifiers, addressed in bracket notation ($['a.b']): legal member names of a JSON object
ODD_NAMES = ["plain", "with space", "a.b", "a$b", "1", "a:b", "a[0]", "x-y"]


@condition(timeout={"quick": 60, "thorough": 120}, functions=["apply_resultpath (bracket notation with member names that are not identifiers)", "apply_path (reading the same path back)"])
def write_bracket_odd_names(ki: int, under: bool, read_back: bool) -> bool:
    """
    requires: 0 <= ki < len(ODD_NAMES)
    ensures: _
    """
    import copy
    key = pick(ODD_NAMES, ki)
    doc = {"keep": 1, "a": {"b": "precious"}, "x": {"keep": 2}}
    before = copy.deepcopy(doc)
    path = ("$.x['%s']" if under else "$['%s']") % key
    try:
        out = sp.apply_resultpath(doc, {"r": 1}, path)
    except ResultPathMatchFailure:
        return False                       # the path is placeable: the member simply does not exist yet
    want = copy.deepcopy(before)
    (want["x"] if under else want)[key] = {"r": 1}
    if out != want:
        return False
    if read_back:
        try:
            return sp.apply_path(out, {}, path) == {"r": 1}
        except Exception:
            return False
    return True
