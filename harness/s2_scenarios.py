"""Scenario corpus for the whole-run (S2) conditions.  Each scenario function takes
the monitor set `which` first, then plain symbolic arguments, and returns "" or a
violation text.  Harness modules wrap them with vf.api.condition."""
import vf; vf.setup_paths()
from vf import s2, sim, stubs
from vf.stubs import pick, cbool, cint

ERRS = ["Boom", "States.Timeout", "States.TaskFailed", "Custom.Error"]


def _run(*a, **k):
    """Scenarios whose arguments were all made concrete by explicit forks (cbool/cint/pick) run the engine outside
    the tracer: only the schedule vector is symbolic and the solver closes the schedule space (~100x faster, which
    is what buys fan-out 3 and nesting).  map_conc keeps the tracer on: its symbolic item count and MaxConcurrency
    flow into the engine's Range arithmetic."""
    k.setdefault("fast", True)
    return s2.run_scenario(*a, **k)


def task(fn, **kw):
    d = {"Type": "Task", "Resource": "arn:aws:rpcmessage:local::function:" + fn}
    d.update(kw)
    return d


def worker(fail, err, tag):
    def w(req):
        if fail:
            return {"errorType": err, "errorMessage": "m-" + tag}
        return {"ok": tag, "in": req}
    return w


def seq_chain(which, fail: bool, ei: int, typ: int, c0: int, c1: int):
    """Pass -> Task(f) -> Wait -> Succeed, STANDARD or EXPRESS; task outcome symbolic."""
    fail = cbool(fail); typ = cint(typ, 0, 1)
    asl = {"StartAt": "P", "States": {
        "P": {"Type": "Pass", "Result": {"p": 1}, "ResultPath": "$.r", "Next": "T"},
        "T": task("f", ResultPath="$.t", Next="W"),
        "W": {"Type": "Wait", "Seconds": 3, "Next": "S"},
        "S": {"Type": "Succeed"}}}
    err = pick(ERRS, ei)
    sm_type = "EXPRESS" if typ == 1 else "STANDARD"
    data = {"x": 1}
    if fail:
        expect = ("FAILED", err)
    else:
        expect = ("SUCCEEDED", {"x": 1, "r": {"p": 1}, "t": {"ok": "f", "in": {"x": 1, "r": {"p": 1}}}})
    return _run(asl, data, [c0, c1], {"f": worker(fail, err, "f")}, which, sm_type, expect)


def par2(which, fa: bool, fb: bool, ei: int, c0: int, c1: int, c2: int, c3: int, c4: int, c5: int, c6: int, c7: int):
    """Parallel with two Task branches, no Retry/Catch; every failure assignment."""
    fa = cbool(fa); fb = cbool(fb)
    asl = {"StartAt": "P", "States": {"P": {"Type": "Parallel", "End": True, "Branches": [
        {"StartAt": "A", "States": {"A": task("fa", End=True)}},
        {"StartAt": "B", "States": {"B": task("fb", End=True)}}]}}}
    err = pick(ERRS, ei)
    if fa or fb:
        expect = ("FAILED", err)
    else:
        expect = ("SUCCEEDED", [{"ok": "fa", "in": {"x": 1}}, {"ok": "fb", "in": {"x": 1}}])
    return _run(asl, {"x": 1}, [c0, c1, c2, c3, c4, c5, c6, c7],
                           {"fa": worker(fa, err, "fa"), "fb": worker(fb, err, "fb")}, which, "STANDARD", expect)


def par_pass_task(which, fb: bool, c0: int, c1: int, c2: int, c3: int, c4: int, c5: int):
    """Parallel: branch 0 = Pass -> Pass, branch 1 = Task; then a Pass after the join."""
    fb = cbool(fb)
    asl = {"StartAt": "P", "States": {
        "P": {"Type": "Parallel", "Next": "Z", "ResultPath": "$.par", "Branches": [
            {"StartAt": "A1", "States": {"A1": {"Type": "Pass", "Result": 1, "ResultPath": "$.a", "Next": "A2"},
                                         "A2": {"Type": "Pass", "End": True}}},
            {"StartAt": "B", "States": {"B": task("fb", End=True)}}]},
        "Z": {"Type": "Pass", "Result": "z", "ResultPath": "$.z", "End": True}}}
    if fb:
        expect = ("FAILED", "Boom")
    else:
        expect = ("SUCCEEDED", {"x": 1, "par": [{"x": 1, "a": 1}, {"ok": "fb", "in": {"x": 1}}], "z": "z"})
    return _run(asl, {"x": 1}, [c0, c1, c2, c3, c4, c5], {"fb": worker(fb, "Boom", "fb")}, which, "STANDARD", expect)


def map_items(which, n: int, mc: int, failing: int, c0: int, c1: int, c2: int, c3: int, c4: int, c5: int, c6: int, c7: int):
    """Map over n items (0..3) with MaxConcurrency mc; item `failing` (or none if -1) fails."""
    # n / mc / failing are made concrete by explicit forks (fast mode): the symbolic flow of the item count and
    # MaxConcurrency into the engine's Range arithmetic is the subject of C05's map_conc and one-step kernels
    n = cint(n, 0, 4); mc = cint(mc, 0, 5); failing = cint(failing, -1, 3)
    asl = {"StartAt": "M", "States": {"M": {"Type": "Map", "ItemsPath": "$.items", "MaxConcurrency": mc, "End": True,
           "Iterator": {"StartAt": "I", "States": {"I": task("fi", End=True)}}}}}
    items = [{"i": k} for k in range(n)]

    def w(req):
        if req.get("i") == failing:
            return {"errorType": "Boom", "errorMessage": "item"}
        return {"done": req["i"]}
    if 0 <= failing < n:
        expect = ("FAILED", "Boom")
    else:
        expect = ("SUCCEEDED", [{"done": k} for k in range(n)])
    return _run(asl, {"items": items}, [c0, c1, c2, c3, c4, c5, c6, c7] + [0] * 24, {"fi": w}, which, "STANDARD", expect)


def two_execs(which, f1: bool, typ: int, c0: int, c1: int, c2: int, c3: int, c4: int, c5: int, c6: int, c7: int):
    """Two concurrent executions of Task(f) -> Pass on one engine; the first request to f fails iff f1."""
    f1 = cbool(f1); typ = cint(typ, 0, 1)
    asl = {"StartAt": "T", "States": {"T": task("f", ResultPath="$.t", Next="Z"),
                                      "Z": {"Type": "Pass", "Result": 1, "ResultPath": "$.z", "End": True}}}
    n = [0]

    def w(req):
        n[0] += 1
        if f1 and n[0] == 1:
            return {"errorType": "Boom", "errorMessage": "first"}
        return {"ok": 1}
    sm_type = "EXPRESS" if typ == 1 else "STANDARD"

    def chk(run, inst, mon):
        res = sorted(str(s2.result_of(a)) for a in mon.per_exec())
        want = [("SUCCEEDED", {"x": 1, "t": {"ok": 1}, "z": 1})] * 2
        if f1:
            want[0] = ("FAILED", "Boom")
        if res != sorted(str(x) for x in want):
            return "outcomes %s, expected %s" % (res, want)
        return ""
    return _run(asl, {"x": 1}, [c0, c1, c2, c3, c4, c5, c6, c7], {"f": w}, which, sm_type, None,
                           n_exec=2, extra_check=chk)


def start_routes(which, route: int, typ: int, c0: int):
    """The start event carries (0) only the machine id, (1) a pre-set Execution name, (2) a full
    StartExecution-shaped Execution block; the record/notifications must use what was supplied."""
    route = cint(route, 0, 2); typ = cint(typ, 0, 1)
    asl = {"StartAt": "Z", "States": {"Z": {"Type": "Pass", "Result": 1, "ResultPath": "$.z", "End": True}}}
    sm_type = "EXPRESS" if typ == 1 else "STANDARD"
    exarn = "arn:aws:states:local:0123456789:execution:m:given"

    def ctx(i):
        if route == 1:
            return {"Execution": {"Name": "given"}}
        if route == 2:
            return {"Execution": {"Id": exarn, "Name": "given", "Input": {"x": 1}, "RoleArn": "r",
                                  "StartTime": stubs.T0_ISO}, "State": {"EnteredTime": stubs.T0_ISO, "Name": ""}}
        return {}

    def chk(run, inst, mon):
        arns = list(mon.per_exec())
        if len(arns) != 1:
            return "executions %s" % arns
        if route in (1, 2) and arns[0] != exarn:
            return "execution ARN %s does not use the supplied name" % arns[0]
        return ""
    return _run(asl, {"x": 1}, [c0], {}, which, sm_type, ("SUCCEEDED", {"x": 1, "z": 1}),
                           start_ctx=ctx, extra_check=chk)


def _fanout_checks(n_branches, branch_state_names, after_state=None, fail_marker=None):
    """C05/C06 history checks on a single fan-out state."""
    def chk(run, inst, mon):
        h = s2.history_of(inst)
        types = [e["type"] for e in h]
        if after_state is not None:
            ent = [i for i, e in enumerate(h) if e["type"].endswith("StateEntered") and e["stateEnteredEventDetails"]["name"] == after_state]
            exits = [i for i, e in enumerate(h) if e["type"].endswith("StateExited") and e["stateExitedEventDetails"]["name"] in branch_state_names]
            if ent and exits and min(ent) < max(exits):
                return "C05 state after the join entered (event %d) before the last branch finished (event %d)" % (min(ent) + 1, max(exits) + 1)
        if fail_marker is not None and fail_marker in types:
            k = types.index(fail_marker)
            late = [e["type"] for e in h[k + 1:] if (e["type"].endswith("StateEntered") and e["stateEnteredEventDetails"]["name"] in branch_state_names)
                    or (e["type"].endswith("StateExited") and e["stateExitedEventDetails"]["name"] in branch_state_names)]
            if late:
                return "C06 sibling branch made progress after the fan-out failed: %s" % late
        return ""
    return chk


def par_catch(which, fa: bool, fb: bool, sib: int, c0: int, c1: int, c2: int, c3: int, c4: int, c5: int, c6: int, c7: int):
    """Parallel with Catch(States.ALL) -> Recover. Branch A = Task fa; branch B = Task fb / Wait / Pass-Pass (sib)."""
    fa = cbool(fa); fb = cbool(fb); sib = cint(sib, 0, 2)
    if sib == 0:
        B = {"StartAt": "B", "States": {"B": task("fb", End=True)}}
    elif sib == 1:
        B = {"StartAt": "B", "States": {"B": {"Type": "Wait", "Seconds": 5, "End": True}}}
    else:
        B = {"StartAt": "B", "States": {"B": {"Type": "Pass", "Next": "B2"}, "B2": {"Type": "Pass", "End": True}}}
    asl = {"StartAt": "P", "States": {
        "P": {"Type": "Parallel", "Next": "Z", "ResultPath": "$.par",
              "Catch": [{"ErrorEquals": ["States.ALL"], "ResultPath": "$.err", "Next": "R"}],
              "Branches": [{"StartAt": "A", "States": {"A": task("fa", End=True)}}, B]},
        "Z": {"Type": "Pass", "End": True},
        "R": {"Type": "Pass", "Result": "recovered", "ResultPath": "$.r", "End": True}}}
    fbx = fb and sib == 0
    workers = {"fa": worker(fa, "Boom", "fa")}
    if sib == 0:
        workers["fb"] = worker(fb, "Boom", "fb")

    def chk(run, inst, mon):
        r = _fanout_checks(2, ("A", "B", "B2"), "Z", "ParallelStateFailed")(run, inst, mon)
        if r:
            return r
        got = s2.result_of()
        if fa or fbx:
            if got[0] != "SUCCEEDED" or not isinstance(got[1], dict) or got[1].get("r") != "recovered" \
               or got[1].get("x") != 1 or (got[1].get("err") or {}).get("Error") != "Boom":
                return "C06/C07 caught failure should reach Recover with the error placed at $.err: %r" % (got,)
            h = [e["type"] for e in s2.history_of(inst)]
            if h.count("ParallelStateFailed") != 1:
                return "C06 ParallelStateFailed logged %d times" % h.count("ParallelStateFailed")
        else:
            bout = {"ok": "fb", "in": {"x": 1}} if sib == 0 else {"x": 1}
            if got != ("SUCCEEDED", {"x": 1, "par": [{"ok": "fa", "in": {"x": 1}}, bout]}):
                return "outcome %r" % (got,)
        return ""
    return _run(asl, {"x": 1}, [c0, c1, c2, c3, c4, c5, c6, c7], workers, which, "STANDARD", None, extra_check=chk)


def par_retry(which, nfail: int, sib: int, c0: int, c1: int, c2: int, c3: int, c4: int, c5: int, c6: int, c7: int, c8: int, c9: int):
    """Parallel with Retry(MaxAttempts 1): fa fails its first `nfail` invocations. Sibling B = Task fb / Wait."""
    nfail = cint(nfail, 0, 2); sib = cint(sib, 0, 1)
    if sib == 0:
        B = {"StartAt": "B", "States": {"B": task("fb", End=True)}}
    else:
        B = {"StartAt": "B", "States": {"B": {"Type": "Wait", "Seconds": 5, "End": True}}}
    asl = {"StartAt": "P", "States": {
        "P": {"Type": "Parallel", "End": True,
              "Retry": [{"ErrorEquals": ["Boom"], "IntervalSeconds": 2, "MaxAttempts": 1, "BackoffRate": 1.0}],
              "Branches": [{"StartAt": "A", "States": {"A": task("fa", End=True)}}, B]}}}
    n = [0]

    def wa(req):
        n[0] += 1
        if n[0] <= nfail:
            return {"errorType": "Boom", "errorMessage": "attempt %d" % n[0]}
        return {"ok": "fa"}
    workers = {"fa": wa}
    if sib == 0:
        workers["fb"] = lambda req: {"ok": "fb"}
    bout = {"ok": "fb"} if sib == 0 else {"x": 1}
    if nfail >= 2:
        expect = ("FAILED", "Boom")
    else:
        expect = ("SUCCEEDED", [{"ok": "fa"}, bout])
    return _run(asl, {"x": 1}, [c0, c1, c2, c3, c4, c5, c6, c7, c8, c9], workers, which, "STANDARD", expect, max_steps=120)


def map_conc(which, n: int, mc: int, c0: int, c1: int, c2: int, c3: int, c4: int, c5: int, c6: int, c7: int, c8: int, c9: int):
    """C05: Map over n items with MaxConcurrency mc (both symbolic, flow into the engine); all succeed."""
    asl = {"StartAt": "M", "States": {
        "M": {"Type": "Map", "ItemsPath": "$.items", "MaxConcurrency": mc, "Next": "Z", "ResultPath": "$.out",
              "Iterator": {"StartAt": "I", "States": {"I": task("fi", End=True)}}},
        "Z": {"Type": "Pass", "End": True}}}
    items = [{"i": k} for k in range(n)]
    peak = [0]

    def on(run, inst):
        pass

    def chk(run, inst, mon):
        h = s2.history_of(inst)
        started = [e["mapIterationStartedEventDetails"]["index"] for e in h if e["type"] == "MapIterationStarted"]
        if sorted(started) != list(range(n)):
            return "C05 MapIterationStarted indices %s, expected each of 0..%d once" % (started, n - 1)
        infl = 0; mx = 0
        for e in h:
            if e["type"] == "MapIterationStarted":
                infl += 1; mx = max(mx, infl)
            elif e["type"] == "TaskStateExited" and e["stateExitedEventDetails"]["name"] == "I":
                infl -= 1
        if mc > 0 and mx > mc:
            return "C05 %d iterations in flight with MaxConcurrency %d" % (mx, mc)
        return _fanout_checks(n, ("I",), "Z")(run, inst, mon)
    expect = ("SUCCEEDED", {"items": items, "out": [{"done": k} for k in range(n)]})
    return s2.run_scenario(asl, {"items": items}, [c0, c1, c2, c3, c4, c5, c6, c7, c8, c9], {"fi": lambda req: {"done": req["i"]}},
                           which, "STANDARD", expect, max_steps=150, extra_check=chk)


def par3(which, c0: int, c1: int, c2: int, c3: int, c4: int, c5: int, c6: int, c7: int, c8: int, c9: int):
    """C05 (thorough): three branches, outputs must land at their own index."""
    asl = {"StartAt": "P", "States": {"P": {"Type": "Parallel", "End": True, "Branches": [
        {"StartAt": "A", "States": {"A": task("fa", End=True)}},
        {"StartAt": "B", "States": {"B": {"Type": "Pass", "Result": "b", "End": True}}},
        {"StartAt": "C", "States": {"C": task("fc", End=True)}}]}}}
    return _run(asl, {"x": 1}, [c0, c1, c2, c3, c4, c5, c6, c7, c8, c9],
                           {"fa": lambda r: {"ok": "fa"}, "fc": lambda r: {"ok": "fc"}}, which, "STANDARD",
                           ("SUCCEEDED", [{"ok": "fa"}, "b", {"ok": "fc"}]), max_steps=120)


# ---------------------------------------------------------------------------
# Registration: wrap scenarios as conditions of a property harness
# ---------------------------------------------------------------------------
ENGINE_FUNCS = ["StateEngine.notify and its nested state handlers", "start_execution", "end_execution", "change_state",
                "broadcast_notification", "update_execution_history", "branch_has_terminated", "check_pending_results",
                "asl_state_collect_results", "handle_error", "TaskDispatcher.execute_task/handle_rpcmessage_response/cancel_task",
                "EventDispatcher.start/dispatch/publish/acknowledge/broadcast"]

SCN = {
    # name: (requires-lines, quick timeout, thorough timeout, tiers)
    "seq_chain": (["0 <= ei < 4 and 0 <= typ < 2"], 120, 300, ("quick", "thorough")),
    "two_execs": (["0 <= typ < 2"], 300, 900, ("quick", "thorough")),
    "start_routes": (["0 <= route < 3 and 0 <= typ < 2"], 60, 120, ("quick", "thorough")),
    "par2": (["0 <= ei < 2"], 300, 900, ("quick", "thorough")),
    "par_pass_task": ([], 300, 900, ("quick", "thorough")),
    "par_catch": (["0 <= sib < 3"], 600, 1800, ("quick", "thorough")),
    "par_retry": (["0 <= nfail < 3 and 0 <= sib < 2"], 900, 2400, ("thorough",)),
    "map_items": (["0 <= n <= @N@ and 0 <= mc <= n + 1 and -1 <= failing < n"], 600, 1800, ("quick", "thorough")),
    "map_conc": (["0 <= n <= @N@ and 0 <= mc <= n + 1"], 600, 2400, ("quick", "thorough")),
    "par3": ([], 900, 2400, ("thorough",)),
}


OWN_BOUNDS = {"map_items": {"quick": {"N": 3}, "thorough": {"N": 4}}}


def register(glob, which, names, split=None):
    """Create `@condition` wrappers named like the scenarios in module namespace `glob`.
    `split` optionally maps a scenario name to a list of (suffix, extra-requires) pairs so that
    a scenario is decided as several conditions running in parallel."""
    import inspect
    from vf.api import condition
    for name in names:
        fn = globals()[name]
        req, tq, tt, tiers = SCN[name]
        params = list(inspect.signature(fn).parameters.values())[1:]
        sig = ", ".join("%s: %s" % (p.name, p.annotation.__name__) for p in params)
        call = ", ".join(p.name for p in params)
        variants = (split or {}).get(name) or [("", None)]
        for suffix, extra in variants:
            cname = name + suffix
            lines = ["requires: " + r for r in req]
            if extra:
                lines.append("requires: " + extra)
            if not lines:
                lines = ["requires: True"]
            lines.append('ensures: _ == ""')
            doc = "\n    ".join(lines)
            src = "def %s(%s) -> str:\n    '''\n    %s\n    '''\n    return _fn(_W, %s)\n" % (cname, sig, doc, call)
            ns = {"_fn": fn, "_W": set(which)}
            exec(src, ns)
            f = ns[cname]
            f.__module__ = glob["__name__"]
            f.__doc__ = "\n    " + doc + "\n    "
            f = condition(timeout={"quick": tq, "thorough": tt}, tiers=tiers, functions=ENGINE_FUNCS,
                          bounds=OWN_BOUNDS.get(name, {"quick": {"N": 2}, "thorough": {"N": 3}}), note=(fn.__doc__ or "").strip())(f)
            glob[cname] = f


BIG = "a" * 262200


def seq_misc(which, v: int, typ: int, c0: int, c1: int):
    """Single-state outcomes not covered by seq_chain: Choice (match / no match / oversize output),
    Fail, runtime path failure, ResultPath failure, missing Next."""
    v = cint(v, 0, 7); typ = cint(typ, 0, 1)
    S = {"Type": "Succeed"}
    data = {"x": 1}
    expect = None
    if v == 0:
        first = {"Type": "Choice", "Choices": [{"Variable": "$.x", "NumericEquals": 1, "Next": "S"}]}
        expect = ("SUCCEEDED", {"x": 1})
    elif v == 1:
        first = {"Type": "Choice", "Choices": [{"Variable": "$.x", "NumericEquals": 2, "Next": "S"}]}
        expect = ("FAILED", "States.NoChoiceMatched")
    elif v == 2:
        first = {"Type": "Fail", "Error": "MyErr", "Cause": "c"}
        expect = ("FAILED", "MyErr")
    elif v == 3:
        first = {"Type": "Pass", "InputPath": "$.zz", "Next": "S"}
        expect = ("FAILED", "States.Runtime")
    elif v == 4:
        first = task("f", ResultPath="$.x.y", Next="S")
        expect = ("FAILED", "States.ResultPathMatchFailure")
    elif v == 5:
        first = {"Type": "Pass"}
        expect = ("FAILED", "States.Runtime")
    elif v == 7:
        first = {"Type": "Parallel", "Branches": [], "Next": "S"}
        expect = ("SUCCEEDED", [])
    else:
        first = {"Type": "Choice", "Choices": [{"Variable": "$.x", "NumericEquals": 1, "Next": "S"}]}
        data = {"x": 1, "big": BIG}
        expect = ("FAILED", "States.DataLimitExceeded")
    asl = {"StartAt": "A", "States": {"A": first, "S": S}}
    sm_type = "EXPRESS" if typ == 1 else "STANDARD"
    return _run(asl, data, [c0, c1], {"f": worker(False, "", "f")}, which, sm_type, expect)


SCN["seq_misc"] = (["0 <= v <= 7 and 0 <= typ < 2"], 240, 600, ("quick", "thorough"))


def par_wait_fail(which, c0: int, c1: int, c2: int, c3: int, c4: int, c5: int):
    """Parallel without Catch: branch A = Task fa that fails, branch B = Wait 5 s. The Wait must be
    cancelled; nothing may happen when its (cleared) timer would have fired."""
    asl = {"StartAt": "P", "States": {"P": {"Type": "Parallel", "End": True, "Branches": [
        {"StartAt": "A", "States": {"A": task("fa", End=True)}},
        {"StartAt": "B", "States": {"B": {"Type": "Wait", "Seconds": 5, "Next": "B2"}, "B2": {"Type": "Pass", "End": True}}}]}}}
    return _run(asl, {"x": 1}, [c0, c1, c2, c3, c4, c5], {"fa": worker(True, "Boom", "fa")}, which, "STANDARD",
                           ("FAILED", "Boom"), extra_check=_fanout_checks(2, ("A", "B", "B2"), None, "ParallelStateFailed"))


def par_branch_retry(which, bfail: bool, c0: int, c1: int, c2: int, c3: int, c4: int, c5: int, c6: int, c7: int):
    """Branch A = Task fa with its own Retry (2 s interval) that fails once and then succeeds; branch B = Task fb
    that (bfail) fails unhandled while A is waiting for its retry delay. A terminated branch must not be retried."""
    bfail = cbool(bfail)
    asl = {"StartAt": "P", "States": {"P": {"Type": "Parallel", "End": True, "Branches": [
        {"StartAt": "A", "States": {"A": task("fa", End=True, Retry=[{"ErrorEquals": ["Flaky"], "IntervalSeconds": 2, "MaxAttempts": 2, "BackoffRate": 1.0}])}},
        {"StartAt": "B", "States": {"B": task("fb", End=True)}}]}}}
    n = [0]

    def wa(req):
        n[0] += 1
        return {"errorType": "Flaky", "errorMessage": "first"} if n[0] == 1 else {"ok": "fa"}
    expect = ("FAILED", "Boom") if bfail else ("SUCCEEDED", [{"ok": "fa"}, {"ok": "fb", "in": {"x": 1}}])

    def chk(run, inst, mon):
        if bfail and n[0] > 1 and False:
            return ""
        return _fanout_checks(2, ("A", "B"), None, "ParallelStateFailed")(run, inst, mon)
    return _run(asl, {"x": 1}, [c0, c1, c2, c3, c4, c5, c6, c7], {"fa": wa, "fb": worker(bfail, "Boom", "fb")},
                           which, "STANDARD", expect, extra_check=chk, max_steps=120)


def par_inner_catch(which, bfail: bool, c0: int, c1: int, c2: int, c3: int, c4: int, c5: int, c6: int, c7: int):
    """Branch A: Task fa fails, is caught INSIDE the branch and goes on to a 5 s Wait; branch B: Task fb that
    (bfail) fails unhandled afterwards. The caught branch's Wait must be cancelled with the rest."""
    bfail = cbool(bfail)
    asl = {"StartAt": "P", "States": {"P": {"Type": "Parallel", "End": True, "Branches": [
        {"StartAt": "A", "States": {"A": task("fa", Next="AZ", Catch=[{"ErrorEquals": ["States.ALL"], "Next": "AW"}]),
                                    "AW": {"Type": "Wait", "Seconds": 5, "Next": "AZ"}, "AZ": {"Type": "Pass", "Result": "a", "End": True}}},
        {"StartAt": "B", "States": {"B": {"Type": "Wait", "Seconds": 1, "Next": "B1"}, "B1": task("fb", End=True)}}]}}}
    expect = ("FAILED", "Boom") if bfail else ("SUCCEEDED", ["a", {"ok": "fb", "in": {"x": 1}}])
    return _run(asl, {"x": 1}, [c0, c1, c2, c3, c4, c5, c6, c7], {"fa": worker(True, "Oops", "fa"), "fb": worker(bfail, "Boom", "fb")},
                           which, "STANDARD", expect, extra_check=_fanout_checks(2, ("A", "AW", "AZ", "B", "B1"), None, "ParallelStateFailed"), max_steps=120)


SCN["par_wait_fail"] = ([], 300, 900, ("quick", "thorough"))
SCN["par_branch_retry"] = ([], 600, 1800, ("quick", "thorough"))
SCN["par_inner_catch"] = ([], 600, 1800, ("quick", "thorough"))


def nested_par(which, fail: bool, c0: int, c1: int, c2: int, c3: int, c4: int, c5: int, c6: int, c7: int, c8: int, c9: int):
    """Two levels of nesting: outer Parallel P = [inner Parallel Q = [Pass L0 -> Pass Leaf1, Task fq], Task fo].
    fo fails iff `fail`; then nothing of the inner group may run on."""
    fail = cbool(fail)
    inner = {"Type": "Parallel", "End": True, "Branches": [
        {"StartAt": "L0", "States": {"L0": {"Type": "Pass", "Result": "l0", "Next": "Leaf1"}, "Leaf1": {"Type": "Pass", "Result": "l1", "End": True}}},
        {"StartAt": "QT", "States": {"QT": task("fq", End=True)}}]}
    asl = {"StartAt": "P", "States": {"P": {"Type": "Parallel", "End": True, "Branches": [
        {"StartAt": "Q", "States": {"Q": inner}},
        {"StartAt": "O", "States": {"O": task("fo", End=True)}}]}}}
    expect = ("FAILED", "Boom") if fail else ("SUCCEEDED", [["l1", {"ok": "fq", "in": {"x": 1}}], {"ok": "fo", "in": {"x": 1}}])
    return _run(asl, {"x": 1}, [c0, c1, c2, c3, c4, c5, c6, c7, c8, c9], {"fq": worker(False, "", "fq"), "fo": worker(fail, "Boom", "fo")},
                           which, "STANDARD", expect, extra_check=_fanout_checks(2, ("L0", "Leaf1", "QT", "Q", "O"), None, "ParallelStateFailed"), max_steps=150)


SCN["nested_par"] = ([], 900, 2400, ("quick", "thorough"))


def poison_midrun(which, kind: int, c0: int, c1: int, c2: int, c3: int):
    """A poison message (not JSON / JSON scalar / object without context / unknown machine) arrives on the
    instance queue while a Task event of a healthy execution is parked unacknowledged. The poison must be
    acknowledged by itself and the healthy execution must be unaffected."""
    kind = cint(kind, 0, 3)
    asl = {"StartAt": "T", "States": {"T": task("f", ResultPath="$.t", Next="Z"), "Z": {"Type": "Pass", "Result": 1, "ResultPath": "$.z", "End": True}}}
    bodies = ["{not json", "5", '{"data": {}}', '{"data": {}, "context": {"StateMachine": {"Id": "arn:aws:states:local:0123456789:stateMachine:nope"}}}']
    body = pick(bodies, kind)

    def w(req):
        m = sim.Message(body)
        m.message_id = "poison"
        sim.BROKER.publish("ev-i1", m)
        return {"ok": 1}

    def chk(run, inst, mon):
        acks = [o for o in sim.BROKER.oplog if o[0] == "ack" and o[2] == "poison"]
        if len(acks) != 1:
            return "C18/C19 poison message acknowledged %d times" % len(acks)
        return ""
    return _run(asl, {"x": 1}, [c0, c1, c2, c3], {"f": w}, which, "STANDARD",
                           ("SUCCEEDED", {"x": 1, "t": {"ok": 1}, "z": 1}), extra_check=chk)


SCN["poison_midrun"] = (["0 <= kind < 4"], 300, 600, ("quick", "thorough"))


def fan_retry_inner_retry(which, kind: int, nfail: int, c0: int, c1: int, c2: int, c3: int, c4: int, c5: int):
    """A Parallel (kind 0) / Map (kind 1) state with its own Retry (MaxAttempts 1) whose branch Task has a Retry
    (MaxAttempts 1) too; the task fails its first `nfail` invocations. The retry budgets are per state: the inner
    Task gets 2 attempts per attempt of the fan-out state, the fan-out state gets 2 attempts."""
    kind = cint(kind, 0, 1); nfail = cint(nfail, 0, 4)
    inner_retry = [{"ErrorEquals": ["Boom"], "IntervalSeconds": 1, "MaxAttempts": 1, "BackoffRate": 1.0}]
    outer_retry = [{"ErrorEquals": ["Boom"], "IntervalSeconds": 3, "MaxAttempts": 1, "BackoffRate": 1.0}]
    A = {"StartAt": "A", "States": {"A": task("fa", End=True, Retry=inner_retry)}}
    if kind == 0:
        st = {"Type": "Parallel", "End": True, "Retry": outer_retry, "Branches": [A, {"StartAt": "B", "States": {"B": {"Type": "Pass", "Result": "b", "End": True}}}]}
        data = {"x": 1}
    else:
        st = {"Type": "Map", "ItemsPath": "$.items", "End": True, "Retry": outer_retry, "Iterator": A}
        data = {"items": [{"i": 0}]}
    asl = {"StartAt": "P", "States": {"P": st}}
    n = [0]; times = []

    def wa(req):
        n[0] += 1
        times.append(stubs.CLOCK.now - 1_700_000_000.0)
        if n[0] <= nfail:
            return {"errorType": "Boom", "errorMessage": "attempt %d" % n[0]}
        return {"ok": "fa"}
    sched = [0.0, 1.0, 4.0, 5.0]
    att = min(nfail, 3) + 1

    def chk(run, inst, mon):
        if times != sched[:att]:
            return "C07 task requested at %s, expected %s (inner budget 2 attempts per attempt of the fan-out state, fan-out budget 2)" % (times, sched[:att])
        return ""
    if nfail >= 4:
        expect = ("FAILED", "Boom")
    else:
        expect = ("SUCCEEDED", [{"ok": "fa"}, "b"] if kind == 0 else [{"ok": "fa"}])
    return _run(asl, data, [c0, c1, c2, c3, c4, c5], {"fa": wa}, which, "STANDARD", expect, extra_check=chk, max_steps=160)


SCN["fan_retry_inner_retry"] = (["0 <= kind < 2 and 0 <= nfail <= 4"], 600, 1800, ("quick", "thorough"))


def nested_inner_catch(which, mode: int, q2: int, c0: int, c1: int, c2: int, c3: int, c4: int, c5: int, c6: int, c7: int, c8: int, c9: int, c10: int, c11: int):
    """Outer Parallel P = [inner Parallel Q = [Task fq1 (fails), Q2 = Wait 5 s (q2 == 0) / Task fq2 (q2 == 1)], Task fo].
    Q handles its own failure with a Catch (mode 0) or a Retry (mode 1, second attempt succeeds): only Q's branches
    are cut short - the outer sibling fo, which is not part of the failed Parallel state, must run on undisturbed."""
    mode = cint(mode, 0, 1); q2 = cint(q2, 0, 1)
    Q2 = {"Type": "Wait", "Seconds": 5, "End": True} if q2 == 0 else task("fq2", End=True)
    inner = {"Type": "Parallel", "Next": "QR", "Branches": [
        {"StartAt": "Q1", "States": {"Q1": task("fq1", End=True)}},
        {"StartAt": "Q2", "States": {"Q2": Q2}}]}
    if mode == 0:
        inner["Catch"] = [{"ErrorEquals": ["States.ALL"], "ResultPath": "$.err", "Next": "QR"}]
    else:
        inner["Retry"] = [{"ErrorEquals": ["Boom"], "IntervalSeconds": 1, "MaxAttempts": 1, "BackoffRate": 1.0}]
    asl = {"StartAt": "P", "States": {"P": {"Type": "Parallel", "End": True, "Branches": [
        {"StartAt": "Q", "States": {"Q": inner, "QR": {"Type": "Pass", "Result": "qr", "End": True}}},
        {"StartAt": "O", "States": {"O": task("fo", End=True)}}]}}}
    n = [0]

    def wq1(req):
        n[0] += 1
        if n[0] == 1:
            return {"errorType": "Boom", "errorMessage": "q1"}
        return {"ok": "fq1"}
    expect = ("SUCCEEDED", ["qr", {"ok": "fo", "in": {"x": 1}}])
    workers = {"fq1": wq1, "fo": worker(False, "", "fo")}
    if q2 == 1:
        workers["fq2"] = worker(False, "", "fq2")
    return _run(asl, {"x": 1}, [c0, c1, c2, c3, c4, c5, c6, c7, c8, c9, c10, c11], workers,
                           which, "STANDARD", expect, max_steps=200)


SCN["nested_inner_catch"] = (["0 <= mode < 2 and 0 <= q2 < 2"], 900, 3000, ("quick", "thorough"))


def exec_timeout(which, kind: int, typ: int, c0: int, c1: int, c2: int, c3: int, c4: int, c5: int):
    """The machine's TimeoutSeconds (2 s) expires while the execution is blocked: in a Wait of 5 s (kind 0), in a Task
    whose worker never replies (kind 1), in a Parallel whose branches are a Wait and such a Task (kind 2), in a Map
    iteration's Wait (kind 3).  The execution fails with States.Timeout at +2 s, exactly once, and leaves nothing behind."""
    kind = cint(kind, 0, 3); typ = cint(typ, 0, 1)
    W = {"Type": "Wait", "Seconds": 5, "End": True}
    T = task("never", End=True)
    if kind == 0:
        states = {"A": W}
    elif kind == 1:
        states = {"A": T}
    elif kind == 2:
        states = {"A": {"Type": "Parallel", "End": True, "Branches": [{"StartAt": "W", "States": {"W": W}}, {"StartAt": "T", "States": {"T": T}}]}}
    else:
        states = {"A": {"Type": "Map", "ItemsPath": "$.items", "End": True, "Iterator": {"StartAt": "W", "States": {"W": W}}}}
    asl = {"StartAt": "A", "TimeoutSeconds": 2, "States": states}
    sm_type = "EXPRESS" if typ == 1 else "STANDARD"

    def chk(run, inst, mon):
        ts = sim.terminals()
        if len(ts) != 1:
            return "terminals %d" % len(ts)
        d = ts[0]
        if (d["stopDate"] - d["startDate"]) != 2000:
            return "C08 execution time-out after %d ms, expected 2000" % (d["stopDate"] - d["startDate"])
        return ""
    return _run(asl, {"x": 1, "items": [1, 2]}, [c0, c1, c2, c3, c4, c5], {"never": lambda req: None}, which, sm_type,
                ("FAILED", "States.Timeout"), extra_check=chk, max_steps=120)


SCN["exec_timeout"] = (["0 <= kind < 4 and 0 <= typ < 2"], 300, 900, ("quick", "thorough"))
