"""C06 - a failing branch fails its Parallel/Map once; siblings cannot disturb the result."""
import vf; vf.setup_paths()
import s2_scenarios as scn
import vh_c02

PROPERTY = "C06"
ASSUMPTIONS = vh_c02.ASSUMPTIONS[:4] + [
    "monitors C02 (exactly one terminal notification, immutable record), C03 (drained at quiescence, no double ack), C09 (nothing appended to the history after the terminal event) run after every step; scenario oracles: the execution fails with the first-handled branch's error (no Catch/Retry), reaches the Catcher's Next with the Error Output placed by ResultPath (Catch), or succeeds on the retried attempt (Retry); after ParallelStateFailed no sibling branch state is entered or exited",
]
SPLIT = {"nested_par": [("_fail", "fail")], "nested_inner_catch": [("_catch", "mode == 0 and q2 == 0"), ("_retry", "mode == 1 and q2 == 0"), ("_catch_task", "mode == 0 and q2 == 1"), ("_retry_task", "mode == 1 and q2 == 1")], "par_branch_retry": [("_fail", "bfail")], "par_inner_catch": [("_fail", "bfail")], "par2": [("_a", "fa and not fb"), ("_b", "fb and not fa"), ("_ab", "fa and fb")],
         "par_catch": [("_s%d%s" % (s, t), "sib == %d and %s" % (s, c)) for s in range(3)
                       for t, c in (("_a", "fa and not fb"), ("_b", "fb and not fa"), ("_ab", "fa and fb"))
                       if not (s != 0 and t != "_a")],
         "par_retry": [("_f%d_s%d" % (f, s), "nfail == %d and sib == %d" % (f, s)) for f in (1, 2) for s in (0, 1)],
         "map_items": [("_fail", "failing >= 0 and n >= 1")]}
scn.register(globals(), {"C06", "C02", "C03", "C09"}, ["par2", "par_catch", "par_retry", "map_items", "par_wait_fail", "par_branch_retry", "par_inner_catch", "nested_par", "nested_inner_catch"], SPLIT)

import s2_more as more
more.register(globals(), {"C06", "C02", "C03", "C09"}, ["par3_mixed", "map_fail_batches", "map_in_par", "par_in_map", "branch_fail_state", "par_longform"],
              {"par3_mixed": [("_a", "fa and not fb"), ("_b", "fb and not fa"), ("_ab", "fa and fb")], "map_in_par": [("_k%d_fail" % k, "kind == %d and (fo or fi >= 0)" % k) for k in range(3)],
               "par_in_map": [("_fail", "failing >= 0")], "branch_fail_state": [("_fail", "x == 1")],
               "par_longform": [("_fail", "fa or fb")]})

more.register(globals(), {"C06", "C02", "C03", "C09"}, ["branch_retry_kinds", "late_nested"], {"branch_retry_kinds": [("_fail", "bfail")], "late_nested": [("_fail", "bfail")]})

more.register(globals(), {"C06", "C02", "C03", "C09"}, ["fan_catch_paths"])

more.register(globals(), {"C06", "C02", "C03", "C09"}, ["gen_nested"], {"gen_nested": [("_par_ik%d_fail" % i, "rk == 0 and ik == %d and failing > 0" % i) for i in range(3)] + [("_map%d_ik%d_fail" % (m, i), "rk == 1 and rmc == %d and ik == %d and failing > 0" % (m, i)) for m in range(3) for i in range(3)]})

import s2_found as found
found.register(globals(), {"C06", "C02", "C03", "C09"}, ["caught_then_outer_fails", "three_levels", "backstop_after_end"], {"caught_then_outer_fails": [("_a", "a_fails"), ("_noa", "not a_fails")]})
