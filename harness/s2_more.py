"""Second scenario corpus for the whole-run (S2) conditions: wider fan-out, nesting, Map batches with handled
failures, Fail/Choice inside branches, long-form (rpcmessage:invoke) Task resources.  All arguments except the
schedule vector are made concrete by explicit forks, so the engine runs outside the tracer (s2_scenarios._run)
and the solver closes the schedule space of each scenario."""
import vf; vf.setup_paths()
from vf import s2, sim, stubs
from vf.stubs import pick, cbool, cint
import s2_scenarios as scn
from s2_scenarios import task, worker, _run, _fanout_checks, SCN

T0 = 1_700_000_000.0
P16 = ["c%d" % i for i in range(16)]


def ltask(fn, **kw):
    """Long-form invocation: Resource ...:rpcmessage:invoke + Parameters.FunctionName/Payload; the function's
    reply arrives nested under Payload, which OutputPath/ResultSelector strip again in these scenarios."""
    d = {"Type": "Task", "Resource": "arn:aws:states:local::rpcmessage:invoke",
         "Parameters": {"FunctionName": "arn:aws:rpcmessage:local::function:" + fn, "Payload.$": "$"},
         "ResultSelector": {"v.$": "$.Payload"}, "OutputPath": "$.v"}
    d.update(kw)
    return d


def par3_mixed(which, fa: bool, fb: bool, catch: bool, c0: int, c1: int, c2: int, c3: int, c4: int, c5: int, c6: int, c7: int,
               c8: int, c9: int, c10: int, c11: int, c12: int, c13: int, c14: int, c15: int):
    """Three branches: A = short-form Task fa, B = long-form (rpcmessage:invoke) Task fb, C = Wait 2 s -> Pass.
    Every failure assignment of fa/fb; with and without a Catch on the Parallel state."""
    fa = cbool(fa); fb = cbool(fb); catch = cbool(catch)
    P = {"Type": "Parallel", "Next": "Z", "ResultPath": "$.par", "Branches": [
        {"StartAt": "A", "States": {"A": task("fa", End=True)}},
        {"StartAt": "B", "States": {"B": ltask("fb", End=True)}},
        {"StartAt": "C", "States": {"C": {"Type": "Wait", "Seconds": 2, "Next": "C2"}, "C2": {"Type": "Pass", "Result": "c", "End": True}}}]}
    if catch:
        P["Catch"] = [{"ErrorEquals": ["States.ALL"], "ResultPath": "$.err", "Next": "R"}]
    asl = {"StartAt": "P", "States": {"P": P, "Z": {"Type": "Pass", "End": True},
                                      "R": {"Type": "Pass", "Result": "recovered", "ResultPath": "$.r", "End": True}}}

    def chk(run, inst, mon):
        r = _fanout_checks(3, ("A", "B", "C", "C2"), "Z", "ParallelStateFailed")(run, inst, mon)
        if r:
            return r
        got = s2.result_of()
        if fa or fb:
            if catch:
                if got[0] != "SUCCEEDED" or not isinstance(got[1], dict) or got[1].get("r") != "recovered" or got[1].get("x") != 1 \
                   or (got[1].get("err") or {}).get("Error") != "Boom" or "par" in got[1]:
                    return "C06/C07 caught failure should reach R with the Error Output at $.err: %r" % (got,)
            elif got != ("FAILED", "Boom"):
                return "outcome %r, expected FAILED Boom" % (got,)
            h = [e["type"] for e in s2.history_of(inst)]
            if h.count("ParallelStateFailed") != 1:
                return "C06 ParallelStateFailed logged %d times" % h.count("ParallelStateFailed")
        elif got != ("SUCCEEDED", {"x": 1, "par": [{"ok": "fa", "in": {"x": 1}}, {"ok": "fb", "in": {"x": 1}}, "c"]}):
            return "outcome %r" % (got,)
        return ""
    return _run(asl, {"x": 1}, [c0, c1, c2, c3, c4, c5, c6, c7, c8, c9, c10, c11, c12, c13, c14, c15],
                {"fa": worker(fa, "Boom", "fa"), "fb": worker(fb, "Boom", "fb")}, which, "STANDARD", None, extra_check=chk, max_steps=200)


SCN["par3_mixed"] = ([], 900, 2400, ("quick", "thorough"))


def map_iter_catch(which, n: int, mc: int, failing: int, c0: int, c1: int, c2: int, c3: int, c4: int, c5: int, c6: int, c7: int,
                   c8: int, c9: int, c10: int, c11: int, c12: int, c13: int, c14: int, c15: int):
    """Map over n items, MaxConcurrency mc; the iterator is Task fi with a Catch INSIDE the iterator that sends the
    failing item to a slower fallback (Wait 2 s -> Pass). Batches must not overlap, every item is processed exactly
    once, results stay in item order."""
    n = cint(n, 0, 4); mc = cint(mc, 0, 5); failing = cint(failing, -1, 3)
    asl = {"StartAt": "M", "States": {
        "M": {"Type": "Map", "ItemsPath": "$.items", "MaxConcurrency": mc, "Next": "Z", "ResultPath": "$.out",
              "Iterator": {"StartAt": "I", "States": {
                  "I": task("fi", End=True, Catch=[{"ErrorEquals": ["States.ALL"], "ResultPath": "$.e", "Next": "FW"}]),
                  "FW": {"Type": "Wait", "Seconds": 2, "Next": "FB"},
                  "FB": {"Type": "Pass", "Parameters": {"fallback.$": "$.i"}, "End": True}}}},
        "Z": {"Type": "Pass", "End": True}}}
    items = [{"i": k} for k in range(n)]
    seen = []

    def w(req):
        seen.append(req.get("i"))
        if req.get("i") == failing:
            return {"errorType": "Boom", "errorMessage": "item"}
        return {"done": req["i"]}

    def chk(run, inst, mon):
        if sorted(seen) != list(range(n)):
            return "C05 items requested %s, expected each of 0..%d exactly once" % (seen, n - 1)
        h = s2.history_of(inst)
        started = [e["mapIterationStartedEventDetails"]["index"] for e in h if e["type"] == "MapIterationStarted"]
        if sorted(started) != list(range(n)):
            return "C05 MapIterationStarted indices %s, expected each of 0..%d once" % (started, n - 1)
        infl = 0; mx = 0
        for e in h:
            if e["type"] == "MapIterationStarted":
                infl += 1; mx = max(mx, infl)
            elif e["type"] == "PassStateExited" and e["stateExitedEventDetails"]["name"] == "FB":
                infl -= 1      # the fallback path of the failing item has finished
            elif e["type"] == "TaskStateExited" and e["stateExitedEventDetails"]["name"] == "I" and '"done"' in e["stateExitedEventDetails"]["output"]:
                infl -= 1      # an ordinary item has finished (the caught item's Task exits with its Error Output instead)
        if mc > 0 and mx > mc:
            return "C05 %d iterations in flight with MaxConcurrency %d" % (mx, mc)
        return _fanout_checks(n, ("I", "FW", "FB"), "Z")(run, inst, mon)
    out = [({"fallback": k} if k == failing else {"done": k}) for k in range(n)]
    expect = ("SUCCEEDED", {"items": items, "out": out})
    return _run(asl, {"items": items}, [c0, c1, c2, c3, c4, c5, c6, c7, c8, c9, c10, c11, c12, c13, c14, c15], {"fi": w},
                which, "STANDARD", expect, max_steps=300, extra_check=chk)


SCN["map_iter_catch"] = (["0 <= n <= @N@ and 0 <= mc <= n + 1 and -1 <= failing < n"], 900, 2400, ("quick", "thorough"))


def map_fail_batches(which, n: int, mc: int, failing: int, catch: bool, c0: int, c1: int, c2: int, c3: int, c4: int, c5: int, c6: int, c7: int,
                     c8: int, c9: int, c10: int, c11: int, c12: int, c13: int, c14: int, c15: int):
    """Map over n items, MaxConcurrency mc, item `failing` fails unhandled in the iterator; the Map state has a
    Catch (or not). Partly filled last batches included (n not a multiple of mc)."""
    n = cint(n, 1, 4); mc = cint(mc, 0, 5); failing = cint(failing, 0, 3); catch = cbool(catch)
    M = {"Type": "Map", "ItemsPath": "$.items", "MaxConcurrency": mc, "End": True,
         "Iterator": {"StartAt": "I", "States": {"I": task("fi", End=True)}}}
    if catch:
        M["Catch"] = [{"ErrorEquals": ["Boom"], "ResultPath": "$.err", "Next": "R"}]
    asl = {"StartAt": "M", "States": {"M": M, "R": {"Type": "Pass", "Result": "rec", "ResultPath": "$.r", "End": True}}}
    items = [{"i": k} for k in range(n)]

    def w(req):
        if req.get("i") == failing:
            return {"errorType": "Boom", "errorMessage": "item"}
        return {"done": req["i"]}

    def chk(run, inst, mon):
        got = s2.result_of()
        if catch:
            if got[0] != "SUCCEEDED" or not isinstance(got[1], dict) or got[1].get("r") != "rec" or (got[1].get("err") or {}).get("Error") != "Boom" \
               or got[1].get("items") != items:
                return "C06/C07 caught Map failure should reach R with the Error Output at $.err: %r" % (got,)
        elif got != ("FAILED", "Boom"):
            return "outcome %r, expected FAILED Boom" % (got,)
        h = [e["type"] for e in s2.history_of(inst)]
        if h.count("MapStateFailed") != 1:
            return "C06 MapStateFailed logged %d times" % h.count("MapStateFailed")
        return _fanout_checks(n, ("I",), None, "MapStateFailed")(run, inst, mon)
    return _run(asl, {"items": items}, [c0, c1, c2, c3, c4, c5, c6, c7, c8, c9, c10, c11, c12, c13, c14, c15], {"fi": w},
                which, "STANDARD", None, max_steps=300, extra_check=chk)


SCN["map_fail_batches"] = (["1 <= n <= @N@ and 0 <= mc <= n + 1 and 0 <= failing < n"], 900, 2400, ("quick", "thorough"))


def map_in_par(which, fo: bool, fi: int, kind: int, c0: int, c1: int, c2: int, c3: int, c4: int, c5: int, c6: int, c7: int,
               c8: int, c9: int, c10: int, c11: int, c12: int, c13: int, c14: int, c15: int):
    """Nesting: outer Parallel P = [inner fan-out Q, Task fo]. Q is a Map over two items (kind 0: iterator = Pass -> Pass,
    no task pending; kind 1: iterator = Task fi) or a Parallel of two Pass chains (kind 2). fo fails iff `fo`; item
    `fi` of the inner Map fails (kind 1, fi >= 0). After the outer state failed nothing of the inner fan-out may go on,
    the execution ends exactly once and everything is drained."""
    fo = cbool(fo); fi = cint(fi, -1, 1); kind = cint(kind, 0, 2)
    if kind == 0:
        Q = {"Type": "Map", "ItemsPath": "$.items", "End": True, "Iterator": {"StartAt": "I1", "States": {
            "I1": {"Type": "Pass", "Next": "I2"}, "I2": {"Type": "Pass", "Parameters": {"p.$": "$.i"}, "End": True}}}}
        qout = [{"p": 0}, {"p": 1}]
    elif kind == 1:
        Q = {"Type": "Map", "ItemsPath": "$.items", "End": True, "Iterator": {"StartAt": "I1", "States": {"I1": task("fi", End=True)}}}
        qout = [{"done": 0}, {"done": 1}]
    else:
        Q = {"Type": "Parallel", "End": True, "Branches": [
            {"StartAt": "I1", "States": {"I1": {"Type": "Pass", "Next": "I2"}, "I2": {"Type": "Pass", "Result": "l", "End": True}}},
            {"StartAt": "J1", "States": {"J1": {"Type": "Pass", "Next": "J2"}, "J2": {"Type": "Pass", "Result": "r", "End": True}}}]}
        qout = ["l", "r"]
    asl = {"StartAt": "P", "States": {"P": {"Type": "Parallel", "End": True, "Branches": [
        {"StartAt": "Q", "States": {"Q": Q}},
        {"StartAt": "O", "States": {"O": task("fo", End=True)}}]}}}
    data = {"x": 1, "items": [{"i": 0}, {"i": 1}]}

    def wi(req):
        if req.get("i") == fi:
            return {"errorType": "Boom", "errorMessage": "inner"}
        return {"done": req["i"]}
    inner_fails = kind == 1 and fi >= 0
    if fo or inner_fails:
        expect = ("FAILED", "Boom")
    else:
        expect = ("SUCCEEDED", [qout, {"ok": "fo", "in": data}])
    return _run(asl, data, [c0, c1, c2, c3, c4, c5, c6, c7, c8, c9, c10, c11, c12, c13, c14, c15],
                {"fo": worker(fo, "Boom", "fo"), "fi": wi}, which, "STANDARD", expect, max_steps=300,
                extra_check=_fanout_checks(2, ("I1", "I2", "J1", "J2", "Q", "O"), None, "ParallelStateFailed"))


SCN["map_in_par"] = (["-1 <= fi < 2 and 0 <= kind < 3 and (kind == 1 or fi == -1)"], 900, 2400, ("quick", "thorough"))


def par_in_map(which, failing: int, mc: int, c0: int, c1: int, c2: int, c3: int, c4: int, c5: int, c6: int, c7: int,
               c8: int, c9: int, c10: int, c11: int, c12: int, c13: int, c14: int, c15: int):
    """Nesting the other way round: a Map over two items whose iterator is a Parallel [Task fi, Pass]. Item `failing`
    (or none) fails. Results are in item order, each holding the branch outputs in branch order."""
    failing = cint(failing, -1, 1); mc = cint(mc, 0, 2)
    inner = {"Type": "Parallel", "End": True, "Branches": [
        {"StartAt": "A", "States": {"A": task("fi", End=True)}},
        {"StartAt": "B", "States": {"B": {"Type": "Pass", "Parameters": {"b.$": "$.i"}, "End": True}}}]}
    asl = {"StartAt": "M", "States": {"M": {"Type": "Map", "ItemsPath": "$.items", "MaxConcurrency": mc, "End": True,
                                            "Iterator": {"StartAt": "Q", "States": {"Q": inner}}}}}
    data = {"items": [{"i": 0}, {"i": 1}]}

    def wi(req):
        if req.get("i") == failing:
            return {"errorType": "Boom", "errorMessage": "inner"}
        return {"done": req["i"]}
    if failing >= 0:
        expect = ("FAILED", "Boom")
    else:
        expect = ("SUCCEEDED", [[{"done": 0}, {"b": 0}], [{"done": 1}, {"b": 1}]])
    return _run(asl, data, [c0, c1, c2, c3, c4, c5, c6, c7, c8, c9, c10, c11, c12, c13, c14, c15], {"fi": wi},
                which, "STANDARD", expect, max_steps=300,
                extra_check=_fanout_checks(2, ("A", "B", "Q"), None, "MapStateFailed"))


SCN["par_in_map"] = (["-1 <= failing < 2 and 0 <= mc <= 2"], 900, 2400, ("quick", "thorough"))


def branch_fail_state(which, x: int, kind: int, c0: int, c1: int, c2: int, c3: int, c4: int, c5: int, c6: int, c7: int,
                      c8: int, c9: int, c10: int, c11: int):
    """A Fail state (reached through a Choice for x == 1 only) inside a Parallel branch (kind 0) or a Map iterator
    (kind 1); the sibling is a Task that is pending (kind 0) / a second item (kind 1)."""
    x = cint(x, 0, 1); kind = cint(kind, 0, 1)
    sub = {"StartAt": "C", "States": {
        "C": {"Type": "Choice", "Choices": [{"Variable": "$.x", "NumericEquals": 1, "Next": "F"}], "Default": "K"},
        "F": {"Type": "Fail", "Error": "MyErr", "Cause": "because"},
        "K": {"Type": "Pass", "Result": "k", "End": True}}}
    if kind == 0:
        st = {"Type": "Parallel", "End": True, "Branches": [sub, {"StartAt": "T", "States": {"T": task("f", End=True)}}]}
        data = {"x": x}
        ok = ["k", {"ok": "f", "in": {"x": x}}]
        marker = "ParallelStateFailed"
    else:
        st = {"Type": "Map", "ItemsPath": "$.items", "End": True, "Iterator": sub}
        data = {"items": [{"x": 0}, {"x": x}]}
        ok = ["k", "k"]
        marker = "MapStateFailed"
    asl = {"StartAt": "P", "States": {"P": st}}
    expect = ("FAILED", "MyErr") if x == 1 else ("SUCCEEDED", ok)
    return _run(asl, data, [c0, c1, c2, c3, c4, c5, c6, c7, c8, c9, c10, c11], {"f": worker(False, "", "f")}, which, "STANDARD",
                expect, max_steps=200, extra_check=_fanout_checks(2, ("C", "K", "T"), None, marker))


SCN["branch_fail_state"] = (["0 <= x < 2 and 0 <= kind < 2"], 600, 1800, ("quick", "thorough"))


def par_longform(which, fa: bool, fb: bool, catch: bool, c0: int, c1: int, c2: int, c3: int, c4: int, c5: int, c6: int, c7: int,
                 c8: int, c9: int, c10: int, c11: int):
    """Both branches use the long-form rpcmessage:invoke resource (correlation id = event id + '.invoke'): a pending
    long-form Task must be cancelled like any other when its sibling fails, a late reply must change nothing."""
    fa = cbool(fa); fb = cbool(fb); catch = cbool(catch)
    P = {"Type": "Parallel", "End": True, "Branches": [
        {"StartAt": "A", "States": {"A": ltask("fa", Next="A2"), "A2": {"Type": "Pass", "End": True}}},
        {"StartAt": "B", "States": {"B": ltask("fb", Next="B2"), "B2": {"Type": "Pass", "End": True}}}]}
    if catch:
        P["Catch"] = [{"ErrorEquals": ["States.ALL"], "ResultPath": "$.err", "Next": "R"}]
        del P["End"]; P["Next"] = "R"
    asl = {"StartAt": "P", "States": {"P": P, "R": {"Type": "Pass", "End": True}}}

    def chk(run, inst, mon):
        r = _fanout_checks(2, ("A", "A2", "B", "B2"), None, "ParallelStateFailed")(run, inst, mon)
        if r:
            return r
        got = s2.result_of()
        if fa or fb:
            if catch:
                if got[0] != "SUCCEEDED" or not isinstance(got[1], dict) or (got[1].get("err") or {}).get("Error") != "Boom":
                    return "outcome %r, expected the caught Error Output at $.err" % (got,)
            elif got != ("FAILED", "Boom"):
                return "outcome %r, expected FAILED Boom" % (got,)
        elif got != ("SUCCEEDED", [{"ok": "fa", "in": {"x": 1}}, {"ok": "fb", "in": {"x": 1}}]):
            return "outcome %r" % (got,)
        return ""
    return _run(asl, {"x": 1}, [c0, c1, c2, c3, c4, c5, c6, c7, c8, c9, c10, c11],
                {"fa": worker(fa, "Boom", "fa"), "fb": worker(fb, "Boom", "fb")}, which, "STANDARD", None, extra_check=chk, max_steps=200)


SCN["par_longform"] = ([], 600, 1800, ("quick", "thorough"))


def three_execs(which, f: int, typ: int, c0: int, c1: int, c2: int, c3: int, c4: int, c5: int, c6: int, c7: int,
                c8: int, c9: int, c10: int, c11: int):
    """Three concurrent executions of Task(f) -> Wait 1 s -> Pass on one engine; the f-th request (1..3, 0 = none)
    fails. Each execution ends exactly once with its own outcome."""
    f = cint(f, 0, 3); typ = cint(typ, 0, 1)
    asl = {"StartAt": "T", "States": {"T": task("f", ResultPath="$.t", Next="W"), "W": {"Type": "Wait", "Seconds": 1, "Next": "Z"},
                                      "Z": {"Type": "Pass", "Result": 1, "ResultPath": "$.z", "End": True}}}
    n = [0]

    def w(req):
        n[0] += 1
        if n[0] == f:
            return {"errorType": "Boom", "errorMessage": "nth"}
        return {"ok": 1}
    sm_type = "EXPRESS" if typ == 1 else "STANDARD"

    def chk(run, inst, mon):
        res = sorted(str(s2.result_of(a)) for a in mon.per_exec())
        want = [("SUCCEEDED", {"x": 1, "t": {"ok": 1}, "z": 1})] * 3
        if f:
            want[0] = ("FAILED", "Boom")
        if res != sorted(str(x) for x in want):
            return "outcomes %s, expected %s" % (res, want)
        return ""
    return _run(asl, {"x": 1}, [c0, c1, c2, c3, c4, c5, c6, c7, c8, c9, c10, c11], {"f": w}, which, sm_type, None,
                n_exec=3, extra_check=chk, max_steps=300)


SCN["three_execs"] = (["0 <= f <= 3 and 0 <= typ < 2"], 900, 2400, ("thorough",))


_TAIL6 = " and ".join("c%d == 0" % i for i in range(6, 16))
BOUNDS = {"gen_nested": {"quick": {"TAIL": _TAIL6}, "thorough": {"TAIL": "True"}}, "map_iter_catch": {"quick": {"N": 3}, "thorough": {"N": 4}}, "map_fail_batches": {"quick": {"N": 3}, "thorough": {"N": 4}}}
_ALL = ("par3_mixed", "map_iter_catch", "map_fail_batches", "map_in_par", "par_in_map", "branch_fail_state", "par_longform", "three_execs")
for _n in _ALL:
    scn.__dict__[_n] = globals()[_n]      # scn.register looks scenarios up in its own namespace


def register(glob, which, names, split=None):
    scn.register(glob, which, names, split)
    for name in names:
        if name in BOUNDS:
            for cname, f in list(glob.items()):
                c = getattr(f, "_vf", None)
                if c is not None and (cname == name or cname.startswith(name + "_")):
                    c.bounds = BOUNDS[name]


def branch_retry_kinds(which, kind: int, bfail: bool, c0: int, c1: int, c2: int, c3: int, c4: int, c5: int, c6: int, c7: int, c8: int, c9: int):
    """Branch A holds a state with its own Retry (2 s interval) around a Task fa that fails once and then succeeds:
    the Task itself (kind 0), a nested Parallel (kind 1) or a nested Map over one item (kind 2).  Branch B is a Task fb
    that (bfail) fails unhandled while A is sitting out its retry delay - A then is nothing but a pending timer, and
    when that timer fires the retried state must notice that its branch was terminated."""
    kind = cint(kind, 0, 2); bfail = cbool(bfail)
    retry = [{"ErrorEquals": ["Flaky"], "IntervalSeconds": 2, "MaxAttempts": 2, "BackoffRate": 1.0}]
    if kind == 0:
        A = task("fa", End=True, Retry=retry)
        aout = {"ok": "fa"}
    elif kind == 1:
        A = {"Type": "Parallel", "End": True, "Retry": retry, "Branches": [{"StartAt": "AT", "States": {"AT": task("fa", End=True)}}]}
        aout = [{"ok": "fa"}]
    else:
        A = {"Type": "Map", "ItemsPath": "$.items", "End": True, "Retry": retry, "Iterator": {"StartAt": "AT", "States": {"AT": task("fa", End=True)}}}
        aout = [{"ok": "fa"}]
    asl = {"StartAt": "P", "States": {"P": {"Type": "Parallel", "End": True, "Branches": [
        {"StartAt": "A", "States": {"A": A}},
        {"StartAt": "B", "States": {"B": task("fb", End=True)}}]}}}
    n = [0]

    def wa(req):
        n[0] += 1
        return {"errorType": "Flaky", "errorMessage": "first"} if n[0] == 1 else {"ok": "fa"}
    data = {"x": 1, "items": [{"i": 0}]}
    expect = ("FAILED", "Boom") if bfail else ("SUCCEEDED", [aout, {"ok": "fb", "in": data}])
    return _run(asl, data, [c0, c1, c2, c3, c4, c5, c6, c7, c8, c9], {"fa": wa, "fb": worker(bfail, "Boom", "fb")},
                which, "STANDARD", expect, extra_check=_fanout_checks(2, ("A", "AT", "B"), None, "ParallelStateFailed"), max_steps=200)


SCN["branch_retry_kinds"] = (["0 <= kind < 3"], 600, 1800, ("quick", "thorough"))
scn.__dict__["branch_retry_kinds"] = branch_retry_kinds


def late_nested(which, kind: int, bfail: bool, c0: int, c1: int, c2: int, c3: int, c4: int, c5: int, c6: int, c7: int, c8: int, c9: int):
    """Branch A = Pass -> Q, where Q is a nested Parallel (kind 0) or Map (kind 1) of Pass chains; branch B = Task fb
    that (bfail) fails unhandled.  In some schedules Q's event is still queued when the enclosing Parallel fails: Q is
    then entered for a branch that is already terminated - its event must be dropped AND acknowledged."""
    kind = cint(kind, 0, 1); bfail = cbool(bfail)
    if kind == 0:
        Q = {"Type": "Parallel", "End": True, "Branches": [{"StartAt": "L", "States": {"L": {"Type": "Pass", "Result": "l", "End": True}}}]}
        qout = ["l"]
    else:
        Q = {"Type": "Map", "ItemsPath": "$.items", "End": True, "Iterator": {"StartAt": "L", "States": {"L": {"Type": "Pass", "Result": "l", "End": True}}}}
        qout = ["l"]
    asl = {"StartAt": "P", "States": {"P": {"Type": "Parallel", "End": True, "Branches": [
        {"StartAt": "A1", "States": {"A1": {"Type": "Pass", "Next": "Q"}, "Q": Q}},
        {"StartAt": "B", "States": {"B": task("fb", End=True)}}]}}}
    data = {"x": 1, "items": [{"i": 0}]}
    expect = ("FAILED", "Boom") if bfail else ("SUCCEEDED", [qout, {"ok": "fb", "in": data}])
    return _run(asl, data, [c0, c1, c2, c3, c4, c5, c6, c7, c8, c9], {"fb": worker(bfail, "Boom", "fb")},
                which, "STANDARD", expect, extra_check=_fanout_checks(2, ("A1", "Q", "L", "B"), None, "ParallelStateFailed"), max_steps=200)


SCN["late_nested"] = (["0 <= kind < 2"], 600, 1800, ("quick", "thorough"))
scn.__dict__["late_nested"] = late_nested


def map_in_map(which, omc: int, imc: int, c0: int, c1: int, c2: int, c3: int, c4: int, c5: int, c6: int, c7: int, c8: int, c9: int,
               c10: int, c11: int):
    """A Map (MaxConcurrency omc) over two items whose iterator is itself a Map (MaxConcurrency imc) over the item's
    two members, each processed by a Pass.  Results: outer item order, inner member order."""
    omc = cint(omc, 0, 2); imc = cint(imc, 0, 2)
    inner = {"Type": "Map", "ItemsPath": "$.m", "MaxConcurrency": imc, "End": True,
             "Iterator": {"StartAt": "L", "States": {"L": {"Type": "Pass", "Parameters": {"v.$": "$.k"}, "End": True}}}}
    asl = {"StartAt": "O", "States": {"O": {"Type": "Map", "ItemsPath": "$.items", "MaxConcurrency": omc, "End": True,
                                            "Iterator": {"StartAt": "I", "States": {"I": inner}}}}}
    data = {"items": [{"m": [{"k": 1}, {"k": 2}]}, {"m": [{"k": 3}, {"k": 4}]}]}
    expect = ("SUCCEEDED", [[{"v": 1}, {"v": 2}], [{"v": 3}, {"v": 4}]])
    return _run(asl, data, [c0, c1, c2, c3, c4, c5, c6, c7, c8, c9, c10, c11], {}, which, "STANDARD", expect, max_steps=300)


SCN["map_in_map"] = (["0 <= omc <= 2 and 0 <= imc <= 2"], 600, 1800, ("quick", "thorough"))
scn.__dict__["map_in_map"] = map_in_map


def fanout_loop(which, kind: int, c0: int, c1: int, c2: int, c3: int, c4: int, c5: int, c6: int, c7: int, c8: int, c9: int, c10: int, c11: int):
    """The same Parallel (kind 0) / Map (kind 1) state is entered twice in one execution: F -> Tick -> Choice -> F ...
    Each entry is a join of its own: the second round must wait for ITS branches and deliver THEIR outputs."""
    kind = cint(kind, 0, 1)
    if kind == 0:
        F = {"Type": "Parallel", "ResultPath": "$.out", "Next": "Tick", "Branches": [
            {"StartAt": "A", "States": {"A": task("fa", End=True)}},
            {"StartAt": "B", "States": {"B": task("fb", End=True)}}]}
    else:
        F = {"Type": "Map", "ItemsPath": "$.items", "ResultPath": "$.out", "Next": "Tick",
             "Iterator": {"StartAt": "A", "States": {"A": task("fa", End=True)}}}
    asl = {"StartAt": "F", "States": {
        "F": F,
        "Tick": {"Type": "Pass", "Parameters": {"n.$": "States.MathAdd($.n, 1)", "items.$": "$.items", "out.$": "$.out"}, "Next": "More"},
        "More": {"Type": "Choice", "Choices": [{"Variable": "$.n", "NumericLessThan": 2, "Next": "F"}], "Default": "Done"},
        "Done": {"Type": "Succeed"}}}
    calls = {"fa": 0, "fb": 0}

    def mk(name):
        def w(req):
            calls[name] += 1
            return {"by": name, "call": calls[name]}
        return w
    data = {"n": 0, "items": [{"i": 0}, {"i": 1}]}

    def chk(run, inst, mon):
        got = s2.result_of()
        if got[0] != "SUCCEEDED" or got[1].get("n") != 2:
            return "outcome %r" % (got,)
        out = got[1].get("out")
        if kind == 0:
            ok = isinstance(out, list) and len(out) == 2 and out[0] == {"by": "fa", "call": 2} and out[1] == {"by": "fb", "call": 2}
        else:
            ok = isinstance(out, list) and len(out) == 2 and sorted(o.get("call") for o in out if isinstance(o, dict)) == [3, 4] and all(o.get("by") == "fa" for o in out)
        if not ok:
            return "C05 second round of the fan-out state delivered %r (stale or incomplete join)" % (out,)
        if calls["fa"] != (2 if kind == 0 else 4):
            return "C05 task fa requested %d times" % calls["fa"]
        h = [e["type"] for e in s2.history_of(inst)]
        ex = "ParallelStateExited" if kind == 0 else "MapStateExited"
        if h.count(ex) != 2:
            return "C05 %s logged %d times for two rounds" % (ex, h.count(ex))
        return ""
    return _run(asl, data, [c0, c1, c2, c3, c4, c5, c6, c7, c8, c9, c10, c11], {"fa": mk("fa"), "fb": mk("fb")}, which, "STANDARD", None,
                extra_check=chk, max_steps=300)


SCN["fanout_loop"] = (["0 <= kind < 2"], 600, 1800, ("quick", "thorough"))
scn.__dict__["fanout_loop"] = fanout_loop


def map_retry_batches(which, failing: int, nfail: int, c0: int, c1: int, c2: int, c3: int, c4: int, c5: int, c6: int, c7: int):
    """A Map over two items with MaxConcurrency 1 (two batches), a Retrier on the Map itself (1 s, x2, MaxAttempts 2)
    and a Catcher: item `failing` fails on the first `nfail` runs of the Map.  The Map's retry budget counts runs of
    the Map wherever the failing item's batch is; an exhausted budget goes to the Catcher."""
    failing = cint(failing, 0, 1); nfail = cint(nfail, 0, 3)
    M = {"Type": "Map", "ItemsPath": "$.items", "MaxConcurrency": 1, "Next": "Z", "ResultPath": "$.out",
         "Retry": [{"ErrorEquals": ["Boom"], "IntervalSeconds": 1, "MaxAttempts": 2, "BackoffRate": 2.0}],
         "Catch": [{"ErrorEquals": ["States.ALL"], "ResultPath": "$.err", "Next": "R"}],
         "Iterator": {"StartAt": "I", "States": {"I": task("fi", End=True)}}}
    asl = {"StartAt": "M", "States": {"M": M, "Z": {"Type": "Pass", "End": True}, "R": {"Type": "Pass", "Result": "rec", "ResultPath": "$.r", "End": True}}}
    runs = [0]; times = []

    def w(req):
        if req.get("i") == 0:
            runs[0] += 1
            times.append(stubs.CLOCK.now - T0)
        if req.get("i") == failing and runs[0] <= nfail:
            return {"errorType": "Boom", "errorMessage": "run %d" % runs[0]}
        return {"done": req["i"]}
    items = [{"i": 0}, {"i": 1}]
    sched = [0.0, 1.0, 3.0]
    want_runs = min(nfail, 2) + 1

    def chk(run, inst, mon):
        if times != sched[:want_runs]:
            return "C07 the Map was run at %s, expected %s (IntervalSeconds 1, BackoffRate 2, MaxAttempts 2)" % (times, sched[:want_runs])
        got = s2.result_of()
        if nfail <= 2:
            if got != ("SUCCEEDED", {"items": items, "out": [{"done": 0}, {"done": 1}]}):
                return "outcome %r" % (got,)
        elif got[0] != "SUCCEEDED" or got[1].get("r") != "rec" or (got[1].get("err") or {}).get("Error") != "Boom":
            return "C07 exhausted Map retries should reach the Catcher: %r" % (got,)
        # every run of the Map enters the Iterator's state afresh for each item it reaches (MaxConcurrency 1: item 1
        # is reached only when item 0 succeeded): each such entry logs TaskStateEntered
        entries = sum((failing + 1) if r <= nfail else 2 for r in range(1, want_runs + 1))
        h = s2.history_of(inst)
        ent = [e for e in h if e["type"] == "TaskStateEntered" and e["stateEnteredEventDetails"]["name"] == "I"]
        if len(ent) != entries:
            return "C09 TaskStateEntered(I) logged %d times for %d entries of the Iterator state over %d runs of the Map" % (len(ent), entries, want_runs)
        return ""
    return _run(asl, {"items": items}, [c0, c1, c2, c3, c4, c5, c6, c7], {"fi": w}, which, "STANDARD", None, extra_check=chk, max_steps=300)


SCN["map_retry_batches"] = (["0 <= failing < 2 and 0 <= nfail <= 3"], 600, 1800, ("quick", "thorough"))
scn.__dict__["map_retry_batches"] = map_retry_batches


def fan_catch_paths(which, kind: int, rp: int, srp: int, c0: int, c1: int, c2: int, c3: int, c4: int, c5: int, c6: int, c7: int):
    """A Parallel (kind 0) / Map (kind 1) state WITHOUT Retry and MaxConcurrency whose branch fails and whose Catcher
    places the Error Output with ResultPath $.err / null / $ (rp); the state's own ResultPath is absent / $.out (srp).
    The Catcher's ResultPath applies to the state's ORIGINAL input."""
    kind = cint(kind, 0, 1); rp = cint(rp, 0, 2); srp = cint(srp, 0, 1)
    crp = pick(["$.err", None, "$"], rp)
    if kind == 0:
        F = {"Type": "Parallel", "Branches": [{"StartAt": "A", "States": {"A": task("fa", End=True)}},
                                              {"StartAt": "B", "States": {"B": {"Type": "Pass", "End": True}}}]}
    else:
        F = {"Type": "Map", "ItemsPath": "$.items", "Iterator": {"StartAt": "A", "States": {"A": task("fa", End=True)}}}
    F["Next"] = "Z"
    F["Catch"] = [{"ErrorEquals": ["States.ALL"], "ResultPath": crp, "Next": "R"}]
    if srp:
        F["ResultPath"] = "$.out"
    # (R wraps what it receives: a final output with a top-level "Error" member would be reported FAILED - the
    #  in-band failure convention recorded as a known finding of C01)
    asl = {"StartAt": "F", "States": {"F": F, "Z": {"Type": "Pass", "End": True}, "R": {"Type": "Pass", "Parameters": {"c.$": "$"}, "End": True}}}
    data = {"x": 1, "items": [{"i": 0}]}

    def chk(run, inst, mon):
        got = s2.result_of()
        if got[0] != "SUCCEEDED" or not isinstance(got[1], dict) or set(got[1]) != {"c"}:
            return "outcome %r" % (got,)
        o = got[1]["c"]
        if crp == "$.err":
            ok = isinstance(o, dict) and o.get("x") == 1 and o.get("items") == data["items"] and (o.get("err") or {}).get("Error") == "Boom" and set(o) == {"x", "items", "err"}
        elif crp is None:
            ok = o == data
        else:
            ok = isinstance(o, dict) and o.get("Error") == "Boom" and set(o) == {"Error", "Cause"}
        if not ok:
            return "C07 Catcher ResultPath %r must place the Error Output into the state's original input %r: got %r" % (crp, data, o)
        return ""
    return _run(asl, data, [c0, c1, c2, c3, c4, c5, c6, c7], {"fa": worker(True, "Boom", "fa")}, which, "STANDARD", None, extra_check=chk, max_steps=200)


SCN["fan_catch_paths"] = (["0 <= kind < 2 and 0 <= rp < 3 and 0 <= srp < 2"], 600, 1800, ("quick", "thorough"))
scn.__dict__["fan_catch_paths"] = fan_catch_paths


# ---------------------------------------------------------------------------
# Generated two-level fan-out machines with an independent oracle (vf/ref/asl_step.py run with catch=True)
# ---------------------------------------------------------------------------
from vf.ref import asl_step as refi
import copy as _copy


def _gen_nested_machine(rk, rmc, ik, imc, catch_at):
    def leaf(fn, **kw):
        d = task(fn); d.update(kw)
        return d
    catcher = lambda nxt: [{"ErrorEquals": ["States.ALL"], "ResultPath": "$.err", "Next": nxt}]
    wrap = {"Type": "Pass", "Parameters": {"recovered.$": "$"}, "End": True}       # (no top-level Error member in an output)
    if ik == 0:
        a = leaf("a", End=True)
        sub = {"StartAt": "A", "States": {"A": a}}
        if catch_at == 3:
            a["Catch"] = catcher("LR"); sub["States"]["LR"] = _copy.deepcopy(wrap)
    else:
        if ik == 1:
            la = leaf("a", End=True); lsub = {"StartAt": "A", "States": {"A": la}}
            if catch_at == 3:
                la["Catch"] = catcher("LR"); lsub["States"]["LR"] = _copy.deepcopy(wrap)
            Q = {"Type": "Parallel", "End": True, "Branches": [lsub, {"StartAt": "B", "States": {"B": leaf("b", End=True)}}]}
        else:
            ll = leaf("l", End=True); lsub = {"StartAt": "L", "States": {"L": ll}}
            if catch_at == 3:
                ll["Catch"] = catcher("LR"); lsub["States"]["LR"] = _copy.deepcopy(wrap)
            Q = {"Type": "Map", "ItemsPath": "$.m", "MaxConcurrency": imc, "End": True, "Iterator": lsub}
        sub = {"StartAt": "Q", "States": {"Q": Q}}
        if catch_at == 1:
            Q["Catch"] = catcher("QR"); sub["States"]["QR"] = _copy.deepcopy(wrap)
    if rk == 0:
        root = {"Type": "Parallel", "Branches": [sub, {"StartAt": "C", "States": {"C": leaf("c", Next="D"), "D": {"Type": "Pass", "End": True}}}]}
    else:
        root = {"Type": "Map", "ItemsPath": "$.items", "MaxConcurrency": rmc, "Iterator": sub}
    root["Next"] = "Z"; root["ResultPath"] = "$.out"
    top = {"StartAt": "Root", "States": {"Root": root, "Z": {"Type": "Pass", "End": True}}}
    if catch_at == 2:
        root["Catch"] = catcher("R"); top["States"]["R"] = _copy.deepcopy(wrap)
    return top


def gen_nested(which, rk: int, rmc: int, ik: int, imc: int, catch_at: int, failing: int, c0: int, c1: int, c2: int, c3: int, c4: int, c5: int,
               c6: int, c7: int, c8: int, c9: int, c10: int, c11: int, c12: int, c13: int, c14: int, c15: int):
    """Generated machine: a root Parallel (rk 0) / Map over two items (rk 1, MaxConcurrency rmc) whose first branch /
    iterator is a leaf Task (ik 0), a nested Parallel of two Tasks (ik 1) or a nested Map over two members (ik 2,
    MaxConcurrency imc); a Catcher at the nested state (1), the root (2), the leaf Task (3) or nowhere (0); one leaf
    invocation (or none) fails.  Status and output must be those of the reference interpreter, for every schedule
    (quick tier: the first six scheduling decisions are arbitrary, the rest follow the canonical FIFO order)."""
    rk = cint(rk, 0, 1); rmc = cint(rmc, 0, 2); ik = cint(ik, 0, 2); imc = cint(imc, 0, 2); catch_at = cint(catch_at, 0, 3); failing = cint(failing, 0, 3)
    with s2.untraced():        # every selector is concrete from here on: build the machine and ask the reference outside the tracer
        asl = _gen_nested_machine(rk, rmc, ik, imc, catch_at)
    data = {"x": 1, "id": 0, "m": [{"k": 1, "id": 0}, {"k": 2, "id": 0}],
            "items": [{"id": 0, "m": [{"k": 1, "id": 0}, {"k": 2, "id": 0}]}, {"id": 1, "m": [{"k": 1, "id": 1}, {"k": 2, "id": 1}]}]}
    # which leaf invocation fails: the first (1) / second (2) leaf of the (last) nested unit, or the sibling Task c (3)
    fid = 1 if rk == 1 else 0
    if failing == 0:
        spec = None
    elif failing == 3:
        spec = ("c", 0, None)
    elif ik == 2:
        spec = ("l", fid, failing)
    elif ik == 1:
        spec = ("a" if failing == 1 else "b", fid, None)
    else:
        spec = ("a", fid, None) if failing == 1 else None

    def fails(fn, req):
        return spec is not None and fn == spec[0] and isinstance(req, dict) and req.get("id", 0) == spec[1] and (spec[2] is None or req.get("k") == spec[2])

    def mkw(fn):
        def w(req):
            if fails(fn, req):
                return {"errorType": "Boom", "errorMessage": "leaf " + fn}
            return {"by": fn, "k": req.get("k") if isinstance(req, dict) else None}
        return w

    def task_ref(resource, params):
        fn = resource.rsplit(":", 1)[-1]
        return ("err", "Boom") if fails(fn, params) else ("ok", {"by": fn, "k": params.get("k") if isinstance(params, dict) else None})
    with s2.untraced():
        want = refi.run(asl, _copy.deepcopy(data), {"Execution": {}}, task_ref, catch=True)

    def chk(run, inst, mon):
        got = s2.result_of()
        g = (got[0], refi.strip_cause(got[1])) if got[0] == "SUCCEEDED" else got
        w = (want[0], refi.strip_cause(want[1])) if want[0] == "SUCCEEDED" else want
        if g != w:
            return "C01/C05/C06 outcome %r, the States Language prescribes %r" % (g, w)
        return ""
    picks = [c0, c1, c2, c3, c4, c5, c6, c7, c8, c9, c10, c11, c12, c13, c14, c15]
    return _run(asl, data, picks, {fn: mkw(fn) for fn in ("a", "b", "c", "l")}, which, "STANDARD", None, extra_check=chk, max_steps=400)


SCN["gen_nested"] = (["0 <= rk < 2 and 0 <= rmc <= 2 and 0 <= ik <= 2 and 0 <= imc <= 2 and 0 <= catch_at <= 3 and 0 <= failing <= 3",
                      "(rk == 1 or rmc == 0) and (ik == 2 or imc == 0) and not (catch_at == 1 and ik == 0) and not (failing == 3 and rk == 1) and not (failing == 2 and ik == 0)",
                      "@TAIL@"],
                     900, 2400, ("quick", "thorough"))
scn.__dict__["gen_nested"] = gen_nested
