"""C05 - Parallel and Map joins are order-independent, complete and concurrency-bounded."""
import vf; vf.setup_paths()
import s2_scenarios as scn
import vh_c02

PROPERTY = "C05"
ASSUMPTIONS = vh_c02.ASSUMPTIONS[:4] + [
    "oracle: the terminal output holds branch i's / item i's marker output at position i for every schedule; the state after the join is entered (history) only after the last branch state exited; MapIterationStarted indices are exactly 0..n-1 once each; the number of started-but-not-exited iterations (history) never exceeds MaxConcurrency when it is > 0",
    "the item count n and MaxConcurrency are symbolic integers that flow into the engine's own Range arithmetic (get_start_index, asl_state_Map_delegate, asl_state_collect_results)",
]
SPLIT = {"par2": [("_none", "not fa and not fb")], "par_inner_catch": [("_ok", "not bfail")], "nested_par": [("_ok", "not fail")],
         "map_conc": [("_n%d" % k, "n == %d" % k) for k in range(4)]}
scn.register(globals(), {"C05", "C02"}, ["par2", "par_pass_task", "map_conc", "par3", "par_inner_catch", "nested_par"], SPLIT)
# n == 3: quick tier only for MaxConcurrency 2 (the smallest case with a partial last batch), all values in thorough
globals()["map_conc_n3"]._vf.tiers = ("thorough",)
scn.register(globals(), {"C05", "C02"}, ["map_conc"], {"map_conc": [("_n3_mc2", "n == 3 and mc == 2")]})
globals()["map_conc_n3_mc2"]._vf.tiers = ("quick",)
globals()["map_conc_n3_mc2"]._vf.bounds = {"quick": {"N": 3}}

import s2_more as more
more.register(globals(), {"C05", "C02"}, ["par3_mixed", "map_iter_catch", "map_in_par", "par_in_map"],
              {"par3_mixed": [("_none", "not fa and not fb")], "map_in_par": [("_k%d_ok" % k, "kind == %d and not fo and fi == -1" % k) for k in range(3)],
               "par_in_map": [("_ok", "failing == -1")]})
