"""C05 - Parallel and Map joins are order-independent, complete and concurrency-bounded."""
import vf; vf.setup_paths()
import s2_scenarios as scn
import vh_c02

PROPERTY = "C05"
ASSUMPTIONS = vh_c02.ASSUMPTIONS[:4] + [
    "oracle: the terminal output holds branch i's / item i's marker output at position i for every schedule; the state after the join is entered (history) only after the last branch state exited; MapIterationStarted indices are exactly 0..n-1 once each; the number of started-but-not-exited iterations (history) never exceeds MaxConcurrency when it is > 0",
    "the item count n and MaxConcurrency are symbolic integers that flow into the engine's own Range arithmetic (get_start_index, asl_state_Map_delegate, asl_state_collect_results)",
]
SPLIT = {"par2": [("_none", "not fa and not fb")], "par_inner_catch": [("_ok", "not bfail")], "nested_par": [("_ok", "not fail")],
         "map_conc": [("_n%d" % k, "n == %d" % k) for k in range(4)]}
scn.register(globals(), {"C05", "C02"}, ["par2", "par_pass_task", "map_conc", "par3", "par_inner_catch", "nested_par"], SPLIT)
# n == 3: quick tier only for MaxConcurrency 2 (the smallest case with a partial last batch), all values in thorough
globals()["map_conc_n3"]._vf.tiers = ("thorough",)
scn.register(globals(), {"C05", "C02"}, ["map_conc"], {"map_conc": [("_n3_mc2", "n == 3 and mc == 2")]})
globals()["map_conc_n3_mc2"]._vf.tiers = ("quick",)
globals()["map_conc_n3_mc2"]._vf.bounds = {"quick": {"N": 3}}

import s2_more as more
more.register(globals(), {"C05", "C02"}, ["par3_mixed", "map_iter_catch", "map_in_par", "par_in_map"],
              {"par3_mixed": [("_none", "not fa and not fb")], "map_in_par": [("_k%d_ok" % k, "kind == %d and not fo and fi == -1" % k) for k in range(3)],
               "par_in_map": [("_ok", "failing == -1")]})

# n == 4 with MaxConcurrency 2 is the smallest Map in which a batch window that ignores an iteration still running its
# Catch fallback shows: the next batch of two starts while the fallback is in flight (3 > 2) - quick tier runs only that
# row (MaxConcurrency 1..3, any failing item), the thorough tier the whole n <= 4 grid above
more.register(globals(), {"C05", "C02"}, ["map_iter_catch"], {"map_iter_catch": [("_n4", "n == 4 and 1 <= mc <= 3")]})
globals()["map_iter_catch_n4"]._vf.tiers = ("quick",)
globals()["map_iter_catch_n4"]._vf.bounds = {"quick": {"N": 4}}

more.register(globals(), {"C05", "C02"}, ["map_in_map"], {"map_in_map": [("_o%d" % k, "omc == %d" % k) for k in range(3)]})

more.register(globals(), {"C05", "C02"}, ["fanout_loop"])


# ---------------------------------------------------------------------------
# One-step kernels (Engine A): the two cooperating sites of the MaxConcurrency batching.  The item array has a
# SYMBOLIC length and MaxConcurrency is a symbolic integer, both flow into the real handlers - a magic constant at
# either site (e.g. a cap on the batch size) is a branch the solver takes.
# ---------------------------------------------------------------------------
from typing import List
from vf.api import condition
from vf import stubs
from vf.stubs import pick
from asl_workflow_engine import state_engine as se

ASSUMPTIONS += [
    "one-step kernels: a real StateEngine with recording dispatchers (stubs.make_engine, EXPRESS so that no history is written); the Map state's input array is a CrossHair symbolic list (length <= @L@, values irrelevant), MaxConcurrency a symbolic int",
    "oracle for both sites: the batch that starts at `start` is [start, min(start + (MaxConcurrency or length), length))",
]


def _map_asl(mc, end=False):
    m = {"Type": "Map", "MaxConcurrency": mc, "Iterator": {"StartAt": "I", "States": {"I": {"Type": "Pass", "End": True}}}}
    if end:
        m["End"] = True
    else:
        m["Next"] = "Z"
    return {"StartAt": "M", "States": {"M": m, "Z": {"Type": "Succeed"}}}


_FANOUT_F = ["StateEngine.notify > asl_state_Map / asl_state_Map_delegate (which iterations a batch launches, Range/Length/Index bookkeeping)", "get_start_index"]


_OUT_MC = "MaxConcurrency strictly between 2 and length - 1 (whole-run conditions map_conc / map_iter_catch cover it for n <= 4)"


@condition(timeout={"quick": 300, "thorough": 900}, bounds={"quick": {"L": 48}, "thorough": {"L": 96}}, functions=_FANOUT_F, outside=["arrays longer than the bound", _OUT_MC])
def map_fanout_first_batch_small_mc(items: List[int], mc: int) -> bool:
    """
    requires: len(items) <= @L@ and all(x == 0 for x in items) and 0 <= mc <= 2
    ensures: _
    """
    # MaxConcurrency unbounded (0) and tiny batches (1, 2)
    return _map_fanout_batch(items, mc, 0)


@condition(timeout={"quick": 300, "thorough": 900}, bounds={"quick": {"L": 48}, "thorough": {"L": 96}}, functions=_FANOUT_F, outside=["arrays longer than the bound", _OUT_MC])
def map_fanout_first_batch_large_mc(items: List[int], mc: int) -> bool:
    """
    requires: len(items) <= @L@ and all(x == 0 for x in items) and 3 <= mc <= len(items) + 2 and mc >= len(items) - 1
    ensures: _
    """
    # MaxConcurrency around the array length: a last batch of one item, exactly one full batch, more than the array.
    # The number of launched iterations is a distinct path per value, hence the thinned domain.
    return _map_fanout_batch(items, mc, 0)


@condition(timeout={"quick": 240, "thorough": 900}, bounds={"quick": {"L": 48}, "thorough": {"L": 96}}, functions=_FANOUT_F, outside=["arrays longer than the bound", "re-entry at batch boundaries other than 1, 2 and 41"])
def map_fanout_next_batch(items: List[int], mc: int, reentry: int) -> bool:
    """
    requires: len(items) <= @L@ and all(x == 0 for x in items) and 1 <= mc <= @L@ + 2 and 1 <= reentry < 4
    ensures: _
    """
    return _map_fanout_batch(items, mc, reentry)


def _map_fanout_batch(items, mc, reentry):
    L = len(items)
    asl = _map_asl(mc)
    eng, log = stubs.make_engine(asl, "EXPRESS")
    start = pick([0, 1, 2, 41], reentry)
    if start > 0 and (mc == 0 or start % mc != 0 or start >= L):
        return True                 # not a batch boundary of this Map: no such re-entry event exists
    extra = None
    if start:
        extra = {"Branch": [{"ID": "map1", "Range": "%d:%d" % (start, 0)}]}
    ev = stubs.running_event("M", items, "EXPRESS", extra_state=extra)
    if start:
        # the join state the first batches left behind (results 0..start-1 present)
        bm = se.BranchMetadata(ev["context"], 86400)
        done = [{"done": 1} if i < start else None for i, _ in enumerate(items)]
        bm.results["map1"] = {"results": done, "ids": [None for _ in items], "state": [None for _ in items]}
        eng.branch_metadata[stubs.EX_ARN] = bm
    eng.notify(ev, "id1")
    pubs = [l[1] for l in log if l[0] == "publish"]
    want_end = min(start + (mc if mc > 0 else L), L)
    if L == 0:
        return len(pubs) == 1 and pubs[0]["context"]["State"]["Name"] == "Z"
    if len(pubs) != want_end - start:
        return False
    k = start
    for p in pubs:
        b = p["context"]["State"]["Branch"][-1]
        if b["Index"] != k or b["Length"] != L or b["Range"] != str(start) + ":" + str(want_end) or p["context"]["State"]["Name"] != "I":
            return False
        k += 1
    return [l for l in log if l[0] == "ack"] == [("ack", "id1")]


@condition(timeout={"quick": 300, "thorough": 900}, bounds={"quick": {"L": 44}, "thorough": {"L": 96}},
           functions=["StateEngine.notify > asl_state_Pass > handle_terminal_state > asl_state_collect_results (batch window of the join: when the Map state is re-entered, with which Range, when the join completes)", "get_start_index", "acknowledge_event_list"],
           outside=["arrays longer than the bound", _OUT_MC, "batches other than the first two"])
def map_join_batch(items: List[int], mc: int, second: bool, missing: bool) -> bool:
    """
    requires: 1 <= len(items) <= @L@ and all(x == 0 for x in items) and 0 <= mc <= len(items) + 2 and (mc <= 2 or mc >= len(items) - 1)
    requires: not second and not missing
    ensures: _
    """
    return _map_join_batch(items, mc, second, missing)


def _variant(name, extra):
    base = map_join_batch

    def f(items: List[int], mc: int, second: bool, missing: bool) -> bool:
        return _map_join_batch(items, mc, second, missing)
    f.__name__ = f.__qualname__ = name
    f.__doc__ = base.__doc__.replace("requires: not second and not missing", "requires: " + extra)
    f.__module__ = __name__
    c = base._vf
    globals()[name] = condition(timeout=c.timeout, bounds=c.bounds, functions=c.functions, outside=c.outside)(f)


_variant("map_join_batch_waiting", "not second and missing")
_variant("map_join_second_batch", "second and not missing")
_variant("map_join_second_batch_waiting", "second and missing")


def _map_join_batch(items, mc, second, missing):
    # The last iteration of a batch reaches its terminal state while every other iteration of that batch has already
    # delivered its result (`missing`: one of them has not).  The join must re-enter the Map state for the next batch
    # exactly when the batch [start, min(start + (mc or L), L)) is complete and more items remain, and must complete the
    # Map state exactly when all L results are present.
    L = len(items)
    second = stubs.cbool(second); missing = stubs.cbool(missing)
    start = mc if second else 0
    if second and (mc == 0 or start >= L):
        return True
    end = min(start + (mc if mc > 0 else L), L)
    if missing and end - start < 2:
        return True
    asl = _map_asl(mc)
    eng, log = stubs.make_engine(asl, "EXPRESS")
    j = end - 1
    binfo = {"Parent": "M", "ID": "map1", "Input": items, "Index": j, "Length": L, "Range": str(start) + ":" + str(end)}
    ev = stubs.running_event("I", {"item": "last"}, "EXPRESS", extra_state={"Branch": [binfo]})
    bm = se.BranchMetadata(ev["context"], 86400)
    res = []; ids = []
    for i, _ in enumerate(items):
        have = i < j and not (missing and i == start)
        res.append({"done": i} if have else None)
        ids.append(("held%d" % i) if (have and i >= start) else None)
    bm.results["map1"] = {"results": res, "ids": list(ids), "state": [None for _ in items]}
    eng.branch_metadata[stubs.EX_ARN] = bm
    for x in ["id1"] + [x for x in ids if x]:
        eng.event_dispatcher.unacknowledged_messages[x] = object()     # deliveries not yet acknowledged
    eng.notify(ev, "id1")
    pubs = [l[1] for l in log if l[0] == "publish"]
    acks = [l[1] for l in log if l[0] == "ack"]
    if missing:
        return pubs == [] and acks == []                       # still waiting: the event is held for the join
    if end < L:
        if len(pubs) != 1 or acks != []:
            return False
        st = pubs[0]["context"]["State"]
        nxt = min(end + mc, L)
        return st["Name"] == "M" and len(st["Branch"]) == 1 and st["Branch"][-1].get("ID") == "map1" \
            and st["Branch"][-1].get("Range") == str(end) + ":" + str(nxt) and stubs.same(pubs[0]["data"], list(items))
    # the join is complete: successor Z entered with the results in item order, every held event acknowledged
    if len(pubs) != 1 or pubs[0]["context"]["State"]["Name"] != "Z":
        return False
    out = pubs[0]["data"]
    if not isinstance(out, list) or len(out) != L:
        return False
    for i in range(L - 1):
        if out[i] != {"done": i}:
            return False
    if out[L - 1] != {"item": "last"}:
        return False
    return sorted(acks) == sorted(["id1"] + [x for x in ids if x])

more.register(globals(), {"C05", "C02", "C09"}, ["gen_nested"], {"gen_nested": [("_par_ik%d_ok" % i, "rk == 0 and ik == %d and failing == 0" % i) for i in range(3)] + [("_map%d_ik%d_ok" % (m, i), "rk == 1 and rmc == %d and ik == %d and failing == 0" % (m, i)) for m in range(3) for i in range(3)]})

import s2_found as found
found.register(globals(), {"C05", "C02", "C03"}, ["inner_join_failure"])

found.register(globals(), {"C05", "C02", "C03"}, ["falsy_branch_output"])
