"""C05 - Parallel and Map joins are order-independent, complete and concurrency-bounded."""
import vf; vf.setup_paths()
import s2_scenarios as scn
import vh_c02

PROPERTY = "C05"
ASSUMPTIONS = vh_c02.ASSUMPTIONS[:4] + [
    "oracle: the terminal output holds branch i's / item i's marker output at position i for every schedule; the state after the join is entered (history) only after the last branch state exited; MapIterationStarted indices are exactly 0..n-1 once each; the number of started-but-not-exited iterations (history) never exceeds MaxConcurrency when it is > 0",
    "the item count n and MaxConcurrency are symbolic integers that flow into the engine's own Range arithmetic (get_start_index, asl_state_Map_delegate, asl_state_collect_results)",
]
SPLIT = {"par2": [("_none", "not fa and not fb")],
         "map_conc": [("_n%d" % k, "n == %d" % k) for k in range(4)]}
scn.register(globals(), {"C05", "C02"}, ["par2", "par_pass_task", "map_conc", "par3"], SPLIT)
# n == 3 only in the thorough tier
globals()["map_conc_n3"]._vf.tiers = ("thorough",)
