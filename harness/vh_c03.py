"""C03 - events are acked once, after their consequences are issued; nothing leaks (whole-run part)."""
import vf; vf.setup_paths()
import s2_scenarios as scn
import vh_c02

PROPERTY = "C03"
ASSUMPTIONS = vh_c02.ASSUMPTIONS[:4] + [
    "monitor after every step: while an execution is RUNNING something carries it (a queued or unacknowledged message, a pending request or an armed non-heartbeat timer); no delivery is acknowledged twice; at quiescence unacknowledged_messages, branch_metadata, pending_requests, cancellers, orphaned_responses, broker-side unacked deliveries, timers and queues are all empty",
]
SPLIT = {"nested_par": [("_ok", "not fail"), ("_fail", "fail")], "par_branch_retry": [("_ok", "not bfail"), ("_fail", "bfail")], "par_inner_catch": [("_ok", "not bfail"), ("_fail", "bfail")], "par2": [("_none", "not fa and not fb"), ("_a", "fa and not fb"), ("_b", "fb and not fa"), ("_ab", "fa and fb")],
         "par_catch": [("_s%d%s" % (s, t), "sib == %d and %s" % (s, c)) for s in range(3)
                       for t, c in (("_ok", "not fa and not fb"), ("_a", "fa and not fb"), ("_b", "fb and not fa"))
                       if not (s != 0 and t == "_b")],
         "map_items": [("_ok", "failing == -1"), ("_fail", "failing >= 0 and n >= 1")]}
scn.register(globals(), {"C03"}, ["seq_chain", "seq_misc", "exec_timeout", "two_execs", "par2", "par_pass_task", "par_catch", "par_retry", "map_items", "par_wait_fail", "par_branch_retry", "par_inner_catch", "nested_par", "poison_midrun"], SPLIT)

import s2_more as more
more.register(globals(), {"C03"}, ["par3_mixed", "map_iter_catch", "map_fail_batches", "map_in_par", "par_in_map", "branch_fail_state", "par_longform", "nested_inner_catch", "fan_retry_inner_retry", "three_execs"],
              {"nested_inner_catch": [("_catch", "mode == 0 and q2 == 0"), ("_retry", "mode == 1 and q2 == 0"), ("_catch_task", "mode == 0 and q2 == 1"), ("_retry_task", "mode == 1 and q2 == 1")], "par3_mixed": [("_none", "not fa and not fb"), ("_a", "fa and not fb"), ("_b", "fb and not fa"), ("_ab", "fa and fb")], "map_in_par": [("_k%d" % k, "kind == %d" % k) for k in range(3)]})

more.register(globals(), {"C03"}, ["branch_retry_kinds", "late_nested"], {"branch_retry_kinds": [("_ok", "not bfail"), ("_fail", "bfail")], "late_nested": [("_ok", "not bfail"), ("_fail", "bfail")]})

globals()["nested_inner_catch_retry_task"]._vf.tiers = ("thorough",)   # 1665 schedules: quick tier runs it under C06 only

more.register(globals(), {"C03"}, ["map_in_map"], {"map_in_map": [("_o%d" % k, "omc == %d" % k) for k in range(3)]})

more.register(globals(), {"C03"}, ["fanout_loop", "map_retry_batches"])

import s2_found as found
found.register(globals(), {"C03"}, ["empty_map_in_branch", "caught_then_outer_fails", "three_levels", "inner_join_failure", "raw_start_events"])

found.register(globals(), {"C03"}, ["map_selector_failure"])
found.register(globals(), {"C03", "C02"}, ["orphan_dropped_beside_waiting"])
