"""C10 - The state-machine and execution API behaves like a simple keyed store.

Unit: the real `handle_post` view function registered by RestAPI.create_app() of
BOTH front ends (rest_api_asyncio.py / Quart and rest_api.py / Flask), i.e. the
public entry point: content-type / x-amz-target prologue, JSON parse, dispatch,
the nested aws_api_* closures and the catch-all.  The RestAPI object is built
over real SimpleStore stores; only the web framework's `request` proxy and
`jsonify` are replaced (module globals).  Every response and the three stores are
compared with vf/ref/api_model.py after every call.

Condition names: A_* = asyncio front end, B_* = blocking front end."""
import vf; vf.setup_paths()
import copy, json, types
from vf.api import condition
from vf import stubs
from vf.stubs import pick
from vf.ref import api_model as ref

import asl_workflow_engine.event_dispatcher as _ed


class _Message:                      # create_app() does `from ...event_dispatcher import Message`
    def __init__(self, *a, **k):
        self.args = a; self.kwargs = k


if not hasattr(_ed, "Message"):
    _ed.Message = _Message

from asl_workflow_engine import rest_api_asyncio as ra
from asl_workflow_engine import rest_api as rb
from asl_workflow_engine.store import SimpleStore

from crosshair.tracers import NoTracing, ResumedTracing, is_tracing
from crosshair.core import realize, deep_realize
import os

# The request payload is concrete on every path (see ASSUMPTIONS), so tracing the
# handler cannot change what it does - it only costs time.  VERIF_C10_TRACE=1 runs
# the handler under the CrossHair tracer anyway (used once to cross-check).
TRACE_HANDLER = os.environ.get("VERIF_C10_TRACE", "0") == "1"


class _Swap:
    """Run a block outside (native=True) / inside the CrossHair tracer; a no-op when
    the harness is executed natively (replay)."""
    def __init__(self, native, active):
        self.cm = (NoTracing() if native else ResumedTracing()) if active else None

    def __enter__(self):
        if self.cm is not None:
            self.cm.__enter__()

    def __exit__(self, *a):
        if self.cm is not None:
            self.cm.__exit__(*a)
        return False


def concrete(x):
    """Pin a symbolic string to one concrete value (CrossHair forks on the value and
    enumerates the others on later paths)."""
    return realize(x) if is_tracing() else x

PROPERTY = "C10"
ASSUMPTIONS = [
    "the web framework is cut away: the module globals `request` (Quart/Flask proxy) and `jsonify` are replaced by a fake request object (content_type, headers, data) and the identity; handle_post is taken from app.view_functions and called directly (Quart coroutine driven with send(None))",
    "StateEngine is a namespace holding three real asl_workflow_engine.store.SimpleStore objects; EventDispatcher / TaskDispatcher producer are recording stubs; event_dispatcher.Message is a dummy class; opentracing's default no-op tracer is used",
    "clock / uuid / logger stubs (vf.stubs.install_env); the harness advances the virtual clock by 1 s before every request so that 'advance updateDate' is observable",
    "the solver decides the selectors (action, pool index of every member, call order) and the symbolic name strings; once they are decided the request is a concrete JSON document (HTTP carries bytes), so the real handler, the reference model and the store comparison run on concrete values, outside the CrossHair tracer (tracing concrete code cannot change its behaviour, only its cost: 20 ms -> 0.1 ms per request). CrossHair closes the selector space exhaustively; a symbolic name is pinned by realize(), which forks on the value, so every string of the bounded alphabet/length gets its own path. VERIF_C10_TRACE=1 runs the handler under the tracer instead (cross-check, same verdicts)",
    "reference model vf/ref/api_model.py: identity of a machine = arn:aws:states:<server region>:<account of roleArn>:stateMachine:<name>; where several arguments are invalid at once any of the corresponding documented error types is admitted; a missing required member may be reported as MissingRequiredParameter, ValidationException or the member's own Invalid* type",
    "definition validity is a deployment setting: with rest_api.validate_asl (asyncio only) JSON that is not a well-formed state machine must be refused with InvalidDefinition; without it (and on the blocking front end, which has no validator) such JSON may be stored and must then round-trip",
    "the blocking front end does not implement loggingConfiguration at all (member ignored, not stored, not described); the model is configured accordingly and this is not counted as a violation",
    "the `executions` store is written by the engine, not by the API: DescribeExecution / ListExecutions / DescribeStateMachineForExecution conditions pre-populate it (and the model) with DescribeExecution-shaped records",
]

T0 = 1_700_000_000.0
CT = "application/x-amz-json-1.0"
ABSENT = ("<absent>",)


class _Recorder:
    def __init__(self):
        self.log = []

    def publish(self, item, threadsafe=False, use_shared_queue=False):
        self.log.append(("publish", item, use_shared_queue))

    def set_timeout(self, cb, delay):
        self.log.append(("set_timeout", delay))
        return 1

    def send(self, *a, **k):
        self.log.append(("send", a, k))


class _Request:
    def __init__(self, content_type, headers, body, is_async):
        self.content_type = content_type
        self.headers = headers
        self._body = body
        self._async = is_async

    @property
    def data(self):
        if not self._async:
            return self._body

        async def get():
            return self._body
        return get()


class FrontEnd:
    def __init__(self, mod, is_async):
        self.mod = mod
        self.is_async = is_async
        stubs.install_env(mod)
        self.disp = _Recorder()
        self.producer = _Recorder()
        self.engine = types.SimpleNamespace(
            asl_store=SimpleStore(), executions=SimpleStore(), execution_history=SimpleStore(), execution_metrics={},
            task_dispatcher=types.SimpleNamespace(task_metrics={}, pending_requests={}, producer=self.producer))
        self.api = mod.RestAPI(self.engine, self.disp, {"rest_api": {"host": "h", "port": 1, "region": "local", "validate_asl": True}})
        self.app = self.api.create_app()
        self.handle_post = self.app.view_functions["handle_post"]
        mod.jsonify = lambda x: x

    def reset(self, validate):
        e = self.engine
        e.asl_store.clear(); e.executions.clear(); e.execution_history.clear()
        e.task_dispatcher.pending_requests.clear()
        del self.disp.log[:]; del self.producer.log[:]
        self.api.validate_asl = validate
        stubs.CLOCK.now = T0
        stubs.SeqUUID.reset()

    def snapshot(self):
        e = self.engine
        return copy.deepcopy((dict(e.asl_store), dict(e.executions), dict(e.execution_history)))

    def call(self, target, content_type, raw):
        headers = {} if target is ABSENT else {"x-amz-target": target}
        self.mod.request = _Request(content_type, headers, raw, self.is_async)
        if not self.is_async:
            return self.handle_post("")
        co = self.handle_post("")
        try:
            co.send(None)
        except StopIteration as stop:
            return stop.value
        co.close()
        return ("<handler suspended>", 599)


FE = [FrontEnd(ra, True), FrontEnd(rb, False)]
FE_NAME = ["asyncio", "blocking"]

# ----------------------------------------------------------------------------- pools
ROLE1 = "arn:aws:iam::0123456789:role/r"
ROLE2 = "arn:aws:iam::0123456789:role/service-role/R2"
ROLE_OTHER = "arn:aws:iam::999:role/r"
ASL1 = '{"StartAt": "A", "States": {"A": {"Type": "Pass", "End": true}}}'
ASL2 = '{"Comment": "two", "StartAt": "A", "States": {"A": {"Type": "Pass", "Next": "B"}, "B": {"Type": "Succeed"}}}'
NOT_JSON = '{"StartAt": '
BAD_ASL = '{"StartAt": "X", "States": {"A": {"Type": "Pass", "End": true}}}'
DEST = {"cloudWatchLogsLogGroup": {"logGroupArn": "arn:aws:logs:local:0123456789:log-group:g:*"}}
LOG_ALL = {"level": "ALL", "destinations": [DEST]}
LOG_ERR = {"level": "ERROR", "destinations": [DEST], "includeExecutionData": True}


def sm_arn(name, account="0123456789", region="local"):
    return "arn:aws:states:%s:%s:stateMachine:%s" % (region, account, name)


def ex_arn(machine, name):
    return "arn:aws:states:local:0123456789:execution:%s:%s" % (machine, name)


M1 = sm_arn("m1"); M2 = sm_arn("m2")
EX1 = ex_arn("m1", "e1"); EX2 = ex_arn("m1", "e2"); EX3 = ex_arn("m9", "e3"); EX4 = ex_arn("m2", "e4")

NAMES = ["m1", "m2", None, "m" * 80, "m" * 81, "a b", ABSENT, "", "a/b", "a\nb", "a*"]          # None: the symbolic name
ROLES = [ROLE1, ROLE2, "arn:aws:iam::0123456789:user/r", ABSENT, "", ROLE_OTHER, "role/r"]
DEFS = [ASL1, ASL2, NOT_JSON, "", BAD_ASL, ABSENT, "[1]", "{}", '{"StartAt": "A"}',
        '{"StartAt": "A", "StartAt": "A", "States": {"A": {"Type": "Pass", "End": true}}}',
        '{"StartAt": "A", "States": {"A": {"Type": "Nope", "End": true}}}']
TYPES = [ABSENT, "STANDARD", "EXPRESS", "BOGUS", "standard"]
LOGS = [ABSENT, {"level": "OFF"}, LOG_ALL, {"level": "ALL"}, {"level": "BOGUS"}, {}, {"level": "ERROR", "destinations": [DEST, DEST]},
        {"destinations": [DEST]}, LOG_ERR, {"level": "FATAL", "destinations": []}, {"level": ["ALL"], "destinations": [DEST]}]
SM_ARNS = [M1, M2, sm_arn("zz"), "not-an-arn", EX1, ABSENT, "", sm_arn("m1", region="us-east-1"),
           "arn:aws:states:local:abc:stateMachine:m1", ROLE1, sm_arn("m" * 230), sm_arn("m1", account="999"), "arn:aws:states:local:0123456789:stateMachine:"]
EX_ARNS = [EX1, EX2, EX3, ex_arn("m1", "nope"), "not-an-arn", M1, ABSENT, "", EX4, "arn:aws:states:local:0123456789:execution:"]
FILTERS = [ABSENT, "RUNNING", "SUCCEEDED", "FAILED", "BOGUS", "", "TIMED_OUT", "ABORTED", "running"]
EXEC_NAMES = [ABSENT, "x1", None, "e1", "a b", "m" * 81, "", "m" * 80, "e2"]      # e1 / e2: names of recorded executions of m1 (RUNNING / SUCCEEDED)
INPUTS = [ABSENT, '{"k": 1}', "nope", "", "[1, 2]"]
WRONG_TYPED = [5, [1], {"a": 1}, True]
ACTIONS = list(ref.ACTIONS)
# raw request bodies that are not a JSON object (or not JSON at all)
RAW_BODIES = [b"[]", b'"x"', b"5", b"null", b"{", b"", b"\xff", b"[{}]", b"true"]


class Raw:
    def __init__(self, raw):
        self.raw = raw


def body(**members):
    return {k: v for k, v in members.items() if v is not ABSENT}


def exec_record(arn, machine_arn, name, status):
    return {"executionArn": arn, "input": "{}", "name": name, "output": ('{"r": 1}' if status == "SUCCEEDED" else None),
            "startDate": T0 - 50.0, "stateMachineArn": machine_arn, "status": status,
            "stopDate": (None if status == "RUNNING" else T0 - 10.0)}


EXEC_RECORDS = [exec_record(EX1, M1, "e1", "RUNNING"), exec_record(EX2, M1, "e2", "SUCCEEDED"),
                exec_record(EX3, sm_arn("m9"), "e3", "FAILED"), exec_record(EX4, M2, "e4", "RUNNING"),
                # executions of machines whose name merely begins with / whose ARN merely resembles that of m1
                exec_record(ex_arn("m1x", "e5"), sm_arn("m1x"), "e5", "RUNNING"), exec_record(ex_arn("m1:x", "e6"), sm_arn("m1:x"), "e6", "SUCCEEDED"),
                exec_record("arn:aws:states:us-east-1:0123456789:execution:m1:e7", sm_arn("m1", region="us-east-1"), "e7", "RUNNING")]

PRE1 = (("m1", "STANDARD"),)
PRE2 = (("m1", "STANDARD"), ("m2", "EXPRESS"))

# ----------------------------------------------------------------------------- driver


def store_vs_model(F, model, history0):
    e = F.engine
    if sorted(e.asl_store.keys()) != sorted(model.machines.keys()):
        return "asl_store holds %r, model %r" % (sorted(e.asl_store.keys()), sorted(model.machines.keys()))
    for arn, want in model.machines.items():
        got = e.asl_store[arn]
        for k in ("stateMachineArn", "name", "status", "definition", "roleArn", "type", "creationDate", "updateDate"):
            if k not in got or got[k] != want[k]:
                return "stored %s.%s is %r, model %r" % (arn, k, got.get(k), want[k])
        if model.logging_supported and ref.norm_logging(got.get("loggingConfiguration")) != want["loggingConfiguration"]:
            return "stored %s.loggingConfiguration is %r, model %r" % (arn, got.get("loggingConfiguration"), want["loggingConfiguration"])
    if dict(e.executions) != model.executions:
        return "executions store differs from the model"
    if dict(e.execution_history) != history0:
        return "execution_history changed"
    return ""


def check_start_event(F, plan, resp):
    pubs = [l for l in F.disp.log if l[0] == "publish"]
    if len(pubs) != 1 or len(F.disp.log) != 1:
        return "StartExecution produced %d dispatcher calls" % len(F.disp.log)
    _, ev, shared = pubs[0]
    if shared is not True:
        return "start event not published to the shared queue"
    ctx = ev.get("context", {})
    if ctx.get("Execution", {}).get("Id") != resp["executionArn"]:
        return "start event carries %r, response %r" % (ctx.get("Execution", {}).get("Id"), resp["executionArn"])
    if ctx.get("StateMachine", {}).get("Id") != plan.start["stateMachineArn"]:
        return "start event names machine %r" % (ctx.get("StateMachine"),)
    if ev.get("data") != plan.start["input"] or ctx["Execution"].get("Input") != plan.start["input"]:
        return "start event input %r" % (ev.get("data"),)
    if plan.start["name"] is not None and ctx["Execution"].get("Name") != plan.start["name"]:
        return "start event name %r" % (ctx["Execution"].get("Name"),)
    return ""


_PRE = {}


def prestate(fe, machines, executions):
    """Pre-state of a history: machines created through the real API (natively, once,
    with concrete arguments) and execution records planted in the store and in the
    model.  Returns deep copies of (stores, model, history, steps)."""
    key = (fe, tuple(machines), executions)
    if key not in _PRE:
        F = FE[fe]
        F.reset(True)
        model = ref.Model(region="local", asl_validation=(fe == 0), logging_supported=(fe == 0))
        step = 0
        for n, t in machines:
            step += 1
            stubs.CLOCK.now = T0 + step
            b = body(name=n, roleArn=ROLE1, definition=ASL1, type=t)
            plan = model.plan("CreateStateMachine", b, stubs.CLOCK.now)
            resp, status = F.call("AWSStepFunctions.CreateStateMachine", CT, json.dumps(b).encode("utf8"))
            assert status == 200 and plan.admits(status, resp) == "", (resp, status)
            plan.commit(resp)
        history = {}
        if executions:
            for r in EXEC_RECORDS:
                F.engine.executions[r["executionArn"]] = copy.deepcopy(r)
                model.executions[r["executionArn"]] = copy.deepcopy(r)
            history = {EX1: [{"id": 1, "type": "ExecutionStarted"}]}
            F.engine.execution_history[EX1] = copy.deepcopy(history[EX1])
        _PRE[key] = (F.snapshot(), model, history, step)
    snap, model, history, step = _PRE[key]
    return copy.deepcopy(snap), copy.deepcopy(model), copy.deepcopy(history), step


def run(fe, validate, calls, machines=(), executions=False, content_type=CT, target=None):
    """Drive one call history through the real front end and the reference model.
    calls: [(action, body)], body a JSON-able value, Raw(bytes) or a function of the
    previous response; every value is concrete here (selectors already decided).
    Returns "" or the first disagreement."""
    traced = is_tracing()
    with _Swap(True, traced):
        return _run(fe, validate, calls, machines, executions, content_type, target, traced and TRACE_HANDLER)


def _run(fe, validate, calls, machines, executions, content_type, target, trace_handler):
    F = FE[fe]
    snap, model, history0, step = prestate(fe, machines, executions)
    F.reset(validate)
    F.engine.asl_store.update(snap[0]); F.engine.executions.update(snap[1]); F.engine.execution_history.update(snap[2])
    model.asl_validation = bool(validate) and fe == 0
    last = None
    for action, b in calls:
        step += 1
        stubs.CLOCK.now = T0 + step
        now = stubs.CLOCK.now
        if callable(b):
            b = b(last)
        elif not isinstance(b, Raw):
            b = copy.deepcopy(b)          # pool members are shared between paths
        raw = b.raw if isinstance(b, Raw) else json.dumps(b).encode("utf8")
        try:
            seen = json.loads(raw.decode("utf8"))        # what is on the wire
        except ValueError:
            seen = ref.NOT_JSON
        tgt = ("AWSStepFunctions." + action) if target is None else target
        prologue_ok = content_type == CT and tgt is not ABSENT and tgt.startswith("AWSStepFunctions.")
        plan = model.plan(tgt.split(".")[1], seen, now) if prologue_ok else ref.Plan(err=ref.ANY)
        before = F.snapshot()
        del F.disp.log[:]
        with _Swap(False, trace_handler):
            got = F.call(tgt, content_type, raw)
            if trace_handler:       # objects built under the tracer may be CrossHair proxies: make them plain again
                got = deep_realize(got)
                for st in (F.engine.asl_store, F.engine.executions, F.engine.execution_history):
                    for k in list(st.keys()):
                        st[k] = deep_realize(st[k])
                F.disp.log[:] = deep_realize(list(F.disp.log))
        if not (isinstance(got, tuple) and len(got) == 2 and isinstance(got[1], int)):
            return "call %d %s: handler returned %r" % (step, action, got)
        resp, status = got
        last = resp if status == 200 else None
        shown = seen if seen is not ref.NOT_JSON else raw
        why = plan.admits(status, resp)
        if why:
            return "call %d %s: %s  [%r]" % (step, action, why, shown)
        if status == 200:
            plan.commit(resp)
        elif F.snapshot() != before:
            return "call %d %s: answered %r but the stores changed  [%r]" % (step, action, resp.get("__type") if isinstance(resp, dict) else resp, shown)
        if status == 200 and getattr(plan, "start", None):
            why = check_start_event(F, plan, resp)
        else:
            why = "" if not F.disp.log else "unexpected dispatcher traffic %r" % (F.disp.log[:1],)
        why = why or store_vs_model(F, model, history0)
        if why:
            return "after call %d %s: %s  [%r]" % (step, action, why, shown)
    if F.producer.log:
        return "unexpected producer traffic"
    return ""


def explain(cond, **args):
    """Native diagnosis helper: vh_c10.explain('A_create_args', n=0, ...)."""
    return globals()["_why_" + cond](**args)


_WHY = {}


def _register(prefix, name, why, cond):
    full = prefix + name
    globals()["_why_" + full] = why
    cond.__name__ = cond.__qualname__ = full
    globals()[full] = cond


def name_ok(s, alphabet):
    return all(ch in alphabet for ch in s)


# ----------------------------------------------------------------------------- request builders


def create_body(n, s, r, d, t, l):
    nm = pick(NAMES, n)
    return body(name=(concrete(s) if nm is None else nm), roleArn=pick(ROLES, r), definition=pick(DEFS, d), type=pick(TYPES, t),
                loggingConfiguration=pick(LOGS, l))


def update_body(a, r, d, l):
    return body(stateMachineArn=pick(SM_ARNS, a), roleArn=pick(ROLES, r), definition=pick(DEFS, d),
                loggingConfiguration=pick(LOGS, l))


def _sm_calls():
    """Per-call options of the state-machine history family.  [0:11] thorough
    length-4 histories, [0:15] quick length-3 histories, all 24: wide (thorough)."""
    ok = dict(roleArn=ROLE1, definition=ASL1)
    bad = dict(roleArn=ROLE1, definition=NOT_JSON)

    def upd(nm, **kw):
        return ("UpdateStateMachine", body(stateMachineArn=sm_arn(nm), **kw))
    o = [("CreateStateMachine", body(name="m1", **ok)), ("CreateStateMachine", body(name="m1", **bad)),
         ("CreateStateMachine", body(name="m2", **ok)),
         upd("m1", roleArn=ROLE2), upd("m1", definition=ASL2, loggingConfiguration=LOG_ERR), upd("m1", roleArn=ROLE2, definition=NOT_JSON),
         upd("m2", roleArn=ROLE2),
         ("DeleteStateMachine", body(stateMachineArn=M1)), ("DeleteStateMachine", body(stateMachineArn=M2)),
         ("DescribeStateMachine", body(stateMachineArn=M1)), ("ListStateMachines", {})]
    assert len(o) == 11
    o += [("CreateStateMachine", body(name="m2", **bad)), upd("m2", definition=ASL2, loggingConfiguration=LOG_ERR),
          upd("m2", roleArn=ROLE2, definition=NOT_JSON), ("DescribeStateMachine", body(stateMachineArn=M2))]
    assert len(o) == 15
    o += [("CreateStateMachine", body(name="m1", roleArn=ROLE2, definition=ASL2, type="EXPRESS", loggingConfiguration=LOG_ALL)),
          ("CreateStateMachine", body(name="m2", roleArn="role/r", definition=ASL1)),
          upd("m1", roleArn=ROLE2, definition=ASL2), upd("m1", roleArn=ROLE2, loggingConfiguration={"level": "BOGUS"}), upd("m1"),
          upd("m2", roleArn=ROLE1, definition=BAD_ASL),
          upd("zz", roleArn=ROLE2), ("DeleteStateMachine", body(stateMachineArn=sm_arn("zz"))),
          ("DescribeStateMachine", body(stateMachineArn="not-an-arn"))]
    assert len(o) == 24
    return o


def _ex_calls():
    """Per-call options of the execution history family (m1 exists, execution
    records planted: e1, e2 of m1; e4 of m2; e3 of a machine that does not exist).
    [0:11] thorough length 4, [0:15] quick length 3, all 24: wide (thorough)."""
    ok = dict(roleArn=ROLE1, definition=ASL1)

    def start(nm, **kw):
        return ("StartExecution", body(stateMachineArn=sm_arn(nm), **kw))

    def lst(nm, **kw):
        return ("ListExecutions", body(stateMachineArn=sm_arn(nm), **kw))
    o = [("CreateStateMachine", body(name="m2", **ok)), ("CreateStateMachine", body(name="m1", **ok)),
         ("DeleteStateMachine", body(stateMachineArn=M1)), ("DeleteStateMachine", body(stateMachineArn=M2)),
         start("m1", name="x1"), start("m1"), start("m2", name="x1"), lst("m1"), lst("m1", statusFilter="RUNNING"),
         ("DescribeStateMachineForExecution", body(executionArn=EX1)), ("DescribeStateMachineForExecution", body(executionArn=EX4))]
    assert len(o) == 11
    o += [start("m2"), lst("m2"), lst("m2", statusFilter="RUNNING"), ("DescribeExecution", body(executionArn=EX1))]
    assert len(o) == 15
    o += [("CreateStateMachine", body(name="m2", roleArn=ROLE2, definition=ASL2, type="EXPRESS")),
          ("UpdateStateMachine", body(stateMachineArn=M1, roleArn=ROLE2, definition=ASL2)),
          start("m1", name="x2", input='{"k": 1}'), start("m1", name="a b"), start("m2", name="x2", input="nope"), start("zz", name="x1"),
          lst("m1", statusFilter="SUCCEEDED"),
          ("DescribeStateMachineForExecution", body(executionArn=EX3)), ("DescribeExecution", body(executionArn=EX4))]
    assert len(o) == 24
    return o


SM_CALLS = _sm_calls()
EX_CALLS = _ex_calls()


def history(fe, validate, options, selectors, machines=(), executions=False):
    """selectors: one int per call (index into `options`), -1 = no call."""
    calls = []
    for c in selectors:
        if c != -1:
            calls.append(pick(options, c))
    return run(fe, validate, calls, machines=machines, executions=executions)


def show(cond, **args):
    """The call sequence a history counterexample stands for."""
    opts = SM_CALLS if "sm_history" in cond else EX_CALLS
    return [opts[v] for k, v in sorted(args.items()) if k.startswith("c") and v != -1]


# ----------------------------------------------------------------------------- conditions

OUTSIDE_COMMON = [
    "HTTP framing, routing and (de)serialisation done by Quart / Flask / werkzeug (handle_post is called directly)",
    "pagination (maxResults / nextToken)",
    "RedisStore / JSONStore back ends (SimpleStore only; store laws are C20)",
    "names containing Unicode white space other than the ASCII space, and names / ARNs longer than the pool's boundary representatives (80/81, >256)",
    "StartExecution with the name of an execution that already exists (the property speaks of duplicate state machines; the code documents uniqueness of execution names as TODO)",
    "request members of a wrong JSON type whose value is falsy (0, false, [], {}): the server treats them as absent",
    "ARN strings whose well-formedness is debatable (an execution ARN without the execution-name component)",
    "StartSyncExecution, GetExecutionHistory, SendTask*, StopExecution (not named by the property)",
]


def _make(fe):
    P = "AB"[fe] + "_"
    FN = "rest_api_asyncio.py" if fe == 0 else "rest_api.py"
    H = FN + ":RestAPI.create_app>handle_post"
    logn = len(LOGS) if fe == 0 else 3          # blocking front end: member is ignored, a few representatives suffice

    # --- 1. request prologue and body shape ----------------------------------------------------------------
    def why_envelope(act, ct, tg, bd):
        action = pick(ACTIONS + ["Bogus"], act)
        ctype = pick([CT, "application/json", None], ct)
        target = pick([None, ABSENT, "Foo." + action, "AWSStepFunctions", ""], tg)
        b = Raw(pick(RAW_BODIES, bd)) if bd < len(RAW_BODIES) else {}
        return run(fe, True, [(action, b)], machines=PRE1, executions=True, content_type=ctype, target=target)

    @condition(timeout={"quick": 90, "thorough": 300},
               functions=[H + " (content-type / x-amz-target prologue, JSON parse, dispatch, catch-all)"],
               outside=OUTSIDE_COMMON)
    def envelope(act: int, ct: int, tg: int, bd: int) -> bool:
        """
        requires: 0 <= act < 10 and 0 <= ct < 3 and 0 <= tg < 5 and 0 <= bd < 10
        requires: (ct == 0 and tg == 0) or bd == 0 or bd == 9
        ensures: _
        """
        return why_envelope(act, ct, tg, bd) == ""
    _register(P, "envelope", why_envelope, envelope)

    # --- 2. members of the wrong JSON type -----------------------------------------------------------------
    FIELDS = [("CreateStateMachine", "name"), ("CreateStateMachine", "roleArn"), ("CreateStateMachine", "definition"),
              ("CreateStateMachine", "type"), ("CreateStateMachine", "loggingConfiguration"),
              ("UpdateStateMachine", "stateMachineArn"), ("UpdateStateMachine", "roleArn"), ("UpdateStateMachine", "definition"),
              ("UpdateStateMachine", "loggingConfiguration"), ("DeleteStateMachine", "stateMachineArn"),
              ("DescribeStateMachine", "stateMachineArn"), ("DescribeStateMachineForExecution", "executionArn"),
              ("StartExecution", "stateMachineArn"), ("StartExecution", "name"), ("StartExecution", "input"),
              ("DescribeExecution", "executionArn"), ("ListExecutions", "stateMachineArn"), ("ListExecutions", "statusFilter")]
    VALID = {"CreateStateMachine": dict(name="m2", roleArn=ROLE1, definition=ASL1),
             "UpdateStateMachine": dict(stateMachineArn=M1, roleArn=ROLE2, definition=ASL2),
             "DeleteStateMachine": dict(stateMachineArn=M1), "DescribeStateMachine": dict(stateMachineArn=M1),
             "DescribeStateMachineForExecution": dict(executionArn=EX1), "StartExecution": dict(stateMachineArn=M1),
             "DescribeExecution": dict(executionArn=EX1), "ListExecutions": dict(stateMachineArn=M1)}

    def why_json_types(f, w):
        action, member = pick(FIELDS, f)
        value = pick(WRONG_TYPED, w)

        def wrong(last):            # evaluated natively inside run()
            b = dict(VALID[action])
            b[member] = value
            return b
        return run(fe, True, [(action, wrong)], machines=PRE1, executions=True)

    @condition(timeout={"quick": 90, "thorough": 300},
               functions=[H + ">aws_api_* (every member of every shared action given a JSON value of the wrong type)"])
    def json_types(f: int, w: int) -> bool:
        """
        requires: 0 <= f < 18 and 0 <= w < 4
        requires: not (w == 2 and f in (4, 8))
        ensures: _
        """
        return why_json_types(f, w) == ""
    _register(P, "json_types", why_json_types, json_types)

    # --- 3. CreateStateMachine arguments --------------------------------------------------------------------
    def why_create_args(v, n, s, r, d, t, l):
        b = create_body(n, s, r, d, t, l)

        def minted(last):       # the ARN minted by the create, else the ARN of the pre-existing machine
            return body(stateMachineArn=(last["stateMachineArn"] if isinstance(last, dict) and "stateMachineArn" in last else M1))
        return run(fe, v, [("CreateStateMachine", b), ("DescribeStateMachine", minted), ("ListStateMachines", {})], machines=PRE1)

    @condition(timeout={"quick": 120, "thorough": 1500},
               bounds={"quick": {"NN": 9, "NR": 5, "ND": 7, "NT": 4, "NL": min(logn, 6), "LEN": 1, "AL": "'m /'", "K": 2, "KS": 2},
                       "thorough": {"NN": len(NAMES), "NR": len(ROLES), "ND": len(DEFS), "NT": len(TYPES), "NL": logn, "LEN": 2, "AL": "'m1 /\\n*'", "K": 3, "KS": 2}},
               functions=[H + ">aws_api_CreateStateMachine", FN + ":valid_name", FN + ":valid_role_arn", "arn.create_arn / parse_arn",
                          H + ">aws_api_DescribeStateMachine", H + ">aws_api_ListStateMachines"] + (["statelint.StateLint.validate (as called by the handler)"] if fe == 0 else []))
    def create_args(v: bool, n: int, s: str, r: int, d: int, t: int, l: int) -> bool:
        """
        requires: 0 <= n < @NN@ and 0 <= r < @NR@ and 0 <= d < @ND@ and 0 <= t < @NT@ and 0 <= l < @NL@
        requires: (len(s) <= @LEN@ and name_ok(s, @AL@)) if n == 2 else s == ''
        requires: deviations(n, r, d, t, l) <= (@KS@ if n == 2 else @K@)
        ensures: _
        """
        return why_create_args(v, n, s, r, d, t, l) == ""
    if fe == 1:
        create_args.__doc__ = create_args.__doc__.replace("requires: 0 <= n", "requires: v and 0 <= n")
    _register(P, "create_args", why_create_args, create_args)

    # --- 4. UpdateStateMachine arguments --------------------------------------------------------------------
    def why_update_args(v, a, r, d, l):
        return run(fe, v, [("UpdateStateMachine", update_body(a, r, d, l)), ("DescribeStateMachine", body(stateMachineArn=M1))],
                   machines=PRE1, executions=True)

    @condition(timeout={"quick": 120, "thorough": 1200},
               bounds={"quick": {"NA": 7, "NR": 5, "ND": 7, "NL": min(logn, 5)},
                       "thorough": {"NA": len(SM_ARNS), "NR": len(ROLES), "ND": len(DEFS), "NL": logn}},
               functions=[H + ">aws_api_UpdateStateMachine", FN + ":valid_state_machine_arn", FN + ":valid_role_arn"])
    def update_args(v: bool, a: int, r: int, d: int, l: int) -> bool:
        """
        requires: 0 <= a < @NA@ and 0 <= r < @NR@ and 0 <= d < @ND@ and 0 <= l < @NL@
        requires: a == 0 or (r in (0, 2, 3) and d in (0, 2, 5) and l in (0, 4))
        ensures: _
        """
        return why_update_args(v, a, r, d, l) == ""
    if fe == 1:
        update_args.__doc__ = update_args.__doc__.replace("requires: 0 <= a", "requires: v and 0 <= a")
    _register(P, "update_args", why_update_args, update_args)

    # --- 5. ARN arguments of the other actions --------------------------------------------------------------
    def why_arn_args(act, a, x, s):
        if act == 0:
            c = ("DeleteStateMachine", body(stateMachineArn=pick(SM_ARNS, a)))
        elif act == 1:
            c = ("DescribeStateMachine", body(stateMachineArn=pick(SM_ARNS, a)))
        elif act == 2:
            c = ("DescribeStateMachineForExecution", body(executionArn=pick(EX_ARNS, a)))
        elif act == 3:
            c = ("DescribeExecution", body(executionArn=pick(EX_ARNS, a)))
        elif act == 4:
            c = ("ListExecutions", body(stateMachineArn=pick(SM_ARNS, a), statusFilter=pick(FILTERS, x)))
        else:
            en = pick(EXEC_NAMES, x // 8)
            c = ("StartExecution", body(stateMachineArn=pick(SM_ARNS, a), name=(concrete(s) if en is None else en), input=pick(INPUTS, x % 8)))
        return run(fe, True, [c, ("ListStateMachines", {})], machines=PRE2, executions=True)

    @condition(timeout={"quick": 120, "thorough": 900},
               bounds={"quick": {"NA": 7, "NE": 8, "NF": 6, "NX": 5, "NI": 4, "LEN": 1, "AL": "'x /'"},
                       "thorough": {"NA": len(SM_ARNS), "NE": len(EX_ARNS), "NF": len(FILTERS), "NX": len(EXEC_NAMES), "NI": len(INPUTS), "LEN": 2, "AL": "'x1 /\\n*'"}},
               functions=[H + ">aws_api_DeleteStateMachine", H + ">aws_api_DescribeStateMachine", H + ">aws_api_DescribeStateMachineForExecution",
                          H + ">aws_api_DescribeExecution", H + ">aws_api_ListExecutions", H + ">aws_api_StartExecution",
                          FN + ":valid_state_machine_arn", FN + ":valid_execution_arn", FN + ":valid_name"])
    def arn_args(act: int, a: int, x: int, s: str) -> bool:
        """
        requires: 0 <= act < 6 and 0 <= a and (a < @NA@ if act in (0, 1, 4, 5) else a < @NE@)
        requires: (x == 0 if act < 4 else (0 <= x < @NF@ if act == 4 else (0 <= x // 8 < @NX@ and 0 <= x % 8 < @NI@)))
        requires: (len(s) <= @LEN@ and name_ok(s, @AL@)) if (act == 5 and x // 8 == 2) else s == ''
        ensures: _
        """
        return why_arn_args(act, a, x, s) == ""
    _register(P, "arn_args", why_arn_args, arn_args)

    # --- 6. names: create / describe / start / delete round trip for every accepted name --------------------
    def why_names(s, e):
        s = concrete(s); e = concrete(e)
        minted = []

        def arn(last):
            if isinstance(last, dict) and "stateMachineArn" in last:
                minted.append(last["stateMachineArn"])
            return minted[0] if minted else sm_arn("zz")
        return run(fe, True, [("CreateStateMachine", body(name=s, roleArn=ROLE1, definition=ASL1)),
                              ("DescribeStateMachine", lambda last: body(stateMachineArn=arn(last))),
                              ("StartExecution", lambda last: body(stateMachineArn=arn(last), name=e)),
                              ("DeleteStateMachine", lambda last: body(stateMachineArn=arn(last))),
                              ("DescribeStateMachine", lambda last: body(stateMachineArn=arn(last))),
                              ("ListStateMachines", {})])

    @condition(timeout={"quick": 120, "thorough": 900},
               bounds={"quick": {"N": 2, "M": 1, "AL": "'m: /\\n'"}, "thorough": {"N": 3, "M": 1, "AL": "'m1: /\\n\\x85'"}},
               functions=[FN + ":valid_name", "arn.create_arn / parse_arn (minting of state machine and execution ARNs)",
                          FN + ":valid_state_machine_arn", H + ">aws_api_CreateStateMachine / DescribeStateMachine / StartExecution / DeleteStateMachine"])
    def names(s: str, e: str) -> bool:
        """
        requires: len(s) <= @N@ and len(e) <= @M@ and name_ok(s, @AL@) and name_ok(e, @AL@)
        ensures: _
        """
        return why_names(s, e) == ""
    _register(P, "names", why_names, names)

    # --- 7. histories over the state-machine actions --------------------------------------------------------
    def why_sm_history(c1, c2, c3, c4):
        return history(fe, True, SM_CALLS, [c1, c2, c3, c4])

    SMF = [H + ">aws_api_CreateStateMachine", H + ">aws_api_UpdateStateMachine", H + ">aws_api_DeleteStateMachine",
           H + ">aws_api_DescribeStateMachine", H + ">aws_api_ListStateMachines"]

    @condition(timeout={"quick": 150, "thorough": 2400}, bounds={"quick": {"K": 15, "L4": "False"}, "thorough": {"K": 11, "L4": "True"}},
               functions=SMF)
    def sm_history(c1: int, c2: int, c3: int, c4: int) -> bool:
        """
        requires: 0 <= c1 < @K@ and 0 <= c2 < @K@ and 0 <= c3 < @K@
        requires: c4 == -1 or (@L4@ and 0 <= c4 < @K@)
        ensures: _
        """
        return why_sm_history(c1, c2, c3, c4) == ""
    _register(P, "sm_history", why_sm_history, sm_history)

    def why_sm_history_wide(v, c1, c2, c3):
        return history(fe, v, SM_CALLS, [c1, c2, c3])

    @condition(timeout={"quick": 150, "thorough": 2400}, bounds={"thorough": {"K": len(SM_CALLS)}}, tiers=("thorough",), functions=SMF)
    def sm_history_wide(v: bool, c1: int, c2: int, c3: int) -> bool:
        """
        requires: 0 <= c1 < @K@ and 0 <= c2 < @K@ and 0 <= c3 < @K@
        ensures: _
        """
        return why_sm_history_wide(v, c1, c2, c3) == ""
    if fe == 1:
        sm_history_wide.__doc__ = sm_history_wide.__doc__.replace("requires: 0 <= c1", "requires: v and 0 <= c1")
    _register(P, "sm_history_wide", why_sm_history_wide, sm_history_wide)

    # --- 8. histories mixing machine life cycle and execution actions ---------------------------------------
    def why_exec_history(c1, c2, c3, c4):
        return history(fe, True, EX_CALLS, [c1, c2, c3, c4], machines=PRE1, executions=True)

    EXF = [H + ">aws_api_StartExecution", H + ">aws_api_DescribeStateMachineForExecution", H + ">aws_api_ListExecutions",
           H + ">aws_api_DescribeExecution", H + ">aws_api_CreateStateMachine", H + ">aws_api_DeleteStateMachine"]

    @condition(timeout={"quick": 150, "thorough": 2400}, bounds={"quick": {"K": 15, "L4": "False"}, "thorough": {"K": 11, "L4": "True"}},
               functions=EXF)
    def exec_history(c1: int, c2: int, c3: int, c4: int) -> bool:
        """
        requires: 0 <= c1 < @K@ and 0 <= c2 < @K@ and 0 <= c3 < @K@
        requires: c4 == -1 or (@L4@ and 0 <= c4 < @K@)
        ensures: _
        """
        return why_exec_history(c1, c2, c3, c4) == ""
    _register(P, "exec_history", why_exec_history, exec_history)

    def why_exec_history_wide(c1, c2, c3):
        return history(fe, True, EX_CALLS, [c1, c2, c3], machines=PRE1, executions=True)

    @condition(timeout={"quick": 150, "thorough": 2400}, bounds={"thorough": {"K": len(EX_CALLS)}}, tiers=("thorough",),
               functions=EXF + [H + ">aws_api_UpdateStateMachine"])
    def exec_history_wide(c1: int, c2: int, c3: int) -> bool:
        """
        requires: 0 <= c1 < @K@ and 0 <= c2 < @K@ and 0 <= c3 < @K@
        ensures: _
        """
        return why_exec_history_wide(c1, c2, c3) == ""
    _register(P, "exec_history_wide", why_exec_history_wide, exec_history_wide)


# ----------------------------------------------------------------------------- known-finding regions
# Region predicates over the conditions' arguments (usable in known_findings.json if a
# defect is recorded instead of repaired).  Each is the exact set of inputs on which the
# named defect is hit, so that every other violation still surfaces.


def kf_envelope_not_object(act, ct, tg, bd):
    """a well-formed request for one of the eight actions that read arguments whose body is not a JSON object"""
    return ct == 0 and tg == 0 and 0 <= bd < 9 and 0 <= act < 9 and act != 5


def kf_json_types(fe, f, w):
    """definition not a string, type / statusFilter unhashable, loggingConfiguration not an object, input not a string"""
    if f == 2 or f == 7: return True
    if f == 3 or f == 17: return w == 1 or w == 2
    if f == 14: return w == 0 or w == 3
    return fe == 0 and (f == 4 or f == 8) and w != 2


def _accepted_but_for(action, b, member, replacement, validate=True, fe=0, machines=PRE1):
    """Would the model accept the request if `member` were `replacement`?"""
    snap, model, history0, step = prestate(fe, machines, True)
    model.asl_validation = bool(validate) and fe == 0
    b = dict(b)
    if replacement is ABSENT: b.pop(member, None)
    else: b[member] = replacement
    p = model.plan(action, b, T0 + 100)
    return p.ok is not None


def kf_create_logging_level_unhashable(v, n, s, r, d, t, l):
    """asyncio: loggingConfiguration.level is a list -> TypeError -> 500 (otherwise acceptable request)"""
    if l != 10:
        return False
    b = create_body(n, s, r, d, t, l)
    validating = True if v else False
    with _Swap(True, is_tracing()):
        if not ref.classify_definition(b.get("definition"))[1]:
            return False                                    # MissingRequiredParameter comes first
        return _accepted_but_for("CreateStateMachine", b, "loggingConfiguration", ABSENT, validate=validating)


def update_defect(fe, validating, rec, b):
    """Does UpdateStateMachine request `b` for the live record `rec` hit one of the known UpdateStateMachine
    defects?  (roleArn / definition are written into the live record before the later members are validated;
    asyncio: the loggingConfiguration error paths raise NameError -> 500.)"""
    role = b.get("roleArn"); d = b.get("definition"); log = b.get("loggingConfiguration")
    has_role = role is not None and role != ""
    if has_role and not ref.valid_role_arn(role):
        return False                                        # refused before anything is written
    wrote = has_role and role != rec["roleArn"]
    parsed = None
    if d is not None and d != "":
        kind, parsed = ref.classify_definition(d)
        if kind == "bad":
            return wrote                                    # InvalidDefinition after the roleArn write
        if kind == "json" and fe == 0 and validating:
            return wrote                                    # InvalidDefinition (statelint) after the roleArn write
        wrote = wrote or parsed != rec["definition"]
    if not has_role and not parsed:
        return wrote                                        # MissingRequiredParameter after the definition write
    if fe == 0 and log is not None and log != {} and not ref.classify_logging(log):
        return True                                         # NameError -> 500
    return False


def kf_update(fe, v, a, r, d, l):
    """update_args: region of the UpdateStateMachine defects (the live machine m1 is SM_ARNS[0])"""
    if a != 0:
        return False
    b = update_body(a, r, d, l)
    validating = (True if v else False) and fe == 0
    with _Swap(True, is_tracing()):
        return update_defect(fe, validating, {"roleArn": ROLE1, "definition": json.loads(ASL1)}, b)


def kf_history_update(fe, options, v, *cs):
    """histories: some call is an UpdateStateMachine of a machine that is live at that point and hits update_defect()"""
    calls = [pick(options, c) for c in cs if c != -1]
    validating = True if v else False
    with _Swap(True, is_tracing()):
        model = ref.Model(region="local", asl_validation=validating and fe == 0, logging_supported=(fe == 0))
        now = T0
        for action, b in calls:
            now += 1
            if action == "UpdateStateMachine" and b.get("stateMachineArn") in model.machines:
                if update_defect(fe, model.asl_validation, model.machines[b["stateMachineArn"]], b):
                    return True
            p = model.plan(action, copy.deepcopy(b), now)
            if p.ok is not None:
                p.commit(None)
        return False


def deviations(n, r, d, t, l):
    """Number of CreateStateMachine members that deviate from their first valid
    representative (name m2, ROLE1, ASL1, type absent, loggingConfiguration absent)."""
    dev = 0
    if n != 1: dev += 1
    if r != 0: dev += 1
    if d != 0: dev += 1
    if t != 0: dev += 1
    if l != 0: dev += 1
    return dev


_make(0)
_make(1)
