"""Whole-run (S2) scenarios over the Redis-backed stores (vf.fake_redis underneath): the engine instance keeps its
execution records and history in RedisDictStore / RedisListStore, and after every scheduling step the execution is
read back through the REST API of a SECOND process (own connection to the same server) and through the API of the
engine's own process - "reading through any engine instance that shares the store gives the same answers"."""
import vf; vf.setup_paths()
from vf import s2, sim, stubs
from vf.stubs import pick, cbool, cint
import s2_scenarios as scn
from s2_scenarios import task, worker, SCN
import vh_c10 as api

json = stubs.FastJson
READERS = [api.FrontEnd(api.ra, True), api.FrontEnd(api.rb, False)]     # asyncio / blocking front end


def _call(fe, action, **members):
    v, code = fe.call("AWSStepFunctions." + action, api.CT, json.dumps(members).encode())
    return v, code


def _bind(fe, asl_store, executions, history):
    fe.api.asl_store, fe.api.executions, fe.api.execution_history = asl_store, executions, history


def _deliver_all(fr):
    for tid in list(fr.SERVER.pending.keys()):
        while fr.SERVER.n_pending(tid):
            fr.SERVER.deliver(tid)


def probe_factory(fei, remote, deliver, sm_arn):
    """on_step_extra callback: compare the API's answers with the latest notification of every execution."""
    fr, st = sim.use_redis()
    fe = READERS[fei]
    state = {}

    def probe(run, inst, mon):
        if "bound" not in state:
            if remote:
                sim.new_redis_process()
                _bind(fe, st.create_ASL_store(sim.REDIS_URL), st.create_executions_store(sim.REDIS_URL), st.create_history_store(sim.REDIS_URL))
                # the engine keeps the connection it opened; later stores of this reader share the reader's
            else:
                _bind(fe, inst.eng.asl_store, inst.eng.executions, inst.eng.execution_history)
            state["bound"] = True
        if deliver:
            _deliver_all(fr)
        for arn, notes in mon.per_exec().items():
            d = notes[-1][1]["detail"]
            v, code = _call(fe, "DescribeExecution", executionArn=arn)
            if code != 200:
                return "C11 DescribeExecution(%s) through %s answered %s %s" % (arn, "another instance" if remote else "the engine's own API", code, v)
            for k in ("status", "input", "output"):
                if v.get(k) != d.get(k):
                    return "C11 DescribeExecution.%s = %r but the latest notification says %r (%s instance, invalidations %s)" % (
                        k, v.get(k), d.get(k), "other" if remote else "same", "delivered" if deliver else "pending")
            if (v.get("stopDate") is None) != (d.get("stopDate") is None) or v.get("error") != d.get("error"):
                return "C11 DescribeExecution stopDate/error disagree with the latest notification"
            h, code = _call(fe, "GetExecutionHistory", executionArn=arn)
            if code != 200:
                return "C11 GetExecutionHistory answered %s" % code
            evs = h.get("events") or []
            if [e["id"] for e in evs] != list(range(1, len(evs) + 1)) or not evs or evs[0]["type"] != "ExecutionStarted":
                return "C09 history read through the API is not 1..n starting with ExecutionStarted: %s" % [(e["id"], e["type"]) for e in evs][:6]
            last = evs[-1]["type"]
            term = {"SUCCEEDED": "ExecutionSucceeded", "FAILED": "ExecutionFailed"}.get(d["status"])
            if (term is not None and last != term) or (term is None and last in ("ExecutionSucceeded", "ExecutionFailed")):
                return "C11 last history event %s but status %s" % (last, d["status"])
            if evs[0]["executionStartedEventDetails"].get("input") != d.get("input"):
                return "C09 ExecutionStarted input %r differs from the execution's input %r" % (evs[0]["executionStartedEventDetails"].get("input"), d.get("input"))
            ends = [e for e in evs if e["type"] in ("ExecutionSucceeded", "ExecutionFailed")]
            if len(ends) > 1 or len([e for e in evs if e["type"] == "ExecutionStarted"]) != 1:
                return "C09 history holds %d terminal / several ExecutionStarted events" % len(ends)
            l, code = _call(fe, "ListExecutions", stateMachineArn=sm_arn)
            mine = [e for e in (l.get("executions") or []) if e.get("executionArn") == arn] if code == 200 else []
            if len(mine) != 1 or mine[0].get("status") != d["status"]:
                return "C11 ListExecutions reports %s for %s, latest notification %s" % ([e.get("status") for e in mine], arn, d["status"])
        return ""
    return probe


ARN = "arn:aws:states:local:0123456789:stateMachine:m"


def redis_chain(which, fail: bool, fei: int, remote: bool, deliver: bool, c0: int, c1: int):
    """Pass -> Task f -> Wait 1 s -> Succeed, STANDARD, Redis-backed stores; after every step the execution is read
    through the REST API (front end fei) of another process (remote) or of the engine's own process, with the cache
    invalidation messages delivered before each read or left pending."""
    fail = cbool(fail); fei = cint(fei, 0, 1); remote = cbool(remote); deliver = cbool(deliver)
    asl = {"StartAt": "P", "States": {
        "P": {"Type": "Pass", "Result": {"p": 1}, "ResultPath": "$.r", "Next": "T"},
        "T": task("f", ResultPath="$.t", Next="W"),
        "W": {"Type": "Wait", "Seconds": 1, "Next": "S"},
        "S": {"Type": "Succeed"}}}
    expect = ("FAILED", "Boom") if fail else ("SUCCEEDED", {"x": 1, "r": {"p": 1}, "t": {"ok": "f", "in": {"x": 1, "r": {"p": 1}}}})
    return s2.run_scenario(asl, {"x": 1}, [c0, c1], {"f": worker(fail, "Boom", "f")}, which, "STANDARD", expect, fast=True,
                           store="redis", on_step_extra=probe_factory(fei, remote, deliver, ARN))


def redis_name_reused(which, fei: int, remote: bool, c0: int, c1: int, c2: int, c3: int):
    """Two executions of Task f -> Pass, started one after the other under the SAME execution name (names are not
    checked for uniqueness): the second run replaces the record and must start a fresh history."""
    fei = cint(fei, 0, 1); remote = cbool(remote)
    asl = {"StartAt": "T", "States": {"T": task("f", ResultPath="$.t", Next="Z"), "Z": {"Type": "Pass", "End": True}}}
    n = [0]

    def w(req):
        n[0] += 1
        return {"ok": n[0]}
    started = [0]
    probe = probe_factory(fei, remote, True, ARN)

    def step(run, inst, mon):
        # the monitors look at one life of the ARN at a time: forget the finished first run when the second starts
        per = mon.per_exec()
        for arn, notes in per.items():
            if len(notes) >= 2 and started[0] == 0 and not any(sim.BROKER.queues.values()) and not sim.BROKER.unacked:
                started[0] = 1
                del sim.BROKER.topic[:]
                mon.snap.clear(); mon.hist_mark.clear()
                ev = sim.start_event({"x": 2}, ARN, name="same")
                inst.ed.publish(ev, use_shared_queue=True)
                return ""
        return probe(run, inst, mon)

    def chk(run, inst, mon):
        if started[0] != 1:
            return "second run not started"
        got = s2.result_of()
        if got != ("SUCCEEDED", {"x": 2, "t": {"ok": 2}}):
            return "second run outcome %r" % (got,)
        return ""
    return s2.run_scenario(asl, {"x": 1}, [c0, c1, c2, c3], {"f": w}, which, "STANDARD", None, fast=True, store="redis",
                           on_step_extra=step, extra_check=chk, start_ctx=lambda i: {"Execution": {"Name": "same"}}, max_steps=120)


SCN["redis_chain"] = (["0 <= fei < 2"], 300, 900, ("quick", "thorough"))
SCN["redis_name_reused"] = (["0 <= fei < 2"], 300, 900, ("quick", "thorough"))
for _n in ("redis_chain", "redis_name_reused"):
    scn.__dict__[_n] = globals()[_n]


def register(glob, which, names, split=None):
    scn.register(glob, which, names, split)
