"""C08 - Waits and timeouts fire at the right instant, never early."""
import types
import vf; vf.setup_paths()
from vf.api import condition
from vf import stubs, symnum
from vf.symnum import P
from asl_workflow_engine import state_engine as se
import s2_scenarios as scn

PROPERTY = "C08"
ASSUMPTIONS = [
    "Engine B (vf/symnum.py): Python floats are treated as exact reals, ints as mathematical integers; IEEE rounding of the millisecond conversion is outside the claim",
    "deadline kernels run the real StateEngine.notify (asl_state_Wait / asl_state_Task_delegate closures) natively on symbolic numbers; time.time(), parse_rfc3339_datetime(...).timestamp() and datetime.now()/fromtimestamp() are replaced by stubs returning the symbolic instants (the RFC 3339 parser itself is checked separately)",
    "RFC 3339 kernel (CrossHair): datetime.strptime/timedelta/timezone in the function's namespace are recording shims so the offset arithmetic stays symbolic (C strptime would realise the string); the date part is passed through unchanged and is checked to be so",
    "in the Engine B kernels ties (wait target == execution deadline) and events handled at/after the execution deadline are left unconstrained: both 'complete' and 'time out' are defensible there",
    "broadcast_notification (int(seconds*1000) conversion, C11's subject) is replaced by a recorder in the Engine B kernels",
    "whole-run timing conditions use the SimBroker's virtual clock: instants are compared exactly",
]

# ---------------------------------------------------------------------------
# RFC 3339 offsets (Engine A)
# ---------------------------------------------------------------------------


class _RecDelta:
    def __init__(self, hours=0, minutes=0):
        self.m = hours * 60 + minutes

    def __neg__(self):
        r = _RecDelta(); r.m = -self.m
        return r


class _RecDT:
    def __init__(self, date, fmt):
        self.date = date; self.fmt = fmt; self.tz = None

    def replace(self, tzinfo=None):
        self.tz = tzinfo
        return self


class _RecDatetime:
    @staticmethod
    def strptime(date, fmt):
        return _RecDT(date, fmt)


def _parse_with_shims():
    ns = dict(se.__dict__)
    ns["datetime"] = _RecDatetime
    ns["timedelta"] = _RecDelta
    ns["timezone"] = lambda delta: delta
    return types.FunctionType(se.parse_rfc3339_datetime.__code__, ns, "parse_rfc3339_datetime")


PARSE = _parse_with_shims()
DATES = ["2020-01-01T10:00:00", "1999-12-31T23:59:59.5", "2024-02-29T00:00:00.123456"]


def _digit(ch):
    return ord(ch) - 48


def valid_offset(off):
    return (len(off) == 6 and off[0] in "+-" and off[1] in "012" and off[2] in "0123456789" and off[3] == ":"
            and off[4] in "012345" and off[5] in "0123456789" and not (off[1] == "2" and off[2] in "456789"))


@condition(timeout={"quick": 240, "thorough": 900}, functions=["state_engine.parse_rfc3339_datetime (offset arithmetic)"],
           outside=["more than 6 fractional digits (strptime %f limit), leap seconds, lower-case t/z"])
def rfc3339_offset(di: int, off: str) -> bool:
    """
    requires: 0 <= di < 3 and valid_offset(off)
    ensures: _
    """
    off = "".join([c for c in off])
    date = stubs.pick(DATES, di)
    r = PARSE(date + off)
    want = (_digit(off[1]) * 10 + _digit(off[2])) * 60 + _digit(off[4]) * 10 + _digit(off[5])
    if off[0] == "-":
        want = -want
    want_date = date if "." in date else date + ".0"
    return r.tz.m == want and r.date == want_date and r.fmt == "%Y-%m-%dT%H:%M:%S.%f"


@condition(timeout={"quick": 30, "thorough": 60}, functions=["state_engine.parse_rfc3339_datetime (Z form, surrounding whitespace)"])
def rfc3339_zulu(di: int, lead: int, trail: int) -> bool:
    """
    requires: 0 <= di < 3 and 0 <= lead <= 2 and 0 <= trail <= 2
    ensures: _
    """
    date = stubs.pick(DATES, di)
    r = PARSE(" " * lead + date + "Z" + " " * trail)
    return r.tz.m == 0 and r.date == (date if "." in date else date + ".0")


@condition(kind="native", timeout=60, functions=["state_engine.parse_rfc3339_datetime with the real datetime (translator validation of the shims)"])
def rfc3339_native_crosscheck(replay=None):
    """Concrete cross-check of the real function (real datetime) against an independent computation."""
    import datetime as dt, calendar
    real = types.FunctionType(se.parse_rfc3339_datetime.__code__, dict(se.__dict__, datetime=dt.datetime, timedelta=dt.timedelta, timezone=dt.timezone))
    n = 0
    for date, base in (("2020-01-01T10:00:00", calendar.timegm((2020, 1, 1, 10, 0, 0))), ("1999-12-31T23:59:59.5", calendar.timegm((1999, 12, 31, 23, 59, 59)) + 0.5)):
        for sign in (1, -1):
            for hh in (0, 1, 5, 9, 10, 12, 14, 23):
                for mm in (0, 1, 9, 10, 29, 30, 45, 59):
                    s = "%s%s%02d:%02d" % (date, "+" if sign > 0 else "-", hh, mm)
                    got = real(s).timestamp()
                    want = base - sign * (hh * 3600 + mm * 60)
                    n += 1
                    if abs(got - want) > 1e-6:
                        return {"status": "refuted", "message": "parse_rfc3339_datetime(%r).timestamp() = %r, expected %r" % (s, got, want),
                                "cex": [{"model": {"s": s}}], "paths": n}
        if abs(real(date + "Z").timestamp() - base) > 1e-6:
            return {"status": "refuted", "message": "Z form wrong for %s" % date, "cex": [{"model": {"s": date + "Z"}}], "paths": n}
    # any number of fraction digits (RFC 3339 time-secfrac = "." 1*DIGIT) and the lower case forms of T and Z
    base = calendar.timegm((2020, 1, 1, 10, 0, 0))
    for frac, val in (("1", 0.1), ("123456", 0.123456), ("1234567", 0.1234567), ("123456789", 0.123456789), ("000000001", 0.000000001), ("999999999", 0.999999999)):
        for tail, off in (("Z", 0), ("z", 0), ("+05:30", 19800), ("-00:01", -60)):
            for sep in ("T", "t"):
                s = "2020-01-01" + sep + "10:00:00." + frac + tail
                n += 1
                try:
                    got = real(s).timestamp()
                except Exception as e:
                    return {"status": "refuted", "message": "parse_rfc3339_datetime(%r) raised %s: a legal RFC 3339 timestamp is not recognised" % (s, type(e).__name__),
                            "cex": [{"model": {"s": s}}], "paths": n}
                if abs(got - (base + val - off)) > 1.1e-6:
                    return {"status": "refuted", "message": "parse_rfc3339_datetime(%r).timestamp() = %r, expected %r" % (s, got, base + val - off),
                            "cex": [{"model": {"s": s}}], "paths": n}
    if replay is not None:
        return {"reproduced": False, "reason": "cross-check passes"}
    return {"status": "confirmed", "message": "%d concrete timestamps agree" % n, "paths": n, "queries": 0}


# ---------------------------------------------------------------------------
# Deadline arithmetic (Engine B) on the real Wait / Task handlers
# ---------------------------------------------------------------------------
class _Stamp:
    def __init__(self, v): self.v = v
    def timestamp(self): return self.v
    def astimezone(self, *a): return self
    def isoformat(self): return "ISO"


class _SymEnv:
    """Plants symbolic instants into state_engine's namespace for one kernel run."""
    def __init__(self, now, table):
        self.now = now; self.table = table
        self.saved = {k: getattr(se, k) for k in ("time", "datetime", "parse_rfc3339_datetime", "json")}
        env = self

        class T:
            @staticmethod
            def time(): return env.now

        class D:
            @staticmethod
            def now(tz=None): return _Stamp(env.now)
            @staticmethod
            def fromtimestamp(x, tz=None): return _Stamp(x)

        class J:
            @staticmethod
            def dumps(o, *a, **k): return "<json>"
        se.time = T; se.datetime = D; se.json = J
        se.parse_rfc3339_datetime = lambda s: _Stamp(table[s])

    def restore(self):
        for k, v in self.saved.items():
            setattr(se, k, v)


def _wait_kernel(mode):
    """mode 0: Seconds, 1: SecondsPath, 2: Timestamp, 3: TimestampPath"""
    def kernel(now, entered, start, amount, mto):
        state = {"Type": "Wait", "Next": "N"}
        data = {"x": 1}
        if mode == 0: state["Seconds"] = amount
        elif mode == 1: state["SecondsPath"] = "$.amount"; data["amount"] = amount
        elif mode == 2: state["Timestamp"] = "TARGET"
        else: state["TimestampPath"] = "$.ts"; data["ts"] = "TARGET"
        asl = {"StartAt": "W", "TimeoutSeconds": mto, "States": {"W": state, "N": {"Type": "Succeed"}}}
        target = (entered + amount) if mode < 2 else amount
        env = _SymEnv(now, {"ENTERED": entered, "START": start, "TARGET": amount})
        try:
            eng, log = stubs.make_engine(asl, "EXPRESS", fire_timeouts=False)
            se.time = type("T", (), {"time": staticmethod(lambda: now)})   # make_engine re-installs the stub clock
            se.datetime = type("D", (), {"now": staticmethod(lambda tz=None: _Stamp(now)), "fromtimestamp": staticmethod(lambda x, tz=None: _Stamp(x))})
            ev = stubs.running_event("W", data, "EXPRESS", entered="ENTERED", start="START")
            eng.broadcast_notification = lambda arn, detail, ctx: log.append(("broadcast", detail["stateMachineArn"] + "." + detail["status"], {"detail": dict(detail)}))
            eng.notify(ev, "id1")
            armed = [l for l in log if l[0] == "set_timeout"]
            if len(armed) != 1:
                return False, "armed=%d" % len(armed)
            d = armed[0][2]
            deadline = start + mto
            due = P.max(now, P.min(target, deadline))
            ok = P.and_(P.ge(d, 0), P.eq(now + d / 1000, due), P.ge(now + d / 1000, P.min(target, deadline)))
            # fire it and look at the outcome
            (cb, _d) = list(eng.event_dispatcher.timers.values())[0]
            cb()
            pubs = [l for l in log if l[0] == "publish"]
            bcs = [l for l in log if l[0] == "broadcast"]
            acks = [l for l in log if l[0] == "ack"]
            completed = len(pubs) == 1 and not bcs and pubs[0][1]["context"]["State"]["Name"] == "N"
            timed_out = (not pubs and len(bcs) == 1 and bcs[0][2]["detail"]["status"] == "FAILED"
                         and bcs[0][2]["detail"].get("error") == "States.Timeout")
            if len(acks) != 1 or not (completed or timed_out):
                return False, "outcome"
            label = "completed" if completed else "execution-timeout"
            # outcome is constrained only strictly inside the execution's lifetime and away from the tie
            if completed:
                ok = P.and_(ok, P.implies(P.lt(now, deadline), P.le(target, deadline)))
            else:
                ok = P.and_(ok, P.implies(P.lt(now, deadline), P.ge(target, deadline)))
            return ok, label
        finally:
            env.restore()
    return kernel


def _wait_assume(now, entered, start, amount, mto):
    return [P.ge(start, 0), P.ge(entered, start), P.ge(now, entered), P.ge(mto, 1), P.ge(amount, 0)]


WAIT_SPEC = {"now": "real", "entered": "real", "start": "real", "amount": "real", "mto": "int"}


def _mk_wait(mode, name):
    @condition(kind="symnum", timeout=120, functions=["StateEngine.notify > asl_state_Wait (+ on_timeout, get_timeout_from_rfc3339_datetime)", "handle_error", "end_execution"])
    def c(replay=None):
        return symnum.run_kernel(_wait_kernel(mode), WAIT_SPEC, _wait_assume, replay)
    c.__name__ = c.__qualname__ = name
    globals()[name] = c


for _m, _n in enumerate(["wait_seconds", "wait_seconds_path", "wait_timestamp", "wait_timestamp_path"]):
    _mk_wait(_m, _n)


def _task_kernel(now, entered, start, tto, mto, has_tto):
    state = {"Type": "Task", "Resource": "arn:aws:rpcmessage:local::function:f", "Next": "N"}
    asl = {"StartAt": "T", "TimeoutSeconds": mto, "States": {"T": state, "N": {"Type": "Succeed"}}}
    env = _SymEnv(now, {"ENTERED": entered, "START": start})
    try:
        if has_tto > 0:     # symbolic selector: TimeoutSeconds present / absent (default 99999999)
            state["TimeoutSeconds"] = tto
            eff = tto
        else:
            eff = 99999999
        eng, log = stubs.make_engine(asl, "EXPRESS")
        se.time = type("T", (), {"time": staticmethod(lambda: now)})
        se.datetime = type("D", (), {"now": staticmethod(lambda tz=None: _Stamp(now)), "fromtimestamp": staticmethod(lambda x, tz=None: _Stamp(x))})
        ev = stubs.running_event("T", {"x": 1}, "EXPRESS", entered="ENTERED", start="START")
        eng.notify(ev, "id1")
        calls = [l for l in log if l[0] == "execute_task"]
        if len(calls) != 1:
            return False, "calls=%d" % len(calls)
        _, _arn, _params, timeout, is_task, _id, _red = calls[0]
        task_deadline = entered + eff
        exec_deadline = start + mto
        want = P.max(0, (P.min(task_deadline, exec_deadline) - now) * 1000)
        ok = P.and_(P.eq(timeout, want), P.ge(timeout, 0))
        # is_task_timeout tells which deadline is the earlier one (ties -> task)
        if is_task:
            ok = P.and_(ok, P.implies(P.lt(now, P.min(task_deadline, exec_deadline)), P.le(task_deadline, exec_deadline)))
            label = "task-deadline"
        else:
            ok = P.and_(ok, P.implies(P.lt(now, P.min(task_deadline, exec_deadline)), P.lt(exec_deadline, task_deadline)))
            label = "execution-deadline"
        return ok, label
    finally:
        env.restore()


@condition(kind="symnum", timeout=120, functions=["StateEngine.notify > asl_state_Task_delegate (timeout computation)"])
def task_deadline(replay=None):
    spec = {"now": "real", "entered": "real", "start": "real", "tto": "int", "mto": "int", "has_tto": "int"}
    return symnum.run_kernel(_task_kernel, spec,
                             lambda now, entered, start, tto, mto, has_tto: [P.ge(start, 0), P.ge(entered, start), P.ge(now, entered), P.ge(tto, 1), P.ge(mto, 1), P.ge(has_tto, 0), P.le(has_tto, 1)],
                             replay)


def _task_timeout_class_kernel(now, entered, start, tto, mto):
    """The Task (with Catch States.ALL -> N) is dispatched at `now`; its request then times out (the dispatcher's
    timeout callback answers States.Timeout).  Which deadline the handler blames decides whether the Catch applies."""
    state = {"Type": "Task", "Resource": "arn:aws:rpcmessage:local::function:f", "Next": "N", "TimeoutSeconds": tto,
             "Catch": [{"ErrorEquals": ["States.ALL"], "Next": "N"}]}
    asl = {"StartAt": "T", "TimeoutSeconds": mto, "States": {"T": state, "N": {"Type": "Succeed"}}}
    env = _SymEnv(now, {"ENTERED": entered, "START": start})
    try:
        eng, log = stubs.make_engine(asl, "EXPRESS")
        se.time = type("T", (), {"time": staticmethod(lambda: now)})
        se.datetime = type("D", (), {"now": staticmethod(lambda tz=None: _Stamp(now)), "fromtimestamp": staticmethod(lambda x, tz=None: _Stamp(x))})
        eng.broadcast_notification = lambda arn, detail, ctx: log.append(("broadcast", detail["stateMachineArn"] + "." + detail["status"], {"detail": dict(detail)}))
        ev = stubs.running_event("T", {"x": 1}, "EXPRESS", entered="ENTERED", start="START")
        eng.notify(ev, "id1")
        calls = eng.task_dispatcher.calls
        if len(calls) != 1:
            return False, "calls=%d" % len(calls)
        callback = calls[0][2]
        callback({"errorType": "States.Timeout", "errorMessage": "timed out"})
        pubs = [l for l in log if l[0] == "publish"]
        bcs = [l for l in log if l[0] == "broadcast"]
        caught = len(pubs) == 1 and not bcs and pubs[0][1]["context"]["State"]["Name"] == "N"
        failed = (not pubs and len(bcs) == 1 and bcs[0][2]["detail"]["status"] == "FAILED"
                  and bcs[0][2]["detail"].get("error") == "States.Timeout")
        if not (caught or failed):
            return False, "outcome"
        task_deadline = entered + tto
        exec_deadline = start + mto
        if caught:
            # a Catch may intercept only a Task time-out: not when the execution deadline is strictly the earlier one,
            # and not when the execution had already run longer than the machine's TimeoutSeconds when the Task was dispatched
            ok = P.and_(P.not_(P.lt(exec_deadline, task_deadline)), P.not_(P.gt(now, exec_deadline)))
            return ok, "caught"
        # uncatchable: not when the Task deadline is strictly first and the execution deadline still ahead
        ok = P.not_(P.and_(P.lt(task_deadline, exec_deadline), P.lt(now, exec_deadline)))
        return ok, "uncatchable"
    finally:
        env.restore()


@condition(kind="symnum", timeout=120, functions=["StateEngine.notify > asl_state_Task_delegate > on_response (Task vs execution time-out classification)", "handle_error (unrecoverable States.ExecutionTimeout)", "end_execution"],
           outside=["the tie task deadline == execution deadline and a Task dispatched exactly at the execution deadline (both readings defensible)"])
def task_timeout_class(replay=None):
    spec = {"now": "real", "entered": "real", "start": "real", "tto": "int", "mto": "int"}
    return symnum.run_kernel(_task_timeout_class_kernel, spec,
                             lambda now, entered, start, tto, mto: [P.ge(start, 0), P.ge(entered, start), P.ge(now, entered), P.ge(tto, 1), P.ge(mto, 1)],
                             replay)


# ---------------------------------------------------------------------------
# Whole-run timing on the virtual clock (S2)
# ---------------------------------------------------------------------------
def _timing(which, slow: int, mto: int, catch: bool, c0: int, c1: int, c2: int):
    """Task with TimeoutSeconds 5 whose worker replies immediately (slow=0) or never (slow=1),
    machine TimeoutSeconds mto in {3, 20}; optional Catch(States.ALL). Then Wait 4 s."""
    from vf import s2, sim
    t = scn.task("f", TimeoutSeconds=5, ResultPath="$.t", Next="W")
    if catch:
        t["Catch"] = [{"ErrorEquals": ["States.ALL"], "ResultPath": "$.err", "Next": "W"}]
    asl = {"StartAt": "T", "TimeoutSeconds": mto, "States": {"T": t, "W": {"Type": "Wait", "Seconds": 4, "End": True}}}
    workers = {"f": (lambda req: None) if slow else (lambda req: {"ok": 1})}

    def chk(run, inst, mon):
        ts = sim.terminals()
        if len(ts) != 1:
            return "terminals %d" % len(ts)
        d = ts[0]
        dur = (d["stopDate"] - d["startDate"]) / 1000.0
        if not slow:
            want = ("SUCCEEDED", 4.0) if mto > 4 else ("FAILED", float(mto))
        elif mto <= 5:
            want = ("FAILED", float(mto))                       # execution deadline first (or at the same instant): not catchable
        elif catch:
            want = ("SUCCEEDED", 9.0) if mto > 9 else ("FAILED", float(mto))
        else:
            want = ("FAILED", 5.0)
        if (d["status"], dur) != want:
            return "C08 terminal %s after %.3fs, expected %s after %.3fs" % (d["status"], dur, want[0], want[1])
        if d["status"] == "FAILED" and d.get("error") != "States.Timeout":
            return "C08 error %r, expected States.Timeout" % (d.get("error"),)
        return ""
    return s2.run_scenario(asl, {"x": 1}, [c0, c1, c2], workers, which, "STANDARD", None, extra_check=chk, ttl=500)


@condition(timeout={"quick": 240, "thorough": 600}, functions=scn.ENGINE_FUNCS + ["TaskDispatcher.timeout_callback", "asl_state_Wait.on_timeout"])
def timing_run(slow: int, mi: int, catch: bool, c0: int, c1: int, c2: int) -> str:
    """
    requires: 0 <= slow < 2 and 0 <= mi < 4
    ensures: _ == ""
    """
    return _timing({"C08", "C02", "C03"}, slow, stubs.pick([3, 5, 7, 20], mi), catch, c0, c1, c2)


@condition(timeout={"quick": 240, "thorough": 600}, functions=scn.ENGINE_FUNCS + ["TaskDispatcher.timeout_callback", "asl_state_Wait.on_timeout"])
def timing_run_catch_to_end(slow: int, mi: int, c0: int, c1: int, c2: int) -> str:
    """
    requires: 0 <= slow < 2 and 0 <= mi < 3
    ensures: _ == ""
    """
    # as timing_run with a Catch whose target ends the execution at once (Pass, End): an intercepted time-out then shows
    # as SUCCEEDED instead of being masked by the time-out of a following Wait.  Ties (mto == 5) are left out.
    from vf import s2, sim
    mto = stubs.pick([3, 7, 20], mi)
    t = scn.task("f", TimeoutSeconds=5, ResultPath="$.t", Next="Z",
                 Catch=[{"ErrorEquals": ["States.ALL"], "ResultPath": "$.err", "Next": "Z"}])
    asl = {"StartAt": "T", "TimeoutSeconds": mto, "States": {"T": t, "Z": {"Type": "Pass", "End": True}}}
    workers = {"f": (lambda req: None) if slow else (lambda req: {"ok": 1})}

    def chk(run, inst, mon):
        ts = sim.terminals()
        if len(ts) != 1:
            return "terminals %d" % len(ts)
        d = ts[0]
        dur = (d["stopDate"] - d["startDate"]) / 1000.0
        if not slow:
            want = ("SUCCEEDED", 0.0)
        elif mto < 5:
            want = ("FAILED", float(mto))
        else:
            want = ("SUCCEEDED", 5.0)
        if (d["status"], dur) != want:
            return "C08 terminal %s after %.3fs, expected %s after %.3fs" % (d["status"], dur, want[0], want[1])
        if d["status"] == "FAILED" and d.get("error") != "States.Timeout":
            return "C08 error %r, expected States.Timeout" % (d.get("error"),)
        return ""
    return s2.run_scenario(asl, {"x": 1}, [c0, c1, c2], workers, {"C08", "C02", "C03"}, "STANDARD", None, extra_check=chk, ttl=500)


# ---------------------------------------------------------------------------
# Late / redelivered Wait and Task events (engine restart on the virtual clock)
# ---------------------------------------------------------------------------
def _redelivery(kind, delay, k, picks):
    """kind 0: Wait 3 s -> Pass(End); kind 1: Task f with TimeoutSeconds 5 whose worker never replies.
    Before scheduling step k the engine dies, `delay` seconds pass, and it is restarted with the same instance id
    (the broker redelivers what was unacknowledged).  The Wait must complete at max(target, restart instant) and
    never before its target; the Task must fail with States.Timeout at max(entry + 5, restart instant)."""
    import copy
    from vf import sim
    if kind == 0:
        asl = {"StartAt": "W", "States": {"W": {"Type": "Wait", "Seconds": 3, "Next": "Z"}, "Z": {"Type": "Pass", "End": True}}}
        first, span = "W", 3.0
    else:
        asl = {"StartAt": "T", "States": {"T": scn.task("f", TimeoutSeconds=5, End=True)}}
        first, span = "T", 5.0
    sim.reset()
    dur = sim.Durable()
    arn = dur.add_machine(asl)
    inst = sim.Instance(dur)
    run = sim.Run(picks, {"f": lambda req: None}, max_steps=60)
    run.instances = [inst]
    t0 = stubs.CLOCK.now
    inst.ed.publish(sim.start_event({"x": 1}, arn, name="e1"), use_shared_queue=True)
    entered = [None]
    crashed = False
    while run.steps < run.max_steps:
        if not crashed and run.steps == k:
            crashed = True
            # was the first state already entered (its event exists in the broker) when the engine died?
            b = sim.BROKER
            msgs = [m for q in b.queues.values() for m in q] + [v[1] for v in b.unacked.values()]
            for m in msgs:
                try:
                    doc = stubs.FastJson.loads(m.body if isinstance(m.body, str) else m.body.decode("utf8"))
                    if doc["context"]["State"]["Name"] == first:
                        entered[0] = t0
                except Exception:
                    pass
            if sim.terminals():
                entered[0] = "done"
            run.instances[0].kill()
            stubs.CLOCK.now += delay
            run.instances = [sim.Instance(dur)]
        if not run.step(None):
            break
    else:
        raise sim.BoundTooSmall("run exceeded %d steps" % run.max_steps)
    if not crashed:
        entered[0] = t0
    ts = sim.terminals()
    if not ts:
        return "C08 no terminal notification: the %s never %s after the restart" % ("Wait", "completed") if kind == 0 else "C08 no terminal notification: the redelivered Task never timed out"
    if entered[0] == "done":
        return ""
    restart = t0 + (delay if crashed else 0)
    ent = entered[0] if entered[0] is not None else restart
    want_stop = max(ent + span, restart)
    for d in ts:
        stop = d["stopDate"] / 1000.0
        if kind == 0:
            if d["status"] != "SUCCEEDED":
                return "C08 Wait run ended %s %s" % (d["status"], d.get("error"))
            if stop < ent + span:
                return "C08 Wait completed %.3fs after entry, before its target (3 s)" % (stop - ent)
        else:
            if d["status"] != "FAILED" or d.get("error") != "States.Timeout":
                return "C08 Task run ended %s %s, expected FAILED States.Timeout" % (d["status"], d.get("error"))
        if stop != want_stop:
            return "C08 terminal at +%.3fs, expected +%.3fs (entered +%.3fs, restarted +%.3fs)" % (stop - t0, want_stop - t0, ent - t0, restart - t0)
    return ""


@condition(timeout={"quick": 240, "thorough": 600}, functions=scn.ENGINE_FUNCS + ["notify(redelivered=True)", "TaskDispatcher.execute_task (redelivered)", "asl_state_Wait (late / redelivered event)"],
           bounds={"quick": {"K": 5}, "thorough": {"K": 5}})
def redelivery_timing(kind: int, di: int, k: int, c0: int, c1: int) -> str:
    """
    requires: 0 <= kind < 2 and 0 <= di < 4 and 0 <= k <= @K@
    ensures: _ == ""
    """
    kind = stubs.cint(kind, 0, 1); k = stubs.cint(k, 0, 5)
    return _redelivery(kind, stubs.pick([0.0, 1.0, 4.0, 7.0], di), k, [c0, c1, 0, 0, 0, 0])


# the execution time-out against states that have Catchers / Retriers (whole runs on the virtual clock)
import s2_found as found
found.register(globals(), {"C08", "C02"}, ["exec_timeout_handled"])
