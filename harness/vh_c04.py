"""C04 - in-progress executions survive an engine crash and restart."""
import copy
import vf; vf.setup_paths()
from vf.api import condition
from vf import sim, s2, stubs
from vf.stubs import pick
import s2_scenarios as scn

PROPERTY = "C04"
ASSUMPTIONS = [
    "SimBroker keeps queues, unacknowledged deliveries and the definition store across the crash; the engine process loses everything else (execution records, history, branch metadata, dispatcher dictionaries, timers, consumers)",
    "crash = a BaseException raised from the broker operation hook (inside a handler, after the k-th broker operation) or a kill between two scheduling steps; restart = a new StateEngine/TaskDispatcher/EventDispatcher with the same instance id; the broker requeues the dead connection's unacked deliveries at the head with redelivered=True and the same message id",
    "the crash point is a symbolic integer; the schedule vector is symbolic; workers reply when scheduled",
    "orphaned_response_retention_ms is 5000 (any value above the 1 s orphan-handler period orders the two timers as the 600 s default does)",
    "after the restart timers are fired in due order up to quiescence (incl. the 1 s orphaned-response timers and the execution time-out)",
    "if the run is quiescent while the execution is still RUNNING, the engine's heartbeat back-stop (check_for_expired_branch_results) is invoked once after the execution time-out has elapsed, as the 1 s heartbeat would",
    "under a crash, notifications are at-least-once: the oracle demands >= 1 terminal notification and that all terminal notifications of an execution agree; exactly-once is C02's claim for crash-free runs",
]

SCN = {
    "chain": ({"StartAt": "P", "States": {
        "P": {"Type": "Pass", "Result": 1, "ResultPath": "$.p", "Next": "T"},
        "T": scn.task("f", ResultPath="$.t", Next="Z"),
        "Z": {"Type": "Pass", "Result": 2, "ResultPath": "$.z", "End": True}}}, ["f"]),
    "wait": ({"StartAt": "W", "States": {"W": {"Type": "Wait", "Seconds": 3, "Next": "Z"},
                                         "Z": {"Type": "Pass", "Result": 2, "ResultPath": "$.z", "End": True}}}, []),
    "par": ({"StartAt": "P", "States": {"P": {"Type": "Parallel", "End": True, "Branches": [
        {"StartAt": "A", "States": {"A": scn.task("f", End=True)}},
        {"StartAt": "B", "States": {"B": {"Type": "Pass", "Result": "b", "End": True}}}]}}}, ["f"]),
    "map": ({"StartAt": "M", "States": {"M": {"Type": "Map", "ItemsPath": "$.items", "MaxConcurrency": 1, "End": True,
             "Iterator": {"StartAt": "I", "States": {"I": scn.task("f", End=True)}}}}}, ["f"]),
}
SCN["parnext"] = ({"StartAt": "P", "States": {"P": {"Type": "Parallel", "Next": "Z", "ResultPath": "$.p", "Branches": [
    {"StartAt": "A", "States": {"A": {"Type": "Pass", "Result": "a", "End": True}}},
    {"StartAt": "B", "States": {"B": {"Type": "Pass", "Result": "b", "End": True}}}]},
    "Z": {"Type": "Pass", "Result": "z", "ResultPath": "$.z", "End": True}}}, [])
# a Task that fails once with a retriable error and succeeds on the retry (3 s later): around a crash the retried
# request must not be sent again, a reply that arrives before the redelivered (still delayed) Task event must be
# retained until the Task is pending again, and the retry delay must not be served twice
SCN["retry"] = ({"StartAt": "T", "States": {
    "T": scn.task("f", ResultPath="$.t", Next="Z", Retry=[{"ErrorEquals": ["Flaky"], "IntervalSeconds": 3, "MaxAttempts": 2, "BackoffRate": 1.0}]),
    "Z": {"Type": "Pass", "Result": 2, "ResultPath": "$.z", "End": True}}}, ["f"])


def _flaky_workers():
    n = [0]

    def w(req):
        n[0] += 1
        if n[0] == 1:
            return {"errorType": "Flaky", "errorMessage": "first attempt"}
        return {"ok": 1}
    return {"f": w}


# a Task whose failure is caught, then a Choice on the caught error, then a Wait: the caught Error Output and the
# route taken must survive the crash
SCN["catch"] = ({"StartAt": "T", "States": {
    "T": scn.task("f", ResultPath="$.t", Next="Z", Catch=[{"ErrorEquals": ["States.ALL"], "ResultPath": "$.err", "Next": "C"}]),
    "C": {"Type": "Choice", "Choices": [{"Variable": "$.err.Error", "StringEquals": "Boom", "Next": "W"}], "Default": "Z"},
    "W": {"Type": "Wait", "Seconds": 2, "Next": "R"},
    # (the Cause text quotes a history event id, and the in-memory history does not survive the crash: only the error
    #  name is carried into the output)
    "R": {"Type": "Pass", "Parameters": {"x.$": "$.x", "caught.$": "$.err.Error", "r": "recovered"}, "End": True},
    "Z": {"Type": "Pass", "End": True}}}, ["f"])
# a parent whose Task launches a child execution and waits for it (.sync:2); the child does one Task of its own
SCN["child"] = ({"StartAt": "T", "States": {
    "T": {"Type": "Task", "Resource": "arn:aws:states:local::states:startExecution.sync:2", "ResultPath": "$.c", "Next": "Z",
          "Parameters": {"StateMachineArn": "arn:aws:states:local:0123456789:stateMachine:child", "Input": {"i.$": "$.x"}}},
    "Z": {"Type": "Pass", "Parameters": {"out.$": "$.c.Output"}, "End": True}}}, ["g"])
CHILDREN = {"child": [("child", {"StartAt": "G", "States": {"G": scn.task("g", ResultPath="$.g", End=True)}})]}

WORKERS = {"retry": _flaky_workers, "catch": lambda: {"f": (lambda req: {"errorType": "Boom", "errorMessage": "m"})}}
DATA = {"child": {"x": 1}, "chain": {"x": 1}, "wait": {"x": 1}, "par": {"x": 1}, "map": {"items": [{"i": 0}, {"i": 1}]}, "parnext": {"x": 1}, "retry": {"x": 1}, "catch": {"x": 1}}
# The volatile-join-results known finding applies only where a result cannot be recomputed from the
# redelivered (held) branch event: Task-produced results, completed MaxConcurrency batches, End:true joins
# (events acknowledged before the terminal record).  Pass-only branches joined by a state with Next recover.
JOIN_LOSS_POSSIBLE = {"child": False, "chain": False, "wait": False, "par": True, "map": True, "parnext": False, "retry": False, "catch": False}


def run_with_crash(name, mode, crash_at, picks, second=None, store="simple", exec_name="e1"):
    """mode 0: no crash; 1: kill between scheduling steps (before step crash_at);
    2: crash inside a handler after broker operation number crash_at."""
    asl, wq = SCN[name]
    sim.reset()
    dur = sim.Durable(store)
    arn = dur.add_machine(asl)
    for cname, casl in CHILDREN.get(name, []):
        dur.add_machine(casl, name=cname)
    inst = sim.Instance(dur)
    workers = WORKERS[name]() if name in WORKERS else {q: (lambda req: {"ok": req}) for q in wq}
    run = sim.Run(picks, workers, max_steps=200)
    run.instances = [inst]
    b = sim.BROKER
    crashes = [0]
    run.join_state_lost = False
    run.retry_delay_crash = False

    def restart():
        crashes[0] += 1
        # Known-finding region, decided from the engine's state at the instant of the crash:
        # a join (Parallel/Map) already holds a branch result.  Join results live only in
        # memory; a Task-produced result cannot be rebuilt from the redelivered (held) event
        # because a redelivered Task is deliberately not invoked again.
        eng = run.instances[0].eng
        for bm in eng.branch_metadata.values():
            for res in bm.results.values():
                for i, r in enumerate(res["results"]):
                    if r is not None:
                        run.join_state_lost = True
        # Second known-finding region: the engine dies while a retried Task is sitting out its retry delay - its
        # event (carrying RetryTimeout) is unacknowledged and its request has not been sent yet.  The redelivered
        # event is flagged redelivered, so the request is never sent at all.
        sent = set(o[3] for o in b.oplog if o[0] == "publish" and not str(o[1]).startswith("ev") and o[3])
        for tag_, (q_, m_, c_) in b.unacked.items():
            if str(q_).startswith("ev"):
                try:
                    doc = stubs.FastJson.loads(m_.body if isinstance(m_.body, str) else m_.body.decode("utf8"))
                    if "RetryTimeout" in doc["context"]["State"] and m_.message_id not in sent:
                        run.retry_delay_crash = True
                except Exception:
                    pass
        run.instances[0].kill()
        run.instances = [sim.Instance(dur)]

    if mode == 2:
        b.crash_at = crash_at
    try:
        inst.ed.publish(sim.start_event(copy.deepcopy(DATA[name]), arn, name=exec_name), use_shared_queue=True)
    except sim.Crash:
        restart()
        if second is not None and second > 0:
            b.crash_at = b.ops + second
    while run.steps < run.max_steps:
        if mode == 1 and crashes[0] == 0 and run.steps == crash_at:
            restart()
        try:
            if not run.step(None):
                break
        except sim.Crash:
            restart()
            if second is not None and second > 0 and crashes[0] == 1:
                b.crash_at = b.ops + second
    else:
        raise sim.BoundTooSmall("run exceeded %d steps" % run.max_steps)
    if not sim.terminals():
        # nothing left to schedule and still RUNNING: let the engine's own back-stop act
        # (EventDispatcher.heartbeat -> StateEngine.heartbeat every 60th beat ->
        # check_for_expired_branch_results) once the execution time-out has passed
        stubs.CLOCK.now += 600.0
        run.instances[0].eng.heartbeat(60)
        while run.steps < run.max_steps and run.step(None):
            pass
    terms = sim.terminals()
    if name in CHILDREN:
        # the verdict is about the parent execution (the child's outcome reaches it through the Task's result)
        terms = [t for t in terms if ":execution:m:" in t["executionArn"]]
    return run, terms, crashes[0]


def baseline(name):
    run, terms, _ = run_with_crash(name, 0, 0, [0] * 12)
    return (terms[0]["status"], terms[0].get("output")), len(run.requests), sim.BROKER.ops, run.steps


def verdict(name, mode, crash_at, picks, second=None, store="simple"):
    (bstatus, boutput), breq, bops, bsteps = BASE[name]
    run, terms, ncrash = run_with_crash(name, mode, crash_at, picks, second, store)
    tag = "[join-state-lost] " if (run.join_state_lost and JOIN_LOSS_POSSIBLE[name]) else ""
    for r in TOLERATED:
        if tag and r.search(tag):
            # recorded known finding: volatile join results whose events were already acknowledged
            return ""
    if run.retry_delay_crash:
        tag = "[retry-delay-crash] "
        if any(r.search(tag) for r in TOLERATED):
            # recorded known finding: tolerated symptom is exactly "fails with States.Timeout at the execution
            # time-out instead of the crash-free outcome"; the execution must still terminate and leave nothing unacked
            if not terms:
                return "C04 execution lost: no terminal notification after a crash during a retry delay (mode %d at %d)" % (mode, crash_at)
            if any((t["status"], t.get("error")) != ("FAILED", "States.Timeout") and (t["status"], t.get("output")) != (bstatus, boutput) for t in terms):
                return "C04 outcome after a crash during a retry delay: %s" % sorted(set((t["status"], t.get("error"), t.get("output")) for t in terms))
            if sim.BROKER.unacked:
                return "C04 deliveries left unacknowledged after recovery: %d" % len(sim.BROKER.unacked)
            return ""
    if not terms:
        return "C04 %sexecution lost: no terminal notification after crash (mode %d at %d)" % (tag, mode, crash_at)
    outs = set((t["status"], t.get("output")) for t in terms)
    if len(outs) != 1:
        return "C04 terminal notifications disagree: %s" % sorted(outs)
    if mode == 1 and ncrash:
        if (terms[0]["status"], terms[0].get("output")) != (bstatus, boutput):
            return "C04 " + tag + "outcome after a between-handlers crash %r differs from the crash-free outcome %r" % ((terms[0]["status"], terms[0].get("output")), (bstatus, boutput))
        per = {}
        for q, corr in run.requests:
            per[corr] = per.get(corr, 0) + 1
        if any(v > 1 for v in per.values()) or len(run.requests) > breq:
            return "C04 a task that had already been requested was requested again: %s" % run.requests
    inst = run.instances[0]
    if sim.BROKER.unacked:
        return "C04 " + tag + "deliveries left unacknowledged after recovery: %d" % len(sim.BROKER.unacked)
    return ""


from vf.api import tolerated_signatures
TOLERATED = tolerated_signatures("C04")
BASE = {}
for _n in SCN:
    BASE[_n] = baseline(_n)


def _mk(name, tiers):
    (_, _), _, bops, bsteps = BASE[name]

    @condition(timeout={"quick": 300, "thorough": 1200}, tiers=tiers, functions=scn.ENGINE_FUNCS + ["TaskDispatcher.handle_orphaned_responses", "notify(redelivered=True)"],
               bounds={"quick": {"OPS": bops + 1, "STEPS": bsteps + 1}, "thorough": {"OPS": bops + 1, "STEPS": bsteps + 1}})
    def between(k: int, c0: int, c1: int, c2: int, c3: int) -> str:
        """
        requires: 0 <= k <= @STEPS@
        ensures: _ == ""
        """
        return verdict(name, 1, k, [c0, c1, c2, c3, 0, 0, 0, 0, 0, 0, 0, 0])
    between.__name__ = between.__qualname__ = name + "_between_handlers"
    globals()[between.__name__] = between

    @condition(timeout={"quick": 300, "thorough": 1200}, tiers=tiers, functions=scn.ENGINE_FUNCS + ["TaskDispatcher.handle_orphaned_responses", "notify(redelivered=True)"],
               bounds={"quick": {"OPS": bops + 1, "STEPS": bsteps + 1}, "thorough": {"OPS": bops + 1, "STEPS": bsteps + 1}})
    def inside(k: int, c0: int, c1: int) -> str:
        """
        requires: 1 <= k <= @OPS@
        ensures: _ == ""
        """
        return verdict(name, 2, k, [c0, c1, 0, 0, 0, 0, 0, 0, 0, 0, 0, 0])
    inside.__name__ = inside.__qualname__ = name + "_inside_handler"
    globals()[inside.__name__] = inside

    @condition(timeout={"thorough": 2400}, tiers=("thorough",), functions=scn.ENGINE_FUNCS,
               bounds={"quick": {"OPS": bops + 1}, "thorough": {"OPS": bops + 1}})   # (quick: only for replaying a recorded witness)
    def twice(k: int, k2: int, c0: int) -> str:
        """
        requires: 1 <= k <= @OPS@ and 1 <= k2 <= 6
        ensures: _ == ""
        """
        return verdict(name, 2, k, [c0] + [0] * 29, second=k2)
    twice.__name__ = twice.__qualname__ = name + "_two_crashes"
    globals()[twice.__name__] = twice


def _mk_redis(name, tiers):
    """The same crash points with the execution records and history kept in the Redis-backed stores: they survive
    the crash (the restarted engine finds the record of the execution it is resuming)."""
    (_, _), _, bops, bsteps = BASE[name]

    @condition(timeout={"quick": 300, "thorough": 1200}, tiers=tiers, functions=scn.ENGINE_FUNCS + ["RedisDictStore / RedisListStore (records and history that survive the crash)"],
               bounds={"quick": {"OPS": bops + 1, "STEPS": bsteps + 1}, "thorough": {"OPS": bops + 1, "STEPS": bsteps + 1}})
    def between(k: int, c0: int, c1: int, c2: int, c3: int) -> str:
        """
        requires: 0 <= k <= @STEPS@
        ensures: _ == ""
        """
        return verdict(name, 1, k, [c0, c1, c2, c3, 0, 0, 0, 0, 0, 0, 0, 0], store="redis")
    between.__name__ = between.__qualname__ = name + "_redis_between_handlers"
    globals()[between.__name__] = between

    @condition(timeout={"quick": 300, "thorough": 1200}, tiers=tiers, functions=scn.ENGINE_FUNCS + ["RedisDictStore / RedisListStore (records and history that survive the crash)"],
               bounds={"quick": {"OPS": bops + 1, "STEPS": bsteps + 1}, "thorough": {"OPS": bops + 1, "STEPS": bsteps + 1}})
    def inside(k: int, c0: int, c1: int) -> str:
        """
        requires: 1 <= k <= @OPS@
        ensures: _ == ""
        """
        return verdict(name, 2, k, [c0, c1, 0, 0, 0, 0, 0, 0, 0, 0, 0, 0], store="redis")
    inside.__name__ = inside.__qualname__ = name + "_redis_inside_handler"
    globals()[inside.__name__] = inside


_mk("chain", ("quick", "thorough"))
_mk("wait", ("quick", "thorough"))
_mk("par", ("quick", "thorough"))
_mk("map", ("thorough",))
_mk("parnext", ("quick", "thorough"))
_mk("retry", ("quick", "thorough"))
_mk("catch", ("quick", "thorough"))
_mk_redis("chain", ("quick", "thorough"))
_mk_redis("retry", ("quick", "thorough"))
_mk_redis("parnext", ("thorough",))
_mk("child", ("quick", "thorough"))
_mk_redis("child", ("quick", "thorough"))


# ---------------------------------------------------------------------------
# The redelivered flag over the REAL transports (fake pika underneath): the whole-run conditions above use the
# simulated messaging module, whose Message carries `redelivered` by construction; this condition closes the chain
# Basic.Deliver.redelivered -> Consumer.message_listener -> Message.redelivered -> EventDispatcher.dispatch ->
# StateEngine.notify(redelivered) -> TaskDispatcher.execute_task(redelivered) -> no second request.
# ---------------------------------------------------------------------------
import vh_c19 as c19
from vf import fake_pika


def _kill_connections(b):
    for conn in list(b.connections):
        core = getattr(conn, "_core", conn)
        for ch in list(getattr(core, "channels", {}).values()) if isinstance(getattr(core, "channels", None), dict) else list(getattr(core, "channels", [])):
            chc = getattr(ch, "_core", ch)
            if hasattr(chc, "shutdown"):
                chc.shutdown(None)


@condition(timeout={"quick": 120, "thorough": 300},
           functions=["amqp_0_9_1_messaging / amqp_0_9_1_messaging_asyncio: Consumer.message_listener (redelivered)", "EventDispatcher.start/start_asyncio/dispatch/publish",
                      "TaskDispatcher.start/execute_task>asl_service_rpcmessage (redelivered: the request is not sent again)"],
           outside=["StateEngine.notify itself is replaced by a recorder that forwards the flag it was given (its handling of redelivered events is the subject of the whole-run conditions)"])
def redelivered_flag_real_transport(aio_mod: bool, quorum: bool, restart: bool) -> bool:
    """
    requires: True
    ensures: _
    """
    aio_mod = stubs.cbool(aio_mod); quorum = stubs.cbool(quorum); restart = stubs.cbool(restart)
    b = fake_pika.new_broker()
    stubs.SeqUUID.reset()
    wc = fake_pika.BlockingConnection().channel()
    wc.queue_declare("f")                     # the function's queue; nobody consumes it, so requests pile up and can be counted
    out = {"flags": []}
    event = {"data": {"x": 1}, "context": {"StateMachine": {"Id": c19.SM_ARN}}}

    def script_for(first):
        def script(b_, se, t, e):
            if first:
                e.publish(event, use_shared_queue=True)
            b_.pump()
            for (item, id_, red) in se.notified:
                out["flags"].append(red)
                t.execute_task("arn:aws:rpcmessage:local::function:f", {"x": 1}, lambda r: None, 5000, True, c19.task_context(), "ev1", red)
        return script

    def run_engine(first):
        se, t, e = c19.make_dispatchers(quorum, "i1", aio_mod)
        if aio_mod:
            st = fake_pika.run(e.start_asyncio())
            if st[0] != "blocked":
                raise RuntimeError("start_asyncio returned")
            script_for(first)(b, se, t, e)
            b.pump()
            try:
                _kill_connections(b)          # the process dies: the broker requeues its unacknowledged deliveries
            except c19.EngineExit:
                pass                          # the engine's own on_close callback ends the process, as it should
        else:
            b.on_start_consuming = lambda ch: script_for(first)(b, se, t, e)
            e.start()                         # returns after closing the connection: same effect at the broker
    run_engine(True)
    if restart:
        run_engine(False)
    q = b.queue("f")
    n = len(q.messages) if q is not None else -1
    want = [False, True] if restart else [False]
    return out["flags"] == want and n == 1



# ---------------------------------------------------------------------------
# A start event put on the queue WITHOUT an execution name: the engine invents the name (a uuid) when it handles the
# event.  If it dies after announcing the execution RUNNING and before acknowledging the start event, the redelivered
# start event is given ANOTHER name: the announced execution never reaches a terminal status.
# ---------------------------------------------------------------------------
@condition(timeout={"quick": 120, "thorough": 300}, functions=["StateEngine.start_execution (Execution.Name generated on handling)", "notify (redelivered start event)"],
           bounds={"quick": {"OPS": BASE["chain"][2] + 1}, "thorough": {"OPS": BASE["chain"][2] + 1}})
def unnamed_start_inside_handler(k: int, c0: int, c1: int) -> str:
    """
    requires: 1 <= k <= @OPS@
    ensures: _ == ""
    """
    run, terms, ncrash = run_with_crash("chain", 2, k, [c0, c1] + [0] * 10, exec_name=None)
    started = [d["executionArn"] for d in sim.notifications() if d["status"] == "RUNNING"]
    ended = [d["executionArn"] for d in terms]
    lost = [a for a in started if a not in ended]
    if lost:
        return "C04 execution %s was announced RUNNING and never reached a terminal status after the crash (mode 2 at %d): the redelivered start event started %s instead" % (lost[0], k, [a for a in started if a != lost[0]])
    if not terms:
        return "C04 execution lost: no terminal notification"
    return ""
