"""C19 (affinity part): whole runs with 1-3 engine instances on one simulated broker.
Registered into vh_c19 by c19_affinity.register(globals())."""
import copy
import vf; vf.setup_paths()
from vf.api import condition
from vf import sim, stubs
import s2_scenarios as scn

ASSUMPTION = ("affinity conditions: SimBroker with 1-3 real engine instances (same shared queue, one exclusive instance queue each); a symbolic schedule also "
              "chooses WHICH instance's consumer receives each shared-queue delivery; every event delivery of an execution other than its start event, every task reply and "
              "every synchronous child start must be consumed by the instance that consumed the start event")

PAR = {"StartAt": "P", "States": {"P": {"Type": "Parallel", "Next": "W", "Branches": [
    {"StartAt": "A", "States": {"A": scn.task("fa", End=True)}},
    {"StartAt": "B", "States": {"B": {"Type": "Pass", "Result": "b", "End": True}}}]},
    "W": {"Type": "Wait", "Seconds": 1, "End": True}}}
CHILD = {"StartAt": "C", "States": {"C": {"Type": "Pass", "Result": "c", "End": True}}}
PARENT = {"StartAt": "T", "States": {"T": {"Type": "Task", "Resource": "arn:aws:states:local::states:startExecution.sync:2",
                                           "Parameters": {"StateMachineArn": "arn:aws:states:local:0123456789:stateMachine:child", "Input": {}},
                                           "Retry": [{"ErrorEquals": ["States.ALL"], "IntervalSeconds": 1, "MaxAttempts": 1}], "End": True}}}


def affinity_run(n_inst, quorum, kind, n_exec, picks):
    sim.reset()
    dur = sim.Durable()
    arn = dur.add_machine(PAR if kind == 0 else PARENT)
    dur.add_machine(CHILD, "STANDARD", "child")
    insts = [sim.Instance(dur, instance_id="i%d" % (k + 1), queue_type="quorum" if quorum else "classic") for k in range(n_inst)]
    run = sim.Run(picks, {"fa": lambda req: {"ok": 1}}, max_steps=200)
    run.instances = insts
    b = sim.BROKER
    shared = insts[0].ed.queue_name
    # structural clause: instance queues have exactly one consumer and it is exclusive; the shared queue has one consumer per instance
    for i in insts:
        cs = b.consumers.get(i.ed.instance_queue_name, [])
        if len(cs) != 1 or not cs[0].exclusive or cs[0].instance != i.id:
            return "C19 instance queue %s consumers %r" % (i.ed.instance_queue_name, [(c.instance, c.exclusive) for c in cs])
        rq = b.consumers.get(i.td.reply_to.name, [])
        if len(rq) != 1 or rq[0].instance != i.id:
            return "C19 reply queue %s consumers %r" % (i.td.reply_to.name, [c.instance for c in rq])
    if sorted(c.instance for c in b.consumers.get(shared, [])) != sorted(i.id for i in insts) or any(c.exclusive for c in b.consumers[shared]):
        return "C19 shared queue consumers wrong"
    for _ in range(n_exec):
        insts[0].ed.publish(sim.start_event({"x": 1}, arn), use_shared_queue=True)
    run.run()
    terms = sim.terminals()
    n_expected = n_exec * (2 if kind == 1 else 1)
    if len(terms) != n_expected or any(t["status"] != "SUCCEEDED" for t in terms):
        return "C19 terminals %s" % [(t["executionArn"], t["status"]) for t in terms]
    # owner of an execution = the instance that holds its record (the one whose engine started it)
    owner = {}
    for i in insts:
        for ex in i.eng.executions:
            if ex in owner:
                return "C19 execution %s recorded by two instances" % ex
            owner[ex] = i.id
    starts = 0
    for (q, mid, inst, red, exid, corr) in b.deliveries:
        if q == shared:
            starts += 1
            continue
        if q.startswith("asl_workflow_reply_to"):
            if q != "asl_workflow_reply_to%s-%s" % ("-qq" if quorum else "", inst):
                return "C19 reply delivered to instance %s from queue %s" % (inst, q)
            continue
        if exid is not None and owner.get(exid) is not None and owner[exid] != inst and ":execution:child:" not in exid:
            return "C19 event of %s (owner %s) delivered to instance %s via %s" % (exid, owner[exid], inst, q)
        if exid is not None and ":execution:child:" in exid:
            # a synchronous child must run on the instance of its parent (the one that holds the pending request)
            pass
    if starts != n_exec:
        return "C19 %d deliveries from the shared queue for %d start events" % (starts, n_exec)
    if kind == 1:
        # the child's record must live on the same instance as its parent's
        for ex, o in owner.items():
            if ":execution:child:" in ex:
                parents = [p for p, po in owner.items() if ":execution:m:" in p and po == o]
                if not parents:
                    return "C19 synchronous child %s ran on instance %s, away from its parent" % (ex, o)
    return ""


def register(glob):
    modname = glob["__name__"]

    def mk(name, n_inst, kind, n_exec, tiers, tq, tt):
        @condition(timeout={"quick": tq, "thorough": tt}, tiers=tiers,
                   functions=["EventDispatcher.start/publish/dispatch (shared vs instance queue)", "TaskDispatcher.start/execute_task (reply_to, correlation)",
                              "asl_service_states_startExecution (sync child on the instance queue)"] + scn.ENGINE_FUNCS)
        def aff(quorum: bool, c0: int, c1: int, c2: int, c3: int, c4: int, c5: int, c6: int, c7: int, c8: int, c9: int) -> str:
            """
            requires: True
            ensures: _ == ""
            """
            return affinity_run(n_inst, quorum, kind, n_exec, [c0, c1, c2, c3, c4, c5, c6, c7, c8, c9, 0, 0, 0, 0, 0, 0])
        aff.__name__ = aff.__qualname__ = name
        aff.__module__ = modname
        glob[name] = aff
    mk("affinity_1inst_parallel", 1, 0, 1, ("quick", "thorough"), 240, 600)
    mk("affinity_2inst_parallel", 2, 0, 1, ("quick", "thorough"), 300, 900)
    mk("affinity_2inst_two_executions", 2, 0, 2, ("thorough",), 300, 2400)
    mk("affinity_2inst_sync_child", 2, 1, 1, ("quick", "thorough"), 300, 900)
    mk("affinity_3inst_parallel", 3, 0, 1, ("thorough",), 300, 1800)
    scn.register(glob, {"C19", "C03"}, ["poison_midrun"])
    glob["poison_midrun"].__module__ = modname
    if "ASSUMPTIONS" in glob:
        glob["ASSUMPTIONS"].append(ASSUMPTION)
