"""C15 - child executions and task-token callbacks complete exactly their launching task."""
import copy, types, base64 as _b64
import vf; vf.setup_paths()
from vf.api import condition
from vf import stubs, sim, s2
from vf.stubs import pick
import s2_scenarios as scn
import vh_c10 as api
from asl_workflow_engine import task_dispatcher as td, state_engine_paths as sep

PROPERTY = "C15"
ASSUMPTIONS = [
    "token kernel: tokens are minted by the real apply_path('$$.Task.Token') from the context the real Task handler builds and presented to the real SendTaskSuccess/SendTaskFailure handlers of both front ends (driver of vh_c10: fake request/jsonify, recording producer); event ids over [0-9a-f-], instance ids over [a-z0-9._-] (an instance id containing ':' is outside the claim)",
    "dispatcher kernels: a real TaskDispatcher object (constructed without a broker) with a recording StateEngine stand-in; json codec native",
    "whole runs: SimBroker, real engine, the REST handlers' Message class is the simulated Message and their producer is the instance's real TaskDispatcher producer, so a callback travels through the reply queue like in production",
    "SendTaskSuccess/SendTaskFailure exist only in the asyncio front end (the blocking one answers InvalidAction), so the callback conditions use that front end",
    "clock/uuid/logger stubs",
]
CT = api.CT
SM = stubs.SM_ARN


# ---------------------------------------------------------------------------
# (1) token kernel
# ---------------------------------------------------------------------------
def _mint(eid, inst):
    ctx = {"Task": {"Token": "%s.waitForTaskToken:%s" % (eid, "asl_workflow_reply_to-" + inst)}}
    return sep.apply_path({}, ctx, "$$.Task.Token")


def _sent(fe):
    return [l for l in fe.producer.log if l[0] == "send"]


def _call(fe, action, **members):
    return fe.call("AWSStepFunctions." + action, CT, stubs.FastJson.dumps(members).encode("utf8"))


def _sim_front_end():
    """An asyncio front end whose handlers build *simulated* Messages (create_app captures the
    Message class), so a callback sent through it travels over the SimBroker reply queue."""
    import asl_workflow_engine.event_dispatcher as edm
    saved = getattr(edm, "Message", None)
    edm.Message = sim.Message
    try:
        return api.FrontEnd(api.ra, True)
    finally:
        if saved is not None:
            edm.Message = saved


FE_SIM = _sim_front_end()


def _typ(resp):
    v, code = resp
    return (code, v.get("__type") if isinstance(v, dict) else v)


@condition(timeout={"quick": 240, "thorough": 900}, bounds={"quick": {"N": 1}, "thorough": {"N": 2}},
           functions=["apply_path($$.Task.Token)", "rest_api_asyncio/rest_api: aws_api_SendTaskSuccess, aws_api_SendTaskFailure (token parsing)"])
def token_roundtrip(eid: str, inst: str, f: int, fail: bool) -> bool:
    """
    requires: 1 <= len(eid) <= @N@ and 1 <= len(inst) <= @N@ and f == 0
    requires: all(c in "0a-" for c in eid) and all(c in "a0._-" for c in inst)
    ensures: _
    """
    eid = api.concrete("".join([c for c in eid])); inst = api.concrete("".join([c for c in inst]))
    fe = api.FE[f]
    fe.reset(True)
    tok = _mint(eid, inst)
    if fail:
        r = _call(fe, "SendTaskFailure", taskToken=tok, error="E1", cause="why")
    else:
        r = _call(fe, "SendTaskSuccess", taskToken=tok, output='{"ok": 1}')
    s = _sent(fe)
    if r[1] != 200 or len(s) != 1:
        return False
    m = s[0][1][0]
    kw = m.kwargs
    if kw.get("subject") != "asl_workflow_reply_to-" + inst or kw.get("correlation_id") != eid + ".waitForTaskToken":
        return False
    if fail:
        import json
        return kw.get("properties") == {"x-SendTaskFailure": True} and json.loads(m.args[0]) == {"errorType": "E1", "errorMessage": "why"}
    return kw.get("properties") == {"x-SendTaskSuccess": True} and m.args[0] == '{"ok": 1}'


GOOD = _b64.b64encode(b"0a.waitForTaskToken:asl_workflow_reply_to-i1").decode()
FORGED = ["", "x", "AAAA", GOOD[:-1], GOOD[:-4], GOOD[4:], GOOD[:-2] + "==", GOOD.lower(),
          _b64.b64encode(b"0a:asl_workflow_reply_to-i1").decode(),                       # no suffix
          _b64.b64encode(b"0a.waitForTaskToken").decode(),                              # no reply queue
          _b64.b64encode(b"0a.waitForTaskToken:q:extra").decode(),                      # three parts
          _b64.b64encode(b"\xff\xfe").decode(), "%%%%", "=" + GOOD]


@condition(timeout={"quick": 120, "thorough": 300}, functions=["aws_api_SendTaskSuccess / aws_api_SendTaskFailure (rejection of forged, truncated and malformed tokens)"])
def forged_tokens(i: int, f: int, fail: bool) -> bool:
    """
    requires: 0 <= i < 14 and f == 0
    ensures: _
    """
    fe = api.FE[f]
    fe.reset(True)
    tok = pick(FORGED, i)
    if fail:
        r = _call(fe, "SendTaskFailure", taskToken=tok, error="E1", cause="why")
    else:
        r = _call(fe, "SendTaskSuccess", taskToken=tok, output='{"ok": 1}')
    if _sent(fe):
        return False
    want = (400, "MissingRequiredParameter") if tok == "" else (400, "InvalidToken")
    return _typ(r) == want


@condition(timeout={"quick": 120, "thorough": 300}, functions=["aws_api_SendTaskSuccess / aws_api_SendTaskFailure (missing and invalid members are answered 400, never 500)"])
def callback_arguments(f: int, fail: bool, has_tok: bool, m1: int, m2: int) -> bool:
    """
    requires: f == 0 and 0 <= m1 < 4 and 0 <= m2 < 3
    ensures: _
    """
    fe = api.FE[f]
    fe.reset(True)
    members = {}
    if has_tok:
        members["taskToken"] = GOOD
    if fail:
        e = pick(["E1", None, "x" * 257, ""], m1)
        c = pick(["why", None, ""], m2)
        if e is not None: members["error"] = e
        if c is not None: members["cause"] = c
        r = _call(fe, "SendTaskFailure", **members)
        ok_args = has_tok and (e is None or len(e) <= 256)
    else:
        o = pick(['{"ok": 1}', None, "{not json", ""], m1)
        if o is not None: members["output"] = o
        r = _call(fe, "SendTaskSuccess", **members)
        ok_args = has_tok and o == '{"ok": 1}'
    code = r[1]
    if code >= 500:
        return False
    if ok_args:
        return code == 200 and len(_sent(fe)) == 1
    return code == 400 and not _sent(fe)


# ---------------------------------------------------------------------------
# (2) dispatcher kernels
# ---------------------------------------------------------------------------
class _Msg:
    def __init__(self, body, corr, props=None):
        self.body = body; self.correlation_id = corr; self.properties = props or {}; self.acked = 0

    def acknowledge(self, multiple=True, threadsafe=False):
        self.acked += 1


def _dispatcher(log):
    stubs.install_env(td)
    d = td.TaskDispatcher.__new__(td.TaskDispatcher)
    d.logger = stubs.SILENT
    d.pending_requests = {}; d.cancellers = {}; d.orphaned_responses = {}; d.task_metrics = {}
    d.orphaned_response_retention_ms = 0; d.startup_time = 0.0; d.peer_address = "amqp://h:1"
    d.handle_orphaned_responses_is_scheduled = False
    d.queue_type = "classic"
    asl_store = stubs.make_engine({"StartAt": "A", "States": {"A": {"Type": "Succeed"}}})[0].asl_store
    d.state_engine = types.SimpleNamespace(event_dispatcher=stubs.RecDispatcher(log), branch_metadata={}, asl_store=asl_store, executions={},
                                           update_execution_history=lambda *a, **k: log.append(("history", a[2], a[3])))
    d.reply_to = types.SimpleNamespace(name="asl_workflow_reply_to-i1")
    d.producer = types.SimpleNamespace(send=lambda m, threadsafe=False: log.append(("send", m)))
    return d


def _pending(d, corr, resource, results):
    import opentracing
    d.pending_requests[corr] = ({}, stubs.EX_ARN, resource, results.append, None, 0, 7, opentracing.tracer.start_span("x"))


@condition(timeout={"quick": 120, "thorough": 300}, functions=["TaskDispatcher.handle_rpcmessage_response (callback vs ordinary reply disambiguation)"])
def callback_disambiguation(suffix: int, hdr: int, is_err: bool, pending: bool, twice: bool) -> bool:
    """
    requires: 0 <= suffix < 3 and 0 <= hdr < 3
    ensures: _
    """
    import json
    log = []; results = []
    d = _dispatcher(log)
    corr = "ev1" + pick(["", ".invoke", ".waitForTaskToken"], suffix)
    res = "arn:aws:rpcmessage:local::function:f" if suffix == 0 else "arn:aws:states:local::rpcmessage:invoke" + ("" if suffix == 1 else ".waitForTaskToken")
    if pending:
        _pending(d, corr, res, results)
    props = pick([{}, {"x-SendTaskSuccess": True}, {"x-SendTaskFailure": True}], hdr)
    body = {"errorType": "E1", "errorMessage": "m"} if is_err else {"v": 1}
    m = _Msg(json.dumps(body).encode(), corr, dict(props))
    d.handle_rpcmessage_response(m)
    m2 = None
    if twice:
        m2 = _Msg(json.dumps(body).encode(), corr, dict(props))
        d.handle_rpcmessage_response(m2)
    is_cb = suffix == 2 and hdr != 0
    ignored = suffix == 2 and hdr == 0 and not is_err      # ordinary non-error reply to a waitForTaskToken request
    if m.acked != 1 or (m2 is not None and m2.acked != 1):
        return False
    if ignored:
        return results == [] and (corr in d.pending_requests) == pending
    if not pending:
        return results == []
    if len(results) != 1 or corr in d.pending_requests:      # completes exactly once, also when presented twice
        return False
    r = results[0]
    if is_err:
        return r == body
    if suffix == 1:
        return r.get("Payload") == body and r.get("StatusCode") == 200
    return r == body


@condition(timeout={"quick": 120, "thorough": 300}, functions=["TaskDispatcher.handle_sfn_response (result shaping for .sync / .sync:2 / startSyncExecution)"])
def child_result_shape(form: int, failed: bool, pending: bool) -> bool:
    """
    requires: 0 <= form < 3
    ensures: _
    """
    import json
    log = []; results = []
    d = _dispatcher(log)
    child = "arn:aws:states:local:0123456789:execution:c:e9"
    res = pick(["arn:aws:states:local::states:startExecution.sync", "arn:aws:states:local::states:startExecution.sync:2",
                "arn:aws:states:local::aws-sdk:sfn:startSyncExecution"], form)
    if pending:
        _pending(d, child, res, results)
    detail = {"executionArn": child, "input": '{"i": 1}', "name": "e9", "output": None if failed else '{"o": 2}', "startDate": 1.0,
              "stateMachineArn": "arn:aws:states:local:0123456789:stateMachine:c", "status": "FAILED" if failed else "SUCCEEDED", "stopDate": 2.0}
    out = {"Error": "Boom", "Cause": "why"} if failed else {"o": 2}
    if failed:
        detail["error"] = "Boom"; detail["cause"] = "why"
    before = copy.deepcopy(detail)
    d.handle_sfn_response(child, {"i": 1}, out, detail)
    if detail != before:
        return False
    if not pending:
        return results == []
    if len(results) != 1 or child in d.pending_requests:
        return False
    r = results[0]
    if ("clear_timeout", 7) not in log:
        return False
    if failed:
        return r.get("Error") == "Boom" and r.get("Cause") == "why" and r.get("Status") == "FAILED"
    want_out = {"o": 2} if form == 1 else '{"o": 2}'
    want_in = {"i": 1} if form == 1 else '{"i": 1}'
    # the documented names (Step Functions "Run a job" result / DescribeExecution in PascalCase)
    documented = {"executionArn": "ExecutionArn", "input": "Input", "name": "Name", "output": "Output", "startDate": "StartDate",
                  "stateMachineArn": "StateMachineArn", "status": "Status", "stopDate": "StopDate", "error": "Error", "cause": "Cause"}
    if set(r) != set(documented[k] for k in detail):
        return False
    return (r.get("Output") == want_out and r.get("Input") == want_in and r.get("Status") == "SUCCEEDED" and r.get("ExecutionArn") == child
            and r.get("StateMachineArn") == detail["stateMachineArn"] and r.get("Name") == detail["name"]
            and r.get("StartDate") == detail["startDate"] and r.get("StopDate") == detail["stopDate"])


FORMS = ["startExecution", "startExecution.sync", "startExecution.sync:2", "startExecution.waitForTaskToken", "sfn:startSyncExecution"]


@condition(timeout={"quick": 240, "thorough": 600}, functions=["TaskDispatcher.execute_task > asl_service_states > asl_service_states_startExecution (validation, routing, correlation)"])
def child_launch(form: int, parent_express: bool, child_kind: int, has_arn: bool, redelivered: bool) -> bool:
    """
    requires: 0 <= form < 5 and 0 <= child_kind < 3
    ensures: _
    """
    log = []; results = []
    d = _dispatcher(log)
    store = d.state_engine.asl_store
    parent = dict(store[SM]); parent["type"] = "EXPRESS" if parent_express else "STANDARD"
    store[SM] = parent
    carn = "arn:aws:states:local:0123456789:stateMachine:c"
    if child_kind > 0:
        c = dict(parent); c["stateMachineArn"] = carn; c["name"] = "c"; c["type"] = "EXPRESS" if child_kind == 2 else "STANDARD"
        store[carn] = c
    f = pick(FORMS, form)
    res = ("arn:aws:states:local::aws-sdk:" if form == 4 else "arn:aws:states:local::states:") + f
    params = {"Input": {"i": 1}}
    if has_arn:
        params["StateMachineArn"] = carn
    ctx = {"StateMachine": {"Id": SM}, "Execution": {"Id": stubs.EX_ARN}, "State": {"Name": "T"}, "Tracer": {}}
    import asl_workflow_engine.event_dispatcher as edm
    edm.Message = sim.Message
    d.execute_task(res, params, results.append, 5000, True, ctx, "ev1", redelivered)
    pubs = [l for l in log if l[0] == "publish"]
    invalid = (not has_arn or child_kind == 0 or (form in (1, 2) and parent_express) or (form == 4 and child_kind != 2))
    if invalid:
        return (not pubs and len(results) == 1 and isinstance(results[0], dict) and bool(results[0].get("errorType"))
                and not d.pending_requests and not d.cancellers)
    child_ex = "arn:aws:states:local:0123456789:execution:c:ev1"
    if redelivered:
        if pubs:
            return False
    else:
        if len(pubs) != 1:
            return False
        ev, shared = pubs[0][1], pubs[0][2]
        if shared != (form == 0) or ev["context"]["Execution"]["Id"] != child_ex or ev["context"]["StateMachine"]["Id"] != carn or ev["data"] != {"i": 1}:
            return False
    if form == 0:
        return len(results) == 1 and results[0].get("executionArn") == child_ex and not d.pending_requests
    corr = "ev1.waitForTaskToken" if form == 3 else child_ex
    return results == [] and list(d.pending_requests) == [corr] and d.cancellers.get("ev1", {}).get("TaskID") == corr


# ---------------------------------------------------------------------------
# (3) whole runs
# ---------------------------------------------------------------------------
def _parent(form, tto=None, in_parallel=False):
    res = ("arn:aws:states:local::aws-sdk:" if form == 4 else "arn:aws:states:local::states:") + FORMS[form]
    t = {"Type": "Task", "Resource": res, "Parameters": {"StateMachineArn": "arn:aws:states:local:0123456789:stateMachine:child", "Input": {"i.$": "$.x"}},
         "ResultPath": "$.child", "End": True}
    if tto:
        t["TimeoutSeconds"] = tto
    if not in_parallel:
        return {"StartAt": "T", "States": {"T": t}}
    t2 = dict(t); t2.pop("ResultPath")
    return {"StartAt": "P", "States": {"P": {"Type": "Parallel", "End": True, "Branches": [
        {"StartAt": "T", "States": {"T": t2}},
        {"StartAt": "B", "States": {"B": {"Type": "Pass", "Result": "b", "End": True}}}]}}}


CHILD = {"StartAt": "C1", "States": {"C1": {"Type": "Pass", "Result": 1, "ResultPath": "$.c1", "Next": "C2"},
                                     "C2": scn.task("fc", ResultPath="$.c2", End=True)}}
CHILD_WAIT = {"StartAt": "CW", "States": {"CW": {"Type": "Wait", "Seconds": 30, "Next": "C2"}, "C2": scn.task("fc", End=True)}}


def child_sync(which, form: int, cfail: bool, slow: bool, par: bool, c0: int, c1: int, c2: int, c3: int, c4: int, c5: int):
    """Parent Task (.sync / .sync:2 / startSyncExecution / fire-and-forget) launching a child machine that
    succeeds, fails, or outlives the parent's 5 s TimeoutSeconds (child waits 30 s)."""
    ctype = "EXPRESS" if form == 4 else "STANDARD"
    asl = _parent(form, 5 if slow else None, par)
    casl = CHILD_WAIT if slow else CHILD
    workers = {"fc": scn.worker(cfail, "Boom", "fc")}

    def chk(run, inst, mon):
        per = mon.per_exec()
        parents = [a for a in per if ":execution:m:" in a]
        kids = [a for a in per if ":execution:child:" in a]
        if len(parents) != 1 or len(kids) != 1:
            return "C15 executions: parents=%s children=%s" % (parents, kids)
        p = s2.result_of(parents[0]); k = s2.result_of(kids[0])
        # order: the parent's terminal notification must come after the child's for the synchronous forms
        idx = {a: max(i for i, (s, m) in enumerate(sim.BROKER.topic) if m["detail"]["executionArn"] == a) for a in (parents[0], kids[0])}
        if form == 0:
            want_child = {"executionArn": kids[0]}
            got = p[1][0] if par and p[0] == "SUCCEEDED" else (p[1].get("child") if p[0] == "SUCCEEDED" else None)
            if p[0] != "SUCCEEDED" or not isinstance(got, dict) or got.get("executionArn") != kids[0] or "startDate" not in got:
                return "C15 startExecution should return at once with the child's ARN: %r" % (p,)
            return ""
        if slow:
            if p != ("FAILED", "States.Timeout"):
                return "C15 parent outcome %r, expected States.Timeout" % (p,)
            if inst.td.pending_requests or inst.td.cancellers or [t for t in sim.BROKER.timers if not inst.is_heartbeat(t)]:
                return "C15 child's pending work not cancelled after the parent timed out"
            # the Wait the child was blocked on is cancelled at that moment: the child must not carry on and finish later
            stop = {a: [m["detail"].get("stopDate") for s_, m in sim.BROKER.topic if m["detail"]["executionArn"] == a and m["detail"]["status"] != "RUNNING"] for a in (parents[0], kids[0])}
            if k[0] == "SUCCEEDED" or not stop[kids[0]] or stop[kids[0]][0] > stop[parents[0]][0]:
                return "C15 the child went on after its parent Task had timed out: child %r stopped at %s, parent at %s" % (k, stop[kids[0]], stop[parents[0]])
            return ""
        # (the child's terminal notification is broadcast right after the parent has been resumed from
        #  inside the child's end_execution, so notification order is not a usable "child is terminal" signal;
        #  the parent's result must carry the child's terminal status instead)
        if cfail:
            if p != ("FAILED", "States.TaskFailed") or k != ("FAILED", "Boom"):
                return "C15 failed child: parent %r child %r" % (p, k)
            return ""
        if p[0] != "SUCCEEDED" or k[0] != "SUCCEEDED":
            return "C15 outcomes parent %r child %r" % (p, k)
        got = p[1][0] if par else p[1].get("child")
        want_out = k[1] if form == 2 else sim.json.dumps(k[1])
        if not isinstance(got, dict) or got.get("Output") != want_out or got.get("Status") != "SUCCEEDED":
            return "C15 child result %r, expected Output %r" % (got, want_out)
        return ""
    horizon = None
    return s2.run_scenario(asl, {"x": 7}, [c0, c1, c2, c3, c4, c5], workers, which, "STANDARD", None,
                           children=[("child", casl, ctype)], extra_check=chk, max_steps=150,
                           canonical=True)


TOKEN_PATHS = ["$$.Task.Token", "$$.Task['Token']", "$$['Task']['Token']", "$$.Task", "$$['Task'].Token"]


def _cb_scenario(which, stream: int, c0: int, c1: int, c2: int, c3: int, tokform: int = 0):
    """A .waitForTaskToken task: the worker receives the token and (per `stream`) the harness presents
    0: the valid token once, 1: twice, 2: a forged token then the valid one, 3: ordinary reply first then the valid
    token, 4: the valid token as SendTaskFailure, 5: only a forged token (task must stay pending until it times out),
    6: two callback Tasks in sequence, each answered with the token it received, 7: a retried callback Task,
    8: SendTaskSuccess whose output object happens to have a member named errorType ("exactly the supplied output")."""
    t = {"Type": "Task", "Resource": "arn:aws:states:local::rpcmessage:invoke.waitForTaskToken", "TimeoutSeconds": 20,
         "Parameters": {"FunctionName": "arn:aws:rpcmessage:local::function:fw", "Payload": {"token.$": TOKEN_PATHS[tokform]}},
         "ResultPath": "$.cb", "End": True}
    asl = {"StartAt": "T", "States": {"T": t}}
    if stream == 6:
        # two callback Tasks one after the other: each must be completed by the token IT received
        t2 = dict(t); t2["ResultPath"] = "$.cb2"
        t1 = dict(t); t1.pop("End"); t1["Next"] = "T2"
        asl = {"StartAt": "T", "States": {"T": t1, "T2": t2}}
    elif stream == 7:
        # a callback Task with a Retrier: the first attempt is failed through SendTaskFailure, the retried attempt
        # (a new event, a new token) is completed through SendTaskSuccess
        t1 = dict(t); t1["Retry"] = [{"ErrorEquals": ["E1"], "IntervalSeconds": 1, "MaxAttempts": 1, "BackoffRate": 1.0}]
        asl = {"StartAt": "T", "States": {"T": t1}}
    state = {"tok": None, "sent": 0, "toks": []}
    fe = api.FE[0]

    def w(req):
        tk = req["token"]
        if isinstance(tk, dict):      # the whole $$.Task object was selected
            tk = tk.get("Token")
        state["tok"] = tk
        state["toks"].append(tk)
        return {"received": True} if stream == 3 else None

    def pre(run, inst):
        state["inst"] = inst

    def on_step(run):
        pass
    sim_msg_patch = {}

    def chk(run, inst, mon):
        p = s2.result_of()
        if stream == 5:
            return "" if p == ("FAILED", "States.Timeout") else "C15 forged token only: outcome %r" % (p,)
        if stream == 4:
            return "" if p == ("FAILED", "E1") else "C15 SendTaskFailure: outcome %r" % (p,)
        if stream == 8:
            return "" if p[0] == "SUCCEEDED" and p[1].get("cb") == {"errorType": "E9", "out": 1} else \
                "C15 SendTaskSuccess with the output {\"errorType\": \"E9\", \"out\": 1} completed the task with %r" % (p,)
        if p[0] != "SUCCEEDED" or p[1].get("cb") != {"out": 1}:
            return "C15 callback outcome %r" % (p,)
        if stream == 6 and p[1].get("cb2") != {"out": 1}:
            return "C15 second callback Task outcome %r" % (p,)
        if stream in (6, 7) and (len(state["toks"]) != 2 or state["toks"][0] == state["toks"][1]):
            return "C15 the two callback Tasks received the tokens %r (each Task must get its own)" % (state["toks"],)
        return ""

    # the callbacks are injected when the worker has seen the request: drive manually
    sim.reset()
    dur = sim.Durable(); arn = dur.add_machine(asl)
    inst = sim.Instance(dur); inst.alive = True
    mon = s2.Monitors(inst, which, {arn: "STANDARD"})
    run = sim.Run([c0, c1, c2, c3], {"fw": w}, max_steps=120, on_step=lambda r: mon.after_step(r))
    run.instances = [inst]
    fe2 = FE_SIM
    fe2.reset(True)
    fe2.engine.task_dispatcher.producer = inst.td.producer
    stubs.CLOCK.now = 1_700_000_000.0
    inst.ed.publish(sim.start_event({"x": 1}, arn), use_shared_queue=True)
    injected = 0
    while run.steps < run.max_steps:
        if len(state["toks"]) > injected:
            injected += 1
            tok = state["tok"]
            forged = _b64.b64encode(b"zz.waitForTaskToken:asl_workflow_reply_to-i1").decode()
            seq = {0: [tok], 1: [tok, tok], 2: [forged, tok], 3: [tok], 4: ["F" + tok], 5: [forged], 6: [tok], 8: [tok],
                   7: ["F" + tok] if injected == 1 else [tok]}[stream]
            for tk in seq:
                if tk.startswith("F") and stream in (4, 7):
                    r = _call(fe2, "SendTaskFailure", taskToken=tk[1:], error="E1", cause="why")
                else:
                    r = _call(fe2, "SendTaskSuccess", taskToken=tk, output='{"errorType": "E9", "out": 1}' if stream == 8 else '{"out": 1}')
                if r[1] != 200:
                    return "C15 callback API answered %r" % (r,)
        if not run.step(None):
            break
    mon.after_step(run); mon.at_quiescence()
    if mon.err:
        return mon.err
    return chk(run, inst, mon)


SCN_C15 = {
    "child_sync": (["1 <= form < 5 and form != 3", "not (slow and cfail)", "not (par and slow)"], 600, 1800),
}


@condition(timeout={"quick": 600, "thorough": 1800}, functions=scn.ENGINE_FUNCS + ["asl_service_states_startExecution", "handle_sfn_response", "cancel_task (StepFunction recursion)"])
def child_sync_runs(form: int, cfail: bool, slow: bool, par: bool, c0: int, c1: int, c2: int, c3: int, c4: int, c5: int) -> str:
    """
    requires: form in (0, 1, 2, 4) and not (slow and cfail) and not (par and slow) and not (form == 0 and (slow or cfail))
    ensures: _ == ""
    """
    return child_sync({"C15", "C02", "C03"}, form, cfail, slow, par, c0, c1, c2, c3, c4, c5)


@condition(timeout={"quick": 300, "thorough": 900}, functions=scn.ENGINE_FUNCS + ["aws_api_SendTaskSuccess/Failure", "handle_rpcmessage_response (callbacks)"])
def callback_runs(stream: int, c0: int, c1: int, c2: int, c3: int) -> str:
    """
    requires: 0 <= stream < 9
    ensures: _ == ""
    """
    return _cb_scenario({"C15", "C02", "C03"}, stream, c0, c1, c2, c3)


@condition(timeout={"quick": 300, "thorough": 900}, functions=scn.ENGINE_FUNCS + ["apply_path ($$ selections of the Task token)", "aws_api_SendTaskSuccess"])
def callback_token_forms(tokform: int, c0: int, c1: int, c2: int, c3: int) -> str:
    """
    The token a Task receives completes it, however the definition spells the path that selects it from the Context
    Object: dot form, bracket forms, or the whole $$.Task object (the worker then takes its Token member).
    requires: 0 <= tokform < 5
    ensures: _ == ""
    """
    return _cb_scenario({"C15", "C02", "C03"}, 0, c0, c1, c2, c3, stubs.cint(tokform, 0, 4))


def grandchild_sync(which, leaf: int, c0: int, c1: int, c2: int, c3: int, c4: int, c5: int):
    """Three levels: the parent's .sync:2 Task (TimeoutSeconds 5) launches `child`, whose own .sync:2 Task launches
    `grand`, which is blocked on a 30 s Wait (leaf 0) or on a Task whose worker never replies (leaf 1).  When the
    parent Task times out, the cancellation must reach what the grandchild is blocked on."""
    leaf = stubs.cint(leaf, 0, 1)
    asl = _parent(2, 5, False)
    child = {"StartAt": "C", "States": {"C": {"Type": "Task", "Resource": "arn:aws:states:local::states:" + FORMS[2],
             "Parameters": {"StateMachineArn": "arn:aws:states:local:0123456789:stateMachine:grand", "Input": {"i.$": "$.i"}}, "End": True}}}
    if leaf == 0:
        grand = {"StartAt": "GW", "States": {"GW": {"Type": "Wait", "Seconds": 30, "Next": "GZ"}, "GZ": {"Type": "Pass", "End": True}}}
    else:
        grand = {"StartAt": "GT", "States": {"GT": scn.task("fg", End=True)}}

    def chk(run, inst, mon):
        per = mon.per_exec()
        by = {}
        for a in per:
            by[a.split(":")[-2]] = a
        if sorted(by) != ["child", "grand", "m"]:
            return "C15 executions %s" % sorted(per)
        p = s2.result_of(by["m"])
        if p != ("FAILED", "States.Timeout"):
            return "C15 parent outcome %r, expected States.Timeout" % (p,)
        if inst.td.pending_requests or inst.td.cancellers or [t for t in sim.BROKER.timers if not inst.is_heartbeat(t)]:
            return "C15 pending work of the child / grandchild not cancelled after the parent timed out: %s %s" % (list(inst.td.pending_requests), list(inst.td.cancellers))
        stop = {k: [m["detail"].get("stopDate") for s_, m in sim.BROKER.topic if m["detail"]["executionArn"] == a and m["detail"]["status"] != "RUNNING"] for k, a in by.items()}
        for k in ("child", "grand"):
            r = s2.result_of(by[k])
            if r[0] == "SUCCEEDED" or not stop[k] or stop[k][0] > stop["m"][0]:
                return "C15 the %s execution went on after the parent Task had timed out: %r stopped at %s, parent at %s" % (k, r, stop[k], stop["m"])
        return ""
    return s2.run_scenario(asl, {"x": 7}, [c0, c1, c2, c3, c4, c5], {"fg": lambda req: None}, which, "STANDARD", None,
                           children=[("child", child, "STANDARD"), ("grand", grand, "STANDARD")], extra_check=chk, max_steps=150)


@condition(timeout={"quick": 300, "thorough": 900}, functions=scn.ENGINE_FUNCS + ["asl_service_states_startExecution", "TaskDispatcher.cancel_task (recursion through nested synchronous children)", "set_sfn_canceller"])
def grandchild_cancellation(leaf: int, c0: int, c1: int, c2: int, c3: int, c4: int, c5: int) -> str:
    """
    requires: 0 <= leaf < 2
    ensures: _ == ""
    """
    return grandchild_sync({"C15", "C02", "C03"}, leaf, c0, c1, c2, c3, c4, c5)


def cancelled_child_with_fanout(which, ckind: int, c0: int, c1: int, c2: int, c3: int, c4: int, c5: int, c6: int, c7: int):
    """Parent = Parallel[ Task .sync:2 child | Task work (fails) ]; the child's top-level state is a Parallel of two
    Tasks (ckind 0), a Map over two items (ckind 1) or a plain Task (ckind 2) whose workers never reply.  When `work`
    fails the parent, the child's Tasks are cancelled and the child execution must itself reach a terminal status."""
    ckind = stubs.cint(ckind, 0, 2)
    leaf = scn.task("never", End=True)
    if ckind == 0:
        cs = {"Type": "Parallel", "End": True, "Branches": [{"StartAt": "K1", "States": {"K1": leaf}}, {"StartAt": "K2", "States": {"K2": leaf}}]}
    elif ckind == 1:
        cs = {"Type": "Map", "ItemsPath": "$.items", "End": True, "Iterator": {"StartAt": "K1", "States": {"K1": leaf}}}
    else:
        cs = leaf
    child = {"StartAt": "CS", "States": {"CS": cs}}
    sync = {"Type": "Task", "Resource": "arn:aws:states:local::states:" + FORMS[2], "End": True,
            "Parameters": {"StateMachineArn": "arn:aws:states:local:0123456789:stateMachine:child", "Input": {"items": [1, 2]}}}
    asl = {"StartAt": "P", "States": {"P": {"Type": "Parallel", "End": True, "Branches": [
        {"StartAt": "S", "States": {"S": sync}}, {"StartAt": "W", "States": {"W": scn.task("work", End=True)}}]}}}

    def chk(run, inst, mon):
        per = mon.per_exec()
        kids = [a for a in per if ":execution:child:" in a]
        parents = [a for a in per if ":execution:m:" in a]
        if len(kids) != 1 or len(parents) != 1:
            return "C15 executions %s" % sorted(per)
        if s2.result_of(parents[0]) != ("FAILED", "Boom"):
            return "C15 parent outcome %r" % (s2.result_of(parents[0]),)
        k = s2.result_of(kids[0])
        if k[0] != "FAILED":
            return "C02/C15 the cancelled child execution did not reach a terminal status: %r" % (k,)
        return ""
    return s2.run_scenario(asl, {"x": 1}, [c0, c1, c2, c3, c4, c5, c6, c7], {"never": lambda req: None, "work": scn.worker(True, "Boom", "work")},
                           which, "STANDARD", None, children=[("child", child, "STANDARD")], extra_check=chk, max_steps=200, fast=True)


@condition(timeout={"quick": 300, "thorough": 900}, functions=scn.ENGINE_FUNCS + ["TaskDispatcher.cancel_task (StepFunction recursion)", "handle_terminal_state (Task.Terminated at the top level of a child)"])
def cancelled_child_terminates(ckind: int, c0: int, c1: int, c2: int, c3: int, c4: int, c5: int, c6: int, c7: int) -> str:
    """
    requires: 0 <= ckind < 3
    ensures: _ == ""
    """
    return cancelled_child_with_fanout({"C15", "C02", "C03"}, ckind, c0, c1, c2, c3, c4, c5, c6, c7)
