"""C14 - Choice rules compare by type and combine like Boolean logic.

Unit: the real StateEngine.notify driven into its nested asl_state_Choice /
choose() / asl_choice_* closures with a one-Choice-state machine; the event's
data document and the rule constants are symbolic."""
import vf; vf.setup_paths()
from vf.api import condition
from vf import stubs
from vf.ref import choice as ref
from asl_workflow_engine import state_engine as se

PROPERTY = "C14"
ASSUMPTIONS = [
    "clock/uuid/logger stubs (vf.stubs); EventDispatcher/TaskDispatcher replaced by recording stubs",
    "state_engine.json replaced by a shim whose dumps() returns a constant (history/output text is not the subject; avoids realising symbolic data)",
    "float operands are taken from a concrete pool and are paired only with pool integers (CrossHair real-valued floats cannot close); integer-vs-integer comparisons use unbounded symbolic ints",
    "numeric operators see string operands from a concrete pool (symbolic str * 0 inside isnumber() does not close); documents are QuietDoc dicts whose str()/format() is constant so error-message formatting does not realise symbolic leaves",
    "when a referenced member is missing the other operand comes from a concrete pool: PathMatchFailure formats the whole input document and CrossHair realises format() arguments, which would enumerate unbounded symbolic leaves",
    "timestamps are drawn from a concrete pool by symbolic selectors (offset arithmetic itself is C08's kernel)",
]


class _JsonShim:
    @staticmethod
    def dumps(o, *a, **k):
        return "<json>"
    loads = staticmethod(__import__("json").loads)


se.json = _JsonShim
FLOATS = [0.5, -1.5, 2.0, 0.0]
INTS = [-2, -1, 0, 1, 2]
NUM_OPS = ["Equals", "GreaterThan", "GreaterThanEquals", "LessThan", "LessThanEquals"]
TS = ["2020-01-01T10:00:00Z", "2020-01-01T12:00:00+02:00", "2020-01-01T10:00:00.5Z", "2020-01-01T06:30:00-03:30",
      "2020-01-01T09:59:59Z", "2021-06-30T23:59:59+00:00"]
TS_INSTANT = [36000.0, 36000.0, 36000.5, 36000.0, 35999.0, 47174399.0]   # seconds relative to 2020-01-01T00:00Z


STRS = ["", "a", "1"]


def pick(pool, i):
    """Concrete pool member chosen by a symbolic selector (explicit fork per member,
    so the chosen value is concrete on each path)."""
    for k in range(len(pool)):
        if i == k:
            return pool[k]
    return pool[0]


def mk(kind: int, i: int, s: str, b: bool):
    """Build a JSON value of the kind selected by `kind` (0 = member absent)."""
    if kind == 0: return ref.MISSING
    if kind == 1: return None
    if kind == 2: return b
    if kind == 3: return i
    if kind == 4: return s
    if kind == 5: return [i]
    if kind == 6: return {"k": s}
    if kind == 10: return pick(STRS, i)  # concrete strings (numeric operators: x*0 on a symbolic str does not close)
    if kind == 9: return pick(INTS, i)   # concrete small ints (paired with floats)
    return pick(FLOATS, i)


def run_choice(rules, data, default=None, input_path=None):
    """Run the real engine on a machine whose start state is this Choice state.
    Returns ("next", name) | ("failed", error) | ("other", log)."""
    state = {"Type": "Choice", "Choices": rules}
    if default is not None:
        state["Default"] = default
    if input_path is not None:
        state["InputPath"] = input_path
    asl = {"StartAt": "C", "States": {"C": state, "A": {"Type": "Succeed"}, "B": {"Type": "Succeed"}, "D": {"Type": "Succeed"}}}
    eng, log = stubs.make_engine(asl)
    ev = stubs.running_event("C", data, eng=eng)
    eng.event_dispatcher.unacknowledged_messages["id1"] = True
    eng.notify(ev, "id1")
    pubs = [l for l in log if l[0] == "publish"]
    bcs = [l for l in log if l[0] == "broadcast"]
    acks = [l for l in log if l[0] == "ack"]
    if len(acks) != 1:
        return ("other", "acks=%d" % len(acks))
    if len(pubs) == 1 and not bcs:
        return ("next", pubs[0][1]["context"]["State"]["Name"])
    if len(bcs) == 1 and not pubs:
        d = bcs[0][2]["detail"]
        return ("failed", d.get("error")) if d["status"] == "FAILED" else ("other", d["status"])
    return ("other", "pubs=%d bcs=%d" % (len(pubs), len(bcs)))


def ok_pattern(pat):
    """Backslash appears only as the escape of a following '*' (the States Language
    leaves a backslash before any other character undefined/illegal, and the
    repository's own test treats it as a literal: outside the claim)."""
    i = 0
    while i < len(pat):
        if pat[i] == chr(92):
            if i + 1 >= len(pat) or pat[i + 1] != "*":
                return False
            i += 2
        else:
            i += 1
    return True


def doc(v, c=ref.MISSING):
    d = stubs.QuietDoc({"pad": 0})
    if v is not ref.MISSING: d["v"] = v
    if c is not ref.MISSING: d["c"] = c
    return d


def expect(matched):
    return ("next", "A") if matched else ("next", "B")


def _register(fn):
    globals()[fn.__name__] = fn
    return fn


def _make_numeric(op):
    name = "Numeric" + NUM_OPS[op]

    @condition(timeout={"quick": 60, "thorough": 300}, bounds={"quick": {"N": 2}, "thorough": {"N": 3}},
               functions=["StateEngine.notify>asl_state_Choice>choose>asl_choice_" + name, "next_if_numeric", "isnumber"])
    def const(vk: int, vi: int, vs: str, vb: bool, ck: int, ci: int) -> bool:
        """
        requires: vk in (0, 1, 2, 3, 10, 5, 6, 7, 9) and len(vs) <= @N@ and ck in (3, 7, 9)
        requires: not (vk == 3 and ck == 7) and not (vk == 7 and ck == 3)
        ensures: _
        """
        v = mk(vk, vi, vs, vb); c = mk(ck, ci, "", False)
        got = run_choice([{"Variable": "$.v", name: c, "Next": "A"}], doc(v), "B")
        return got == expect(ref.numeric(NUM_OPS[op], v, c))
    const.__name__ = const.__qualname__ = name
    _register(const)

    @condition(timeout={"quick": 90, "thorough": 600},
               bounds={"quick": {"N": 1, "VK": "(0, 2, 3, 7, 9)"}, "thorough": {"N": 2, "VK": "(0, 1, 2, 3, 10, 5, 6, 7, 9)"}},
               functions=["asl_choice_" + name + "Path via choose()", "apply_path"])
    def path(vk: int, vi: int, vs: str, vb: bool, ck: int, ci: int, cs: str, cb: bool) -> bool:
        """
        requires: vk in @VK@ and ck in (0, 1, 2, 3, 10, 5, 6, 7, 9) and len(vs) <= @N@ and len(cs) <= @N@
        requires: not (vk == 3 and ck == 7) and not (vk == 7 and ck == 3)
        requires: (vk != 0 or ck in (0, 1, 2, 7, 9, 10)) and (ck != 0 or vk in (0, 1, 2, 7, 9, 10))
        ensures: _
        """
        v = mk(vk, vi, vs, vb); c = mk(ck, ci, cs, cb)
        got = run_choice([{"Variable": "$.v", name + "Path": "$.c", "Next": "A"}], doc(v, c), "B")
        return got == expect(ref.numeric(NUM_OPS[op], v, c))
    path.__name__ = path.__qualname__ = name + "Path"
    _register(path)


def _make_string(op):
    name = "String" + NUM_OPS[op]

    @condition(timeout={"quick": 90, "thorough": 600}, bounds={"quick": {"N": 2}, "thorough": {"N": 3}},
               functions=["asl_choice_" + name, "next_if"])
    def const(vk: int, vi: int, vs: str, vb: bool, cs: str) -> bool:
        """
        requires: 0 <= vk <= 7 and len(vs) <= @N@ and len(cs) <= @N@
        ensures: _
        """
        v = mk(vk, vi, vs, vb)
        got = run_choice([{"Variable": "$.v", name: cs, "Next": "A"}], doc(v), "B")
        return got == expect(ref.string(NUM_OPS[op], v, cs))
    const.__name__ = const.__qualname__ = name
    _register(const)

    @condition(timeout={"quick": 90, "thorough": 900},
               bounds={"quick": {"N": 1, "VK": "(0, 2, 3, 4, 10)"}, "thorough": {"N": 2, "VK": "(0, 1, 2, 3, 4, 5, 6, 7, 10)"}},
               functions=["asl_choice_" + name + "Path"])
    def path(vk: int, vi: int, vs: str, vb: bool, ck: int, ci: int, cs: str, cb: bool) -> bool:
        """
        requires: vk in @VK@ and ck in (0, 1, 2, 3, 4, 5, 6, 7, 10) and len(vs) <= @N@ and len(cs) <= @N@
        requires: (vk != 0 or ck in (0, 1, 2, 7, 9, 10)) and (ck != 0 or vk in (0, 1, 2, 7, 9, 10))
        ensures: _
        """
        v = mk(vk, vi, vs, vb); c = mk(ck, ci, cs, cb)
        got = run_choice([{"Variable": "$.v", name + "Path": "$.c", "Next": "A"}], doc(v, c), "B")
        return got == expect(ref.string(NUM_OPS[op], v, c))
    path.__name__ = path.__qualname__ = name + "Path"
    _register(path)


def _make_timestamp(op):
    name = "Timestamp" + NUM_OPS[op]

    @condition(timeout={"quick": 120, "thorough": 300},
               functions=["asl_choice_" + name + "[Path]", "next_if_timestamp", "parse_rfc3339_datetime"])
    def ts(path: bool, vk: int, i: int, j: int, vs: str) -> bool:
        """
        requires: 0 <= i < 6 and 0 <= j < 6 and vk in (0, 1, 2, 3, 4, 8) and len(vs) <= 1
        ensures: _
        """
        v = TS[i] if vk == 8 else mk(vk, i, vs, True)
        c = TS[j]
        if path:
            got = run_choice([{"Variable": "$.v", name + "Path": "$.c", "Next": "A"}], doc(v, c), "B")
        else:
            got = run_choice([{"Variable": "$.v", name: c, "Next": "A"}], doc(v), "B")
        want = vk == 8 and ref.rel(NUM_OPS[op], TS_INSTANT[i], TS_INSTANT[j])
        return got == expect(want)
    ts.__name__ = ts.__qualname__ = name
    _register(ts)


for _op in range(5):
    _make_numeric(_op); _make_string(_op); _make_timestamp(_op)


@condition(timeout={"quick": 60, "thorough": 300}, bounds={"quick": {"N": 1}, "thorough": {"N": 2}},
           functions=["asl_choice_CaseInsensitiveStringEquals (extension, not in the States Language)"])
def CaseInsensitiveStringEquals(vk: int, vi: int, vs: str, vb: bool, cs: str) -> bool:
    """
    requires: 0 <= vk <= 7 and len(vs) <= @N@ and len(cs) <= @N@
    requires: all(ch in 'aAbB' for ch in vs) and all(ch in 'aAbB' for ch in cs)
    ensures: _
    """
    v = mk(vk, vi, vs, vb)
    got = run_choice([{"Variable": "$.v", "CaseInsensitiveStringEquals": cs, "Next": "A"}], doc(v), "B")
    return got == expect(isinstance(v, str) and v.lower() == cs.lower())


@condition(timeout={"quick": 120, "thorough": 600},
           bounds={"quick": {"N": 1, "VK": "(0, 1, 2, 3, 4)"}, "thorough": {"N": 2, "VK": "(0, 1, 2, 3, 4, 5, 6, 7, 9, 10)"}},
           functions=["asl_choice_BooleanEquals", "asl_choice_BooleanEqualsPath"])
def BooleanEquals(path: bool, vk: int, vi: int, vs: str, vb: bool, ck: int, ci: int, cs: str, cb: bool) -> bool:
    """
    requires: vk in @VK@ and ck in (0, 1, 2, 3, 4, 5, 6, 7, 9, 10) and len(vs) <= @N@ and len(cs) <= @N@
    requires: path or ck == 2
    requires: (vk != 0 or ck in (0, 1, 2, 7, 9, 10)) and (ck != 0 or vk in (0, 1, 2, 7, 9, 10))
    ensures: _
    """
    v = mk(vk, vi, vs, vb); c = mk(ck, ci, cs, cb)
    if path:
        rule = {"Variable": "$.v", "BooleanEqualsPath": "$.c", "Next": "A"}
        got = run_choice([rule], doc(v, c), "B")
    else:
        got = run_choice([{"Variable": "$.v", "BooleanEquals": c, "Next": "A"}], doc(v), "B")
    return got == expect(ref.boolean_equals(v, c))


@condition(timeout={"quick": 150, "thorough": 1800}, bounds={"quick": {"N": 1, "M": 2, "AL": "'a*?['"}, "thorough": {"N": 2, "M": 3, "AL": "'ab*?[]!-'"}},
           functions=["asl_choice_StringMatches (fnmatch translation)"],
           outside=["StringMatches patterns/subjects longer than the tier bound",
                    "patterns in which a backslash is followed by anything other than '*' (spec: illegal; repository test: literal)"])
def string_matches(vs: str, pat: str) -> bool:
    """
    requires: len(vs) <= @N@ and len(pat) <= @M@
    requires: all(ch in @AL@ or ch == chr(92) for ch in pat) and all(ch in @AL@ or ch == chr(92) for ch in vs)
    requires: ok_pattern(pat)
    ensures: _
    """
    got = run_choice([{"Variable": "$.v", "StringMatches": pat, "Next": "A"}], doc(vs), "B")
    return got == expect(ref.string_matches(vs, pat))


PATS = ["*", "", "a*", "0", "?"]


@condition(timeout={"quick": 60, "thorough": 300}, functions=["asl_choice_StringMatches on non-string / missing Variable"])
def string_matches_wrong_type(vk: int, vi: int, vb: bool, pi: int) -> bool:
    """
    requires: vk in (0, 1, 2, 3, 5, 6, 7) and 0 <= pi < 5
    ensures: _
    """
    v = mk(vk, vi, "s", vb)
    got = run_choice([{"Variable": "$.v", "StringMatches": pick(PATS, pi), "Next": "A"}], doc(v), "B")
    return got == expect(False)


TYPE_TESTS = ["IsPresent", "IsNull", "IsNumeric", "IsString", "IsBoolean"]


@condition(timeout={"quick": 60, "thorough": 300}, bounds={"quick": {"N": 2}, "thorough": {"N": 3}},
           functions=["asl_choice_IsPresent", "asl_choice_IsNull", "asl_choice_IsNumeric", "asl_choice_IsString", "asl_choice_IsBoolean"],
           outside=["IsNull/IsNumeric/IsString/IsTimestamp applied to a *missing* Variable (the property states type facts only for existing values)"])
def type_tests(t: int, want: bool, vk: int, vi: int, vs: str, vb: bool) -> bool:
    """
    requires: 0 <= t < 5 and 0 <= vk <= 7 and len(vs) <= @N@
    requires: t == 0 or t == 4 or vk != 0
    ensures: _
    """
    v = mk(vk, vi, vs, vb)
    got = run_choice([{"Variable": "$.v", TYPE_TESTS[t]: want, "Next": "A"}], doc(v), "B")
    if t == 0: fact = v is not ref.MISSING
    elif t == 1: fact = v is None
    elif t == 2: fact = ref.is_num(v)
    elif t == 3: fact = isinstance(v, str)
    else: fact = isinstance(v, bool)
    if t == 4 and v is ref.MISSING:
        return got == expect(False)      # implementation choice also allowed by the statement: nothing matches
    return got == expect(fact == want)


@condition(timeout={"quick": 30, "thorough": 120}, functions=["asl_choice_IsTimestamp"])
def is_timestamp(want: bool, vk: int, i: int, vs: str) -> bool:
    """
    requires: vk in (1, 2, 3, 4, 5, 8) and 0 <= i < 6 and len(vs) <= 1
    ensures: _
    """
    v = TS[i] if vk == 8 else mk(vk, i, vs, True)
    got = run_choice([{"Variable": "$.v", "IsTimestamp": want, "Next": "A"}], doc(v), "B")
    return got == expect((vk == 8) == want)


def build_tree(shape: int, la: int, lb: int, lc: int):
    """Rule trees of depth <= 2 over three leaves. Returns (rule, evaluator)."""
    def leaf(k):
        name = "abc"[k % 3]
        return {"Variable": "$." + name, "IsPresent": True}, (lambda env, name=name: env[name])
    A, fa = leaf(la); B, fb = leaf(lb); C, fc = leaf(lc)
    if shape == 0: return A, fa
    if shape == 1: return {"Not": A}, (lambda e: not fa(e))
    if shape == 2: return {"And": [A, B]}, (lambda e: fa(e) and fb(e))
    if shape == 3: return {"Or": [A, B]}, (lambda e: fa(e) or fb(e))
    if shape == 4: return {"And": [A, {"Or": [B, C]}]}, (lambda e: fa(e) and (fb(e) or fc(e)))
    if shape == 5: return {"Or": [A, {"And": [B, C]}]}, (lambda e: fa(e) or (fb(e) and fc(e)))
    if shape == 6: return {"Not": {"And": [A, B]}}, (lambda e: not (fa(e) and fb(e)))
    if shape == 7: return {"Not": {"Or": [A, B]}}, (lambda e: not (fa(e) or fb(e)))
    if shape == 8: return {"And": [{"Not": A}, B, C]}, (lambda e: (not fa(e)) and fb(e) and fc(e))
    if shape == 9: return {"Or": [{"Not": A}, {"Not": B}]}, (lambda e: (not fa(e)) or (not fb(e)))
    if shape == 10: return {"Not": {"Not": A}}, (lambda e: fa(e))
    return {"And": [{"Or": [A, B]}, {"Or": [B, C]}]}, (lambda e: (fa(e) or fb(e)) and (fb(e) or fc(e)))


@condition(timeout={"quick": 60, "thorough": 300},
           functions=["asl_choice_And", "asl_choice_Or", "asl_choice_Not", "choose (recursion)"])
def boolean_logic(shape: int, pa: bool, pb: bool, pc: bool) -> bool:
    """
    requires: 0 <= shape <= 11
    ensures: _
    """
    rule, f = build_tree(shape, 0, 1, 2)
    rule = dict(rule); rule["Next"] = "A"
    data = {}
    if pa: data["a"] = 1
    if pb: data["b"] = None
    if pc: data["c"] = False
    got = run_choice([rule], data, "B")
    return got == expect(bool(f({"a": pa, "b": pb, "c": pc})))


@condition(timeout={"quick": 60, "thorough": 300},
           functions=["asl_state_Choice rule loop, Default, States.NoChoiceMatched", "handle_error", "end_execution"])
def rule_order(x: int, t1: int, t2: int, has_default: bool) -> bool:
    """
    requires: True
    ensures: _
    """
    rules = [{"Variable": "$.v", "NumericGreaterThan": t1, "Next": "A"},
             {"Variable": "$.v", "NumericLessThan": t2, "Next": "D"}]
    got = run_choice(rules, {"v": x}, "B" if has_default else None)
    if x > t1: return got == ("next", "A")
    if x < t2: return got == ("next", "D")
    if has_default: return got == ("next", "B")
    return got == ("failed", "States.NoChoiceMatched")


# --------------------------------------------------------------------- additions after the seeded-change round
SECOND_OPS = [("BooleanEquals", False), ("BooleanEquals", True), ("IsPresent", True), ("IsPresent", False), ("IsBoolean", True), ("IsBoolean", False),
              ("IsNull", True), ("StringEquals", "")]


def _leaf_truth(op, c, v):
    if op == "BooleanEquals": return ref.boolean_equals(v, c)
    if op == "IsPresent": return (v is not ref.MISSING) == c
    if op == "IsBoolean": return v is not ref.MISSING and (isinstance(v, bool) == c)
    if op == "IsNull": return v is not ref.MISSING and ((v is None) == c)
    return ref.string("Equals", v, c)


@condition(timeout={"quick": 120, "thorough": 300}, functions=["choose() called repeatedly on the same Variable (second rule, And/Or members): no state may be carried between rule evaluations"],
           outside=["IsNull applied to a missing Variable"])
def repeated_variable(o1: int, o2: int, vk: int, vb: bool, shape: int) -> bool:
    """
    requires: 0 <= o1 < 8 and 0 <= o2 < 8 and vk in (0, 1, 2, 4) and 0 <= shape < 3
    requires: not (vk == 0 and (o1 == 6 or o2 == 6))
    ensures: _
    """
    v = mk(vk, 0, "", vb)
    (op1, c1), (op2, c2) = pick(SECOND_OPS, o1), pick(SECOND_OPS, o2)
    r1 = {"Variable": "$.v", op1: c1}
    r2 = {"Variable": "$.v", op2: c2}
    t1, t2 = _leaf_truth(op1, c1, v), _leaf_truth(op2, c2, v)
    if shape == 0:          # two rules in sequence
        rules = [dict(r1, Next="A"), dict(r2, Next="D")]
        want = ("next", "A") if t1 else (("next", "D") if t2 else ("next", "B"))
    elif shape == 1:        # And of two references
        rules = [{"And": [r1, r2], "Next": "A"}]
        want = ("next", "A") if (t1 and t2) else ("next", "B")
    else:                   # Or with a negated second reference
        rules = [{"Or": [r1, {"Not": r2}], "Next": "A"}]
        want = ("next", "A") if (t1 or not t2) else ("next", "B")
    return run_choice(rules, doc(v), "B") == want


from vf.api import variants
variants(globals(), repeated_variable, [("_seq", "shape == 0"), ("_and", "shape == 1"), ("_or_not", "shape == 2")])



@condition(timeout={"quick": 120, "thorough": 300}, functions=["asl_state_Choice > choose (the *Path operand and the Variable are both read from the state's effective input)"])
def path_operand_effective_input(op: int, a: int, b: int, outer: int, use_ip: bool) -> bool:
    """
    requires: 0 <= op < 5 and 0 <= a <= 2 and 0 <= b <= 2 and 0 <= outer <= 3
    ensures: _
    """
    # Choice with InputPath $.order: Variable $.paid and the operand path $.due are both members of the selected
    # object; the raw input has a member `due` of its own (or none when outer == 3) that must not be looked at.
    name = pick(["NumericEqualsPath", "NumericGreaterThanPath", "NumericGreaterThanEqualsPath", "NumericLessThanPath", "NumericLessThanEqualsPath"], op)
    order = {"paid": a, "due": b}
    data = {"order": order, "paid": 99}
    if outer < 3:
        data["due"] = outer
    rules = [{"Variable": "$.paid", name: "$.due", "Next": "A"}]
    if use_ip:
        got = run_choice(rules, data, "B", input_path="$.order")
        x, y = a, b
    else:
        got = run_choice(rules, data, "B")
        if outer == 3:
            return got[0] in ("next", "failed")          # operand path matches nothing in the raw input: no value comparison can match; the rule is skipped or the state fails
        x, y = 99, outer
    truth = {"NumericEqualsPath": x == y, "NumericGreaterThanPath": x > y, "NumericGreaterThanEqualsPath": x >= y,
             "NumericLessThanPath": x < y, "NumericLessThanEqualsPath": x <= y}[name]
    return got == (("next", "A") if truth else ("next", "B"))
