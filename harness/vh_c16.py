"""C16 - service quotas are enforced at the exact boundary."""
import vf; vf.setup_paths()
from vf.api import condition
from vf import stubs
from asl_workflow_engine import state_engine as se, task_dispatcher as td

PROPERTY = "C16"
ASSUMPTIONS = [
    "sizes are *unbounded symbolic integers*: the JSON codec in the module under test is replaced by a shim whose dumps() returns an opaque text (SizedText) whose len() is the symbolic size n, so every enforcement point is decided for all n >= 0, in both directions (accept iff n <= L)",
    "hence 'the JSON text of this value has n characters' is an assumption of the claim (the real codec is not exercised here)",
    "recording dispatcher stubs, clock/uuid/logger stubs (vf.stubs)",
]
L_DATA = 262144
L_DEF = 1048576
L_HIST = 25000


class SizedText:
    """Opaque JSON text of symbolic length."""
    def __init__(self, n):
        self.n = n

    def __len__(self):
        return self.n

    def __ch_deep_realize__(self, memo):
        return self       # CrossHair realises format() arguments: keep the size symbolic

    def __str__(self):
        return "<text>"

    __repr__ = __str__

    def __format__(self, spec):
        return "<text>"

    def decode(self, enc="utf8"):
        return self

    def encode(self, enc="utf8"):
        return self


class SizedJson:
    """json shim: dumps(the designated document) has the symbolic size, everything else is small."""
    def __init__(self, n, big=None):
        self.n = n
        self.big = big

    def dumps(self, o, *a, **k):
        if self.big is None or self.big(o):
            return SizedText(self.n)
        return SizedText(2)

    def loads(self, s, *a, **k):
        return {"ok": 1}


def outcome(log):
    pubs = [l for l in log if l[0] == "publish"]
    bcs = [l for l in log if l[0] == "broadcast"]
    if len(pubs) == 1 and not bcs:
        return ("next", pubs[0][1]["context"]["State"]["Name"])
    if len(bcs) == 1 and not pubs:
        d = bcs[0][2]["detail"]
        return (d["status"], d.get("error"))
    return ("other", len(pubs), len(bcs))


def _limit_ok(n, L, accepted, rejected):
    return accepted if n <= L else rejected


@condition(timeout={"quick": 60, "thorough": 120}, functions=["StateEngine.change_state (state output limit)", "asl_state_Pass", "handle_error"])
def pass_output(n: int, typ: int) -> bool:
    """
    requires: n >= 0 and 0 <= typ < 2
    ensures: _
    """
    asl = {"StartAt": "P", "States": {"P": {"Type": "Pass", "Next": "N"}, "N": {"Type": "Succeed"}}}
    sm_type = "EXPRESS" if typ else "STANDARD"
    eng, log = stubs.make_engine(asl, sm_type)
    se.json = SizedJson(n)
    ev = stubs.running_event("P", {"x": 1}, sm_type, eng=eng)
    eng.notify(ev, "id1")
    got = outcome(log)
    return got == (("next", "N") if n <= L_DATA else ("FAILED", "States.DataLimitExceeded"))


@condition(timeout={"quick": 60, "thorough": 120}, functions=["asl_state_Task_delegate.on_response -> change_state (task result placed in output)"])
def task_output(n: int) -> bool:
    """
    requires: n >= 0
    ensures: _
    """
    asl = {"StartAt": "T", "States": {"T": {"Type": "Task", "Resource": "arn:aws:rpcmessage:local::function:f", "ResultPath": "$.r", "Next": "N"}, "N": {"Type": "Succeed"}}}
    eng, log = stubs.make_engine(asl)
    se.json = SizedJson(2)
    ev = stubs.running_event("T", {"x": 1}, eng=eng)
    eng.notify(ev, "id1")
    cb = eng.task_dispatcher.calls[0][2]
    del log[:]
    se.json = SizedJson(n)
    cb({"big": 1})
    got = outcome(log)
    return got == (("next", "N") if n <= L_DATA else ("FAILED", "States.DataLimitExceeded"))


@condition(timeout={"quick": 60, "thorough": 120}, functions=["asl_state_Map_delegate (empty array) / asl_state_collect_results -> change_state"])
def map_output(n: int) -> bool:
    """
    requires: n >= 0
    ensures: _
    """
    asl = {"StartAt": "M", "States": {"M": {"Type": "Map", "ItemsPath": "$.items", "Next": "N", "Iterator": {"StartAt": "I", "States": {"I": {"Type": "Pass", "End": True}}}},
                                      "N": {"Type": "Succeed"}}}
    eng, log = stubs.make_engine(asl)
    se.json = SizedJson(n)
    ev = stubs.running_event("M", {"items": []}, eng=eng)
    eng.notify(ev, "id1")
    got = outcome(log)
    return got == (("next", "N") if n <= L_DATA else ("FAILED", "States.DataLimitExceeded"))


class _Msg:
    def __init__(self, body, corr):
        self.body = body; self.correlation_id = corr; self.properties = {}; self.acked = 0

    def acknowledge(self, multiple=True, threadsafe=False):
        self.acked += 1


@condition(timeout={"quick": 60, "thorough": 120}, functions=["TaskDispatcher.handle_rpcmessage_response (task reply limit)"],
           outside=["the reply limit is applied to the byte length of the body, the other limits to character counts; non-ASCII replies are outside this condition"])
def task_reply(n: int, pending: bool) -> bool:
    """
    requires: n >= 0
    ensures: _
    """
    stubs.install_env(td)
    d = td.TaskDispatcher.__new__(td.TaskDispatcher)
    d.logger = stubs.SILENT
    d.pending_requests = {}; d.cancellers = {}; d.orphaned_responses = {}; d.task_metrics = {}
    d.orphaned_response_retention_ms = 0; d.startup_time = 0.0; d.peer_address = "amqp://h:1"
    d.handle_orphaned_responses_is_scheduled = False
    log = []
    import types
    d.state_engine = types.SimpleNamespace(event_dispatcher=stubs.RecDispatcher(log), branch_metadata={}, executions={},
                                           update_execution_history=lambda *a, **k: log.append(("history", a[2], a[3])))
    d.reply_to = types.SimpleNamespace(name="rq")
    results = []
    if pending:
        import opentracing
        span = opentracing.tracer.start_span("x")
        d.pending_requests["c1"] = ({}, stubs.EX_ARN, "arn:aws:rpcmessage:local::function:f", results.append, None, 0, 7, span)
    td.json = SizedJson(2)
    m = _Msg(SizedText(n), "c1")
    d.handle_rpcmessage_response(m)
    if m.acked != 1:
        return False
    if not pending:
        return results == []
    if len(results) != 1:
        return False
    r = results[0]
    if n <= L_DATA:
        return r == {"ok": 1}
    return r == {"errorType": "States.DataLimitExceeded"}


@condition(timeout={"quick": 60, "thorough": 120}, functions=["asl_state_Task_delegate.on_response (States.DataLimitExceeded reply fails the state)"])
def task_reply_fails_state(caught: bool) -> bool:
    """
    requires: True
    ensures: _
    """
    t = {"Type": "Task", "Resource": "arn:aws:rpcmessage:local::function:f", "Next": "N"}
    if caught:
        t["Catch"] = [{"ErrorEquals": ["States.DataLimitExceeded"], "Next": "R"}]
    asl = {"StartAt": "T", "States": {"T": t, "N": {"Type": "Succeed"}, "R": {"Type": "Succeed"}}}
    eng, log = stubs.make_engine(asl)
    ev = stubs.running_event("T", {"x": 1}, eng=eng)
    eng.notify(ev, "id1")
    cb = eng.task_dispatcher.calls[0][2]
    del log[:]
    cb({"errorType": "States.DataLimitExceeded"})
    return outcome(log) == (("next", "R") if caught else ("FAILED", "States.DataLimitExceeded"))


class SizedList(list):
    """A history list that already holds n (symbolic) events."""
    def __init__(self, n):
        super().__init__()
        self.n = n

    def __len__(self):
        return self.n + list.__len__(self)

    def __ch_deep_realize__(self, memo):
        return self


def ends_with_failure(eng, error):
    """The events appended to the (sized) history end with ExecutionFailed carrying `error`: the terminal event of an
    execution failed for its history length must still be recorded (C09/C11: history, record and notification agree)."""
    appended = [e for e in list.__iter__(eng.execution_history[stubs.EX_ARN])]
    if not appended or appended[-1].get("type") != "ExecutionFailed":
        return False
    return (appended[-1].get("executionFailedEventDetails") or {}).get("error") == error


@condition(timeout={"quick": 60, "thorough": 120}, functions=["StateEngine.notify (execution history limit guard)", "update_execution_history"])
def history_limit(n: int) -> bool:
    """
    requires: 1 <= n <= 25004
    ensures: _
    """
    # (upper bound only because the rejection message formats the length, which realises it)
    asl = {"StartAt": "P", "States": {"P": {"Type": "Pass", "Next": "N"}, "N": {"Type": "Succeed"}}}
    eng, log = stubs.make_engine(asl)
    se.json = SizedJson(2)
    ev = stubs.running_event("P", {"x": 1}, eng=eng)
    eng.execution_history[stubs.EX_ARN] = SizedList(n)   # history already holds n events when the state is entered
    eng.notify(ev, "id1")
    got = outcome(log)
    # the state's own StateEntered event has been appended (n+1 events) when the guard looks
    if n + 1 > L_HIST:
        return got == ("FAILED", "States.ExecutionHistoryLimitExceeded") and ends_with_failure(eng, "States.ExecutionHistoryLimitExceeded")
    return got == ("next", "N")


class SizedStr(str):
    """A name consisting of harmless characters whose length is symbolic."""
    def __new__(cls, n):
        o = str.__new__(cls, "a")
        o.n = n
        return o

    def __len__(self):
        return self.n

    def __bool__(self):
        return bool(self.n != 0)    # a real bool (forks on n == 0) without forcing len() to a machine integer

    def __ch_deep_realize__(self, memo):
        return self


def _valid_name_fns():
    from asl_workflow_engine import rest_api_asyncio as ra, rest_api as rb
    return ra.valid_name, rb.valid_name


@condition(timeout={"quick": 60, "thorough": 120}, functions=["rest_api_asyncio.valid_name", "rest_api.valid_name (length 1..80)"])
def name_length(n: int, which: int) -> bool:
    """
    requires: n >= 0 and 0 <= which < 2
    ensures: _
    """
    f = _valid_name_fns()[which]
    return bool(f(SizedStr(n))) == (1 <= n <= 80)


FORBIDDEN = " <>{}[]?*\"#%\\^|~`$&,;:/"


@condition(timeout={"quick": 120, "thorough": 600}, bounds={"quick": {"N": 3}, "thorough": {"N": 4}},
           functions=["rest_api_asyncio.valid_name", "rest_api.valid_name (forbidden characters anywhere in the name)"])
def name_chars(name: str, which: int) -> bool:
    """
    requires: 1 <= len(name) <= @N@ and 0 <= which < 2
    ensures: _
    """
    name = "".join([c for c in name])
    f = _valid_name_fns()[which]
    bad = any((ch in FORBIDDEN) or ord(ch) < 32 or 127 <= ord(ch) <= 159 for ch in name)
    return bool(f(name)) == (not bad)


@condition(timeout={"quick": 60, "thorough": 120}, functions=["handle_terminal_state -> end_execution (output of a terminal state)"])
def terminal_output(n: int, kind: int) -> bool:
    """
    requires: n >= 0 and 0 <= kind < 2
    ensures: _
    """
    st = {"Type": "Pass", "End": True} if kind == 0 else {"Type": "Succeed"}
    asl = {"StartAt": "P", "States": {"P": st}}
    eng, log = stubs.make_engine(asl)
    se.json = SizedJson(n)
    ev = stubs.running_event("P", {"x": 1}, eng=eng)
    eng.notify(ev, "id1")
    got = outcome(log)
    return got == (("SUCCEEDED", None) if n <= L_DATA else ("FAILED", "States.DataLimitExceeded"))


# --------------------------------------------------------------------- additions after the seeded-change round
@condition(timeout={"quick": 60, "thorough": 120}, functions=["StateEngine.notify (history limit guard on a retry re-entry, where no StateEntered event is logged)"])
def history_limit_on_retry(n: int) -> bool:
    """
    requires: 1 <= n <= 25004
    ensures: _
    """
    t = {"Type": "Task", "Resource": "arn:aws:rpcmessage:local::function:f", "Next": "N", "Retry": [{"ErrorEquals": ["E"], "MaxAttempts": 99999}]}
    asl = {"StartAt": "T", "States": {"T": t, "N": {"Type": "Succeed"}}}
    eng, log = stubs.make_engine(asl)
    se.json = SizedJson(2)
    ev = stubs.running_event("T", {"x": 1}, eng=eng, extra_state={"RetryCount": 1, "RetryTimeout": 0})
    eng.execution_history[stubs.EX_ARN] = SizedList(n)
    eng.notify(ev, "id1")
    calls = [l for l in log if l[0] == "execute_task"]
    if n > L_HIST:
        return outcome(log) == ("FAILED", "States.ExecutionHistoryLimitExceeded") and not calls and ends_with_failure(eng, "States.ExecutionHistoryLimitExceeded")
    return len(calls) == 1 and outcome(log)[0] == "other"


import vh_c10 as api
ASL_OK = {"StartAt": "A", "States": {"A": {"Type": "Pass", "End": True}}}


class _ApiJson:
    """json/stdjson shim for the REST modules: the request body parses to the prepared members and
    a SizedStr definition/input parses to a fixed valid document."""
    def __init__(self, members):
        self.members = members

    def loads(self, s, *a, **k):
        if isinstance(s, SizedStr):
            return dict(ASL_OK)
        if s == "<body>":
            return self.members
        return stubs.FastJson.loads(s, *a, **k)

    def dumps(self, o, *a, **k):
        return stubs.FastJson.dumps(o, *a, **k)


class _Body:
    def decode(self, enc="utf8"):
        return "<body>"


def _api_call(f, action, members):
    fe = api.FE[f]
    fe.reset(False)
    shim = _ApiJson(members)
    saved = (fe.mod.json, getattr(fe.mod, "stdjson", None))
    fe.mod.json = shim
    if saved[1] is not None:
        fe.mod.stdjson = shim
    try:
        return fe, fe.call("AWSStepFunctions." + action, api.CT, _Body())
    finally:
        fe.mod.json = saved[0]
        if saved[1] is not None:
            fe.mod.stdjson = saved[1]


@condition(timeout={"quick": 120, "thorough": 300}, functions=["rest_api_asyncio / rest_api: aws_api_CreateStateMachine, aws_api_UpdateStateMachine (definition size limit)"])
def api_definition_size(f: int, n: int, update: bool) -> bool:
    """
    requires: 0 <= f < 2 and n >= 0
    ensures: _
    """
    sm = api.sm_arn("m1")
    if update:
        fe = api.FE[f]
        members = {"stateMachineArn": sm, "definition": SizedStr(n)}
        # the machine must exist: create it through the store directly
        def prep(fe):
            fe.engine.asl_store[sm] = {"definition": dict(ASL_OK), "name": "m1", "roleArn": api.ROLE1, "stateMachineArn": sm,
                                       "type": "STANDARD", "creationDate": 1.0, "updateDate": 1.0, "status": "ACTIVE"}
        fe0 = api.FE[f]; fe0.reset(False); prep(fe0)
        shim = _ApiJson(members)
        saved = (fe0.mod.json, getattr(fe0.mod, "stdjson", None))
        fe0.mod.json = shim
        if saved[1] is not None: fe0.mod.stdjson = shim
        try:
            v, code = fe0.call("AWSStepFunctions.UpdateStateMachine", api.CT, _Body())
        finally:
            fe0.mod.json = saved[0]
            if saved[1] is not None: fe0.mod.stdjson = saved[1]
        if n == 0:
            return code == 400          # neither roleArn nor a definition supplied
        if n <= L_DEF:
            return code == 200
        return code == 400 and v.get("__type") == "InvalidDefinition"
    fe, (v, code) = _api_call(f, "CreateStateMachine", {"name": "m1", "roleArn": api.ROLE1, "definition": SizedStr(n)})
    if 1 <= n <= L_DEF:
        return code == 200 and sm in fe.engine.asl_store
    return code == 400 and v.get("__type") == "InvalidDefinition" and sm not in fe.engine.asl_store


@condition(timeout={"quick": 120, "thorough": 300}, functions=["rest_api_asyncio / rest_api: aws_api_StartExecution (input size limit)"])
def api_input_size(f: int, n: int) -> bool:
    """
    requires: 0 <= f < 2 and n >= 0
    ensures: _
    """
    sm = api.sm_arn("m1")
    fe = api.FE[f]; fe.reset(False)
    fe.engine.asl_store[sm] = {"definition": dict(ASL_OK), "name": "m1", "roleArn": api.ROLE1, "stateMachineArn": sm,
                               "type": "STANDARD", "creationDate": 1.0, "updateDate": 1.0, "status": "ACTIVE"}
    shim = _ApiJson({"stateMachineArn": sm, "input": SizedStr(n)})
    saved = fe.mod.json
    fe.mod.json = shim
    try:
        v, code = fe.call("AWSStepFunctions.StartExecution", api.CT, _Body())
    finally:
        fe.mod.json = saved
    pubs = [l for l in fe.disp.log if l[0] == "publish"]
    if n <= L_DATA:
        return code == 200 and len(pubs) == 1
    return code == 400 and v.get("__type") == "InvalidExecutionInput" and not pubs


PAYLOADS = ['{"k": 1}', "{", '{"a":}', 5, None, {"a": 1}, [1], True, ""]


@condition(timeout={"quick": 120, "thorough": 300}, functions=["rest_api_asyncio: aws_api_StartExecution / aws_api_StartSyncExecution (input), aws_api_SendTaskSuccess (output): documented validation error for a payload that is not the JSON text of a value"],
           outside=["the blocking front end has neither StartSyncExecution nor SendTaskSuccess"])
def api_payload_validation(action: int, pi: int, absent: bool) -> bool:
    """
    requires: 0 <= action < 3 and 0 <= pi < len(PAYLOADS)
    ensures: _
    """
    import vh_c15 as c15
    fe = api.FE[0]; fe.reset(False)
    sm = api.sm_arn("m1")
    fe.engine.asl_store[sm] = {"definition": dict(ASL_OK), "name": "m1", "roleArn": api.ROLE1, "stateMachineArn": sm,
                               "type": "EXPRESS" if action == 1 else "STANDARD", "creationDate": 1.0, "updateDate": 1.0, "status": "ACTIVE"}
    p = stubs.pick(PAYLOADS, pi)
    valid = isinstance(p, str) and p == '{"k": 1}'
    if action == 2:
        members = {"taskToken": c15.GOOD}
        if not absent: members["output"] = p
        name, err = "SendTaskSuccess", "InvalidOutput"
    else:
        members = {"stateMachineArn": sm}
        if not absent: members["input"] = p
        name, err = ("StartExecution" if action == 0 else "StartSyncExecution"), "InvalidExecutionInput"
    v, code = fe.call("AWSStepFunctions." + name, api.CT, stubs.FastJson.dumps(members).encode())
    if code == 500:
        return False
    if absent:
        return code in (200, 599) if action != 2 else code == 400          # input defaults to {}; an output is required
    if valid:
        return code in (200, 599)                                          # 599: StartSyncExecution suspended waiting for the execution
    if action == 2 and (p is None or p == ""):
        return code == 400                                                 # treated as "output missing"
    return code == 400 and isinstance(v, dict) and v.get("__type") == err


@condition(timeout={"quick": 60, "thorough": 120}, functions=["StateEngine.notify (execution history limit guard)", "handle_error (the limit error is not interceptable)"])
def history_limit_not_interceptable(n: int, how: int) -> bool:
    """
    requires: 1 <= n <= 25004 and 0 <= how < 3
    ensures: _
    """
    # "an execution whose history exceeds 25000 events is failed rather than growing without bound": a catch-all
    # Catcher (how 1) or Retrier (how 2) on the state at which the limit is noticed must not keep the execution alive
    t = {"Type": "Task", "Resource": "arn:aws:rpcmessage:local::function:f", "Next": "N"}
    if how == 1:
        t["Catch"] = [{"ErrorEquals": ["States.ALL"], "Next": "T"}]
    elif how == 2:
        t["Retry"] = [{"ErrorEquals": ["States.ALL"], "IntervalSeconds": 1, "MaxAttempts": 99999999}]
    asl = {"StartAt": "T", "States": {"T": t, "N": {"Type": "Succeed"}}}
    eng, log = stubs.make_engine(asl)
    se.json = SizedJson(2)
    ev = stubs.running_event("T", {"x": 1}, eng=eng)
    eng.execution_history[stubs.EX_ARN] = SizedList(n)
    eng.notify(ev, "id1")
    if n + 1 > L_HIST:
        return outcome(log) == ("FAILED", "States.ExecutionHistoryLimitExceeded") and ends_with_failure(eng, "States.ExecutionHistoryLimitExceeded")
    calls = [l for l in log if l[0] == "execute_task"]
    return len(calls) == 1 and not [l for l in log if l[0] == "broadcast"]
