"""C19 - Work is routed to the right queue/instance; messages map faithfully to AMQP
(transport part: address mapping, frames, message mapping, acknowledge, transport
parity, routing decisions of EventDispatcher.publish / TaskDispatcher.execute_task).

Unit: the real amqp_0_9_1_messaging (blocking) and amqp_0_9_1_messaging_asyncio
modules, EventDispatcher and TaskDispatcher, imported from /repo and run over
vf.fake_pika (a synchronous recording AMQP 0.9.1 broker standing in for the
uninstalled `pika`).  The asyncio module runs with its *real* make_future and
coroutines on a synchronous stand-in for the asyncio event loop."""
import sys, types
import vf; vf.setup_paths()
from vf.api import condition
from vf import stubs, fake_pika
from vf.stubs import pick

fake_pika.install()
from asl_workflow_engine import amqp_0_9_1_messaging as blk
from asl_workflow_engine import amqp_0_9_1_messaging_asyncio as aio
from asl_workflow_engine import event_dispatcher as ed
from asl_workflow_engine import task_dispatcher as td
from asl_workflow_engine.messaging_exceptions import MessagingError

PROPERTY = "C19"
ASSUMPTIONS = [
    "pika is replaced by vf.fake_pika (trusted model of the pika 1.x API over an AMQP 0.9.1/RabbitMQ broker: declare/bind/consume/qos/publish/ack/recover semantics, 404/403/405/406 channel errors, default/direct/fanout/topic routing, x-priority consumer choice, prefetch per consumer, RabbitMQ's rule that `expiration` must be the decimal text of a non-negative integer); replies to synchronous methods arrive immediately, deliveries happen only inside Broker.pump()",
    "the asyncio module's name `asyncio` is replaced by a synchronous loop (create_future -> a future that is complete as soon as the fake channel calls the callback); make_future, Connection.open, Session.open, Producer/Consumer.open and set_message_listener are the real code driven with coro.send(None)",
    "the name `json` inside the two messaging modules is a shim whose loads() realises its argument and parses it with the standard C decoder (same results as json.loads; avoids CrossHair's slow symbolic JSON decoder)",
    "clock / uuid / logger stubs (vf.stubs.install_env) in the four repository modules; event_dispatcher.sys.exit raises a harness exception instead of SystemExit",
    "StateEngine is replaced by a recording namespace (notify, heartbeat, asl_store.get_cached_view, update_execution_history); opentracing uses its default no-op tracer",
    "address names/subjects are short symbolic strings of arbitrary characters except the grammar's delimiters ';' '/' '{'; instance ids, function names and event ids are short symbolic strings over small alphabets (they reach dict keys / JSON text, where CrossHair enumerates values); option maps come from concrete pools chosen by symbolic selectors",
    "symbolic str arguments that meet slices of themselves are rebuilt character by character (norm) and structures are compared key by key (same) to avoid two CrossHair 0.0.110 equality defects (see notes/C19.md)",
    "expiration: small symbolic ints (forked to concrete values inside the bound) plus concrete pools of floats and strings; CrossHair's real-valued floats cannot close float arithmetic",
]

stubs.install_env(blk, aio, ed, td)
aio.asyncio = fake_pika.asyncio_shim()

import json as _json
_DECODER = _json.JSONDecoder()


class _JsonOnRealisedText(object):
    """`json` as seen by the two messaging modules: loads() parses the *realised* text with
    the C scanner.  In every path the options text of an address is concrete (only the name /
    subject in front of it are symbolic), so realising it selects exactly one value; where
    symbolic characters do reach the options text (parity_parse_address) every value inside
    the alphabet bound becomes its own path.  CrossHair's own symbolic JSON decoder costs
    ~1 s per address."""
    JSONDecodeError = _json.JSONDecodeError

    @staticmethod
    def loads(text, *a, **k):
        if isinstance(text, str):
            text = text.__str__()        # realises a symbolic str; identity natively
        return _DECODER.decode(text)

    dumps = staticmethod(_json.dumps)


blk.json = _JsonOnRealisedText
aio.json = _JsonOnRealisedText


class EngineExit(Exception):
    """EventDispatcher.start called sys.exit()."""


def _exit(code=0):
    raise EngineExit(code)


ed.sys = types.SimpleNamespace(exit=_exit, version_info=sys.version_info)

URL = "amqp://localhost:5672"
ALPHA = "aq-. "


def ok_text(s, alphabet=ALPHA):
    for ch in s:
        if ch not in alphabet:
            return False
    return True


def norm(x):
    """Rebuild a symbolic str argument character by character.  CrossHair 0.0.110 evaluates
    `derived == raw_argument` (slice/strip/split result on the left, raw symbolic str argument
    on the right) wrongly to False; list-backed strings compare correctly.  Identity natively."""
    return "".join([c for c in x])


IIDS = ["", "i1", "a-b.c"]
CFGS = [(False, "i1"), (True, "a-b.c"), (False, "")]     # (quorum, instance id) used by the routing conditions


def delim_free(text):
    """Any characters except the address grammar's own delimiters."""
    for ch in text:
        if ch == ";" or ch == "/" or ch == "{":
            return False
    return True


def M(aio_mod):
    return aio if aio_mod else blk


def await_(x):
    """Result of an API call of either module: coroutines are driven on the synchronous loop."""
    if hasattr(x, "send") and hasattr(x, "throw"):
        st, v = fake_pika.run(x)
        if st != "done":
            raise RuntimeError("coroutine blocked on an incomplete future")
        return v
    return x


def open_session(aio_mod, auto_ack=False):
    b = fake_pika.new_broker()
    m = M(aio_mod)
    c = m.Connection(URL)
    await_(c.open())
    s = await_(c.session(auto_ack=auto_ack))
    return b, c, s


def same(a, b):
    """Structural equality that does not depend on dict insertion order (CrossHair's dict
    proxies compare in order once a key has been re-assigned)."""
    if isinstance(a, dict) and isinstance(b, dict):
        if len(a) != len(b):
            return False
        for k in a:
            if k not in b or not same(a[k], b[k]):
                return False
        return True
    if isinstance(a, (list, tuple)) and isinstance(b, (list, tuple)):
        if len(a) != len(b):
            return False
        for x, y in zip(a, b):
            if not same(x, y):
                return False
        return True
    return a == b


def clean(frames):
    """Frames without the bound callback objects (not comparable across objects)."""
    out = []
    for (m, ch, a) in frames:
        a = {k: v for k, v in a.items() if k != "on_message_callback"}
        if "properties" in a:
            a["properties"] = a["properties"].as_dict()
        out.append((m, ch, a))
    return out


# =========================================================================== 1. address mapping

DECLARE0 = {"queue": "", "exchange": "", "exchange-type": "direct", "passive": False, "internal": False,
            "durable": False, "exclusive": False, "auto-delete": False, "arguments": None}
LINK_DECLARE0 = {"queue": "", "passive": False, "internal": False, "durable": False, "exclusive": True,
                 "auto-delete": True, "arguments": None}
LINK_SUBSCRIBE0 = {"exclusive": False, "arguments": None}

QUORUM = {"x-queue-type": "quorum"}
BIND1 = {"exchange": "amq.match", "queue": "myqueue", "key": "data1",
         "arguments": {"x-match": "all", "item-owner": "Sauron"}}
BIND2 = {"exchange": "amq.topic", "queue": "myqueue", "key": "a.*"}

# (json text, python value) - the text is what appears in the address, the value is what it describes
NODES = [
    (None, None),
    ('{"durable": true}', {"durable": True}),                                                    # engine, classic
    ('{"durable": true, "x-declare": {"arguments": {"x-queue-type": "quorum"}}}',
     {"durable": True, "x-declare": {"arguments": QUORUM}}),                                    # engine, quorum
    ('{"x-declare": {"durable": true, "exclusive": true, "auto-delete": true}}',
     {"x-declare": {"durable": True, "exclusive": True, "auto-delete": True}}),
    ('{"x-declare": {"exchange": "test-headers", "exchange-type": "headers", "durable": true, "auto-delete": true}}',
     {"x-declare": {"exchange": "test-headers", "exchange-type": "headers", "durable": True, "auto-delete": True}}),
    ('{"x-declare": {"exchange": "asl_workflow_engine", "exchange-type": "topic", "durable": true}}',
     {"x-declare": {"exchange": "asl_workflow_engine", "exchange-type": "topic", "durable": True}}),  # engine topic
    ('{"auto-delete": true}', {"auto-delete": True}),
    ('{"type": "queue", "x-declare": {"durable": true}}', {"type": "queue", "x-declare": {"durable": True}}),
    ('{"type": "topic", "x-declare": {"exchange-type": "fanout"}}', {"type": "topic", "x-declare": {"exchange-type": "fanout"}}),
    ('{"type": "queue", "x-declare": {"queue": "qq", "exchange": "ee"}}', {"type": "queue", "x-declare": {"queue": "qq", "exchange": "ee"}}),
    ('{"durable": true, "x-bindings": [' + '{"exchange": "amq.match", "queue": "myqueue", "key": "data1", "arguments": {"x-match": "all", "item-owner": "Sauron"}}'
     + ', {"exchange": "amq.topic", "queue": "myqueue", "key": "a.*"}]}', {"durable": True, "x-bindings": [BIND1, BIND2]}),
    ('{"durable": false, "auto-delete": false, "x-declare": {"durable": true, "passive": true, "arguments": {"x-max-length": 10}}}',
     {"durable": False, "auto-delete": False, "x-declare": {"durable": True, "passive": True, "arguments": {"x-max-length": 10}}}),
]
LINKS = [
    (None, None),
    ('{"x-subscribe": {"exclusive": true}}', {"x-subscribe": {"exclusive": True}}),              # engine, instance queue
    ('{"x-subscribe": {"arguments": {"x-priority": 10}}}', {"x-subscribe": {"arguments": {"x-priority": 10}}}),  # engine, reply queue
    ('{"x-declare": {"queue": "news-queue", "exclusive": false}}', {"x-declare": {"queue": "news-queue", "exclusive": False}}),
    ('{"x-declare": {"queue": "lq", "arguments": {"x-max-length": 10, "x-overflow": "reject-publish"}}, "x-subscribe": {"exclusive": true, "arguments": {"x-priority": 1}}}',
     {"x-declare": {"queue": "lq", "arguments": {"x-max-length": 10, "x-overflow": "reject-publish"}},
      "x-subscribe": {"exclusive": True, "arguments": {"x-priority": 1}}}),
]


def options_of(node, link):
    """(json text | None, {"node":..., "link":...})"""
    nt, nv = NODES[node]
    lt, lv = LINKS[link]
    parts = []
    val = {}
    if nt is not None:
        parts.append('"node": ' + nt); val["node"] = nv
    if lt is not None:
        parts.append('"link": ' + lt); val["link"] = lv
    if not parts:
        return None, val
    return "{" + ", ".join(parts) + "}", val


def build_address(form, sp, name, subject, opts):
    """form 0: name            1: name/subject      2: name; opts   3: name/subject; opts
            4: ; opts          5: opts (leading semicolon omitted)"""
    pad = " " if sp else ""
    if form == 0: return name
    if form == 1: return name + pad + "/" + pad + subject
    if form == 2: return name + ";" + " " + opts if not sp else name + " ; " + opts
    if form == 3: return name + pad + "/" + pad + subject + pad + "; " + opts
    if form == 4: return ";" + pad + opts
    return opts


def describe(form, name, subject, val):
    """What the address text describes, read off the grammar documented in
    Destination.parse_address.__doc__ (reference, written from the documentation)."""
    d = dict(DECLARE0); ld = dict(LINK_DECLARE0); ls = dict(LINK_SUBSCRIBE0); bindings = []
    nm = name.strip() if form in (0, 1, 2, 3) else ""
    sj = subject.strip() if form in (1, 3) else ""
    node = val.get("node") if form >= 2 else None
    link = val.get("link") if form >= 2 else None
    if node:
        xd = node.get("x-declare")
        if xd:
            d.update(xd)
            if nm:
                if node.get("type") == "queue" and not d["queue"]: d["queue"] = nm
                if node.get("type") == "topic" and not d["exchange"]: d["exchange"] = nm
            else:
                if node.get("type") == "queue": nm = d["queue"]
                if node.get("type") == "topic": nm = d["exchange"]
                if not nm: nm = d["exchange"]
                if not nm: nm = d["queue"]
        if node.get("durable"): d["durable"] = True
        if node.get("auto-delete"): d["auto-delete"] = True
        if node.get("x-bindings"): bindings = node["x-bindings"]
    if link:
        if link.get("x-declare"): ld.update(link["x-declare"])
        if link.get("x-subscribe"): ls.update(link["x-subscribe"])
    return {"name": nm, "subject": sj, "declare": d, "link_declare": ld, "link_subscribe": ls, "bindings": bindings}


def parsed(m, address):
    dst = m.Destination()
    dst.parse_address(address)
    return {"name": dst.name, "subject": dst.subject, "declare": dst.declare, "link_declare": dst.link_declare,
            "link_subscribe": dst.link_subscribe, "bindings": dst.bindings}


COMBOS = ([(n_, 0) for n_ in range(len(NODES))] + [(0, l_) for l_ in range(1, len(LINKS))]
          + [(1, 1), (2, 1), (1, 2), (2, 2)])      # the last four: instance / reply queue x classic / quorum, as the engine builds them
MODS = ["blocking", "asyncio"]


def _register(fn, name):
    fn.__name__ = fn.__qualname__ = name
    globals()[name] = fn
    return fn


def _make_address_grammar(aio_mod):
    @condition(timeout={"quick": 120, "thorough": 2400},
               bounds={"quick": {"NN": 1, "NS": 1}, "thorough": {"NN": 3, "NS": 1}},
               functions=["amqp_0_9_1_messaging%s.Destination.parse_address" % ("_asyncio" if aio_mod else ""), "Destination.__init__ (defaults)"],
               outside=["names/subjects/option string values containing the grammar's own delimiters ';' '/' '{' (the documented grammar has no quoting rule; e.g. a ';' inside a JSON string value makes parse_address drop the whole options map silently)",
                        "node 'type' given without an x-declare map (the documentation says type selects queue/topic, the code only looks at type inside the x-declare branch; the engine never builds such an address)",
                        "link name/durable/reliability and link x-bindings (documented but not implemented; unused by the engine)",
                        "node and link option maps other than the %d combinations of the pools NODES x LINKS listed in COMBOS" % len(COMBOS)])
    def address_grammar(form: int, sp: bool, name: str, subject: str, combo: int) -> bool:
        """
        requires: 0 <= form <= 5 and 0 <= combo < len(COMBOS)
        requires: len(name) <= @NN@ and len(subject) <= @NS@ and delim_free(name) and delim_free(subject)
        requires: form < 4 or combo > 0
        requires: form in (1, 3) or subject == ''
        requires: form in (0, 1, 2, 3) or name == ''
        requires: form >= 2 or combo == 0
        ensures: _
        """
        name = norm(name); subject = norm(subject)
        node, link = COMBOS[pick(list(range(len(COMBOS))), combo)]
        text, val = options_of(node, link)
        if text is None:
            text = "{}"
        addr = build_address(form, sp, name, subject, text)
        return same(parsed(M(aio_mod), addr), describe(form, name, subject, val))
    _register(address_grammar, "address_grammar_" + MODS[aio_mod])


_make_address_grammar(0); _make_address_grammar(1)


class _RecConsumer(object):
    def __init__(self, addr):
        self.address = addr
        self.name = addr
        self.capacity = 0

    def set_message_listener(self, cb):
        pass


class _RecSession(object):
    def __init__(self, log):
        self.log = log

    def consumer(self, addr=""):
        self.log.append(("consumer", addr)); return _RecConsumer(addr)

    def producer(self, addr=""):
        self.log.append(("producer", addr))
        return types.SimpleNamespace(set_return_callback=lambda cb: None)


def _rec_connection(log):
    class RecConnection(object):
        def __init__(self, url):
            pass

        def open(self):
            pass

        def session(self):
            return _RecSession(log)

        def set_timeout(self, cb, delay):
            return 0

        def clear_timeout(self, i):
            pass

        def start(self):
            pass

        def close(self):
            pass
    return RecConnection


TOPIC_CFG = '{"node": {"x-declare": {"exchange": "asl_workflow_engine", "exchange-type": "topic", "durable": true}}}'


def config(quorum, iid, impl="AMQP-0.9.1"):
    return {"event_queue": {"queue_name": "asl_workflow_events", "queue_type": "quorum" if quorum else "classic",
                            "instance_id": iid, "queue_implementation": impl, "connection_url": URL},
            "notifier": {"topic": TOPIC_CFG, "message_ttl": 0}}


def fake_state_engine():
    se = types.SimpleNamespace()
    se.notified = []
    se.history = []
    se.notify = lambda item, id, redelivered=False: se.notified.append((item, id, redelivered))
    se.heartbeat = lambda n: None
    se.machines = {}
    se.executions = {}
    se.asl_store = types.SimpleNamespace(get_cached_view=lambda arn: se.machines.get(arn))
    se.update_execution_history = lambda *a, **k: se.history.append(a[2])
    return se


def make_dispatchers(quorum, iid, aio_mod=False):
    se = fake_state_engine()
    cfg = config(quorum, iid, "AMQP-0.9.1-asyncio" if aio_mod else "AMQP-0.9.1")
    t = td.TaskDispatcher(se, cfg)
    se.task_dispatcher = t
    e = ed.EventDispatcher(se, cfg)     # also selects ed.Connection / ed.Message for the transport
    return se, t, e


def engine_addresses(quorum, iid):
    """The address strings the engine itself builds: the real EventDispatcher.start and
    TaskDispatcher.start run against a recording Connection/Session."""
    se, t, e = make_dispatchers(quorum, iid)
    log = []
    ed.Connection = _rec_connection(log)
    e.start()
    return [a for (_, a) in log]     # reply consumer, rpc producer, event producer, topic producer, shared, instance


def names(quorum, iid):
    qq = "-qq" if quorum else ""
    return {"shared": "asl_workflow_events" + qq, "instance": "asl_workflow_events" + qq + "-" + iid,
            "reply": "asl_workflow_reply_to" + qq + "-" + iid, "topic": "asl_workflow_engine"}


def plain_queue(name, quorum, sub_excl=False, sub_args=None):
    d = dict(DECLARE0); d["durable"] = True
    if quorum:
        d["arguments"] = {"x-queue-type": "quorum"}
    return {"name": name, "subject": "", "declare": d, "link_declare": dict(LINK_DECLARE0),
            "link_subscribe": {"exclusive": sub_excl, "arguments": sub_args}, "bindings": []}


@condition(timeout={"quick": 90, "thorough": 600},
           bounds={"quick": {"N": 2, "AL": "'a1-'"}, "thorough": {"N": 3, "AL": "'a1-_.'"}},
           functions=["EventDispatcher.start (address construction)", "TaskDispatcher.start (address construction)",
                      "Destination.parse_address (both modules)"],
           outside=["instance ids containing ';' '/' '\"' or a backslash (taken verbatim into the address text; the grammar has no quoting)"])
def address_engine_strings(aio_mod: bool, quorum: bool, iid: str) -> bool:
    """
    requires: len(iid) <= @N@ and ok_text(iid, @AL@)
    ensures: _
    """
    iid = norm(iid)
    a = engine_addresses(quorum, iid)
    if len(a) != 6:
        return False
    n = names(quorum, iid)
    m = M(aio_mod)
    topic = dict(DECLARE0); topic.update({"exchange": n["topic"], "exchange-type": "topic", "durable": True})
    want = [plain_queue(n["reply"], quorum, False, {"x-priority": 10}),
            {"name": "", "subject": "", "declare": dict(DECLARE0), "link_declare": dict(LINK_DECLARE0),
             "link_subscribe": dict(LINK_SUBSCRIBE0), "bindings": []},
            {"name": n["shared"], "subject": "", "declare": dict(DECLARE0), "link_declare": dict(LINK_DECLARE0),
             "link_subscribe": dict(LINK_SUBSCRIBE0), "bindings": []},
            {"name": n["topic"], "subject": "", "declare": topic, "link_declare": dict(LINK_DECLARE0),
             "link_subscribe": dict(LINK_SUBSCRIBE0), "bindings": []},
            plain_queue(n["shared"], quorum, False, None),
            plain_queue(n["instance"], quorum, True, None)]
    got = [parsed(m, x) for x in a]
    return same(got, want)


# =========================================================================== 2. frames


def start_engine(aio_mod, quorum, iid, script=None):
    """Real EventDispatcher.start / start_asyncio (+ TaskDispatcher.start*) over the fake broker.
    Blocking: `script` runs inside start_consuming, start() then closes the connection.
    Asyncio: start_asyncio blocks on connection.start(); `script` runs afterwards."""
    b = fake_pika.new_broker()
    stubs.SeqUUID.reset()
    se, t, e = make_dispatchers(quorum, iid, aio_mod)
    if aio_mod:
        st = fake_pika.run(e.start_asyncio())
        if st[0] != "blocked":
            raise RuntimeError("start_asyncio returned")
        if script: script(b, se, t, e)
        b.pump()
    else:
        b.on_start_consuming = (lambda ch: script(b, se, t, e)) if script else None
        e.start()
    return b, se, t, e


def qd(ch, name, quorum, durable=True, exclusive=False, auto_delete=False):
    return ("queue_declare", ch, {"queue": name, "passive": False, "durable": durable, "exclusive": exclusive,
                                  "auto_delete": auto_delete, "arguments": {"x-queue-type": "quorum"} if quorum else None})


def xd(ch, name, typ="direct", passive=False, durable=False, auto_delete=False):
    return ("exchange_declare", ch, {"exchange": name, "exchange_type": typ, "passive": passive, "durable": durable,
                                     "auto_delete": auto_delete, "internal": False, "arguments": None})


def qos(n):
    return ("basic_qos", 1, {"prefetch_size": 0, "prefetch_count": n, "global_qos": False})


def consume(name, exclusive=False, arguments=None):
    return ("basic_consume", 1, {"queue": name, "auto_ack": False, "exclusive": exclusive, "consumer_tag": None,
                                 "arguments": arguments})


def expected_start_frames(quorum, iid, blocking):
    """The frames the description calls for, in the order the engine sets things up.
    Channel 1 is the session's channel; every existence probe uses a fresh temporary channel."""
    n = names(quorum, iid)
    f = [qos(500), xd(2, n["reply"], passive=True), qd(1, n["reply"], quorum), qos(100),
         consume(n["reply"], False, {"x-priority": 10}),
         ("add_on_return_callback", 1, {}),
         xd(3, n["shared"], passive=True),                         # event producer: no such exchange -> default exchange
         xd(4, n["topic"], passive=True), xd(1, n["topic"], "topic", durable=True),
         qos(500), xd(5, n["shared"], passive=True), qd(1, n["shared"], quorum), qos(1000), consume(n["shared"], False, None),
         qos(500), xd(6, n["instance"], passive=True), qd(1, n["instance"], quorum), qos(1000), consume(n["instance"], True, None)]
    if blocking:
        f.append(("connection_close", 0, {}))
    return f


@condition(timeout={"quick": 90, "thorough": 600},
           bounds={"quick": {"N": 2, "AL": "'a1-'"}, "thorough": {"N": 3, "AL": "'a1-_.'"}},
           functions=["EventDispatcher.start", "EventDispatcher.start_asyncio", "TaskDispatcher.start", "TaskDispatcher.start_asyncio",
                      "amqp_0_9_1_messaging.Connection.open/session", "Session.consumer/producer", "Producer.__init__", "Consumer.__init__",
                      "Consumer.set_message_listener", "Consumer.capacity", "amqp_0_9_1_messaging_asyncio.make_future/Connection.open/Session.open/Producer.open/Consumer.open/set_message_listener (on the synchronous loop)"],
           outside=["asyncio transport: behaviour of make_future/Connection.open under a real event loop (reply arriving later, reconnect loop, on_close callbacks); here every broker reply completes the future at once"])
def frames_engine_start(aio_mod: bool, quorum: bool, iid: str) -> bool:
    """
    requires: len(iid) <= @N@ and ok_text(iid, @AL@)
    ensures: _
    """
    iid = norm(iid)
    b, se, t, e = start_engine(aio_mod, quorum, iid)
    n = names(quorum, iid)
    if not same(clean(b.frames), expected_start_frames(quorum, iid, not aio_mod)):
        return False
    if aio_mod:
        # broker state described by the addresses: three durable queues, one consumer each, the
        # instance consumer exclusive, the reply consumer prioritised, prefetch as configured
        qs = [(q.name, q.durable, q.exclusive, q.auto_delete, q.arguments) for q in b.queues]
        arg = {"x-queue-type": "quorum"} if quorum else None
        if not same(qs, [(n["reply"], True, False, False, arg), (n["shared"], True, False, False, arg), (n["instance"], True, False, False, arg)]):
            return False
        cs = [(c.queue, c.exclusive, c.arguments, c.prefetch, c.auto_ack) for c in b.consumers]
        if not same(cs, [(n["reply"], False, {"x-priority": 10}, 100, False), (n["shared"], False, None, 1000, False),
                         (n["instance"], True, None, 1000, False)]):
            return False
        x = b.exchange(n["topic"])
        return x is not None and x.type == "topic" and x.durable and b.bindings == []
    return True


@condition(timeout={"quick": 60, "thorough": 300},
           functions=["Consumer.set_message_listener (x-subscribe exclusive)", "fake broker: basic.consume exclusivity (403 ACCESS_REFUSED)"],
           outside=["competing engine instances that share an instance_id on a *real* broker (the 403 rule is the fake's model of RabbitMQ)"])
def instance_queue_single_consumer(aio_mod: bool, quorum: bool, second_exclusive: bool, which: int) -> bool:
    """
    requires: 0 <= which <= 2
    ensures: _
    """
    # A second consumer (exclusive or not) on the instance queue is refused; on the shared and
    # the reply queue a second plain consumer is accepted (other instances / other repliers).
    b, se, t, e = start_engine(True, quorum, "i1")       # keep the first engine's connection open
    n = names(quorum, "i1")
    qname = pick([n["instance"], n["shared"], n["reply"]], which)
    m = M(aio_mod)
    c2 = m.Connection(URL)
    await_(c2.open())
    s2 = await_(c2.session())
    x = ', "x-declare": {"arguments": {"x-queue-type": "quorum"}}' if quorum else ""
    addr = qname + '; {"node": {"durable": true' + x + '}' + (', "link": {"x-subscribe": {"exclusive": true}}' if second_exclusive else "") + "}"
    cons = await_(s2.consumer(addr))
    refused = False
    try:
        await_(cons.set_message_listener(lambda msg: None))
    except MessagingError:
        refused = True
    except fake_pika.ChannelClosedByBroker:
        refused = True
    count = len(b.consumers_of(qname))
    if which == 0 or second_exclusive:
        return refused and count == 1
    return (not refused) and count == 2


@condition(timeout={"quick": 90, "thorough": 600},
           bounds={"quick": {"N": 1, "AL": "'a-'"}, "thorough": {"N": 2, "AL": "'a-.'"}},
           functions=["Consumer.__init__/open: topic subscription (exchange declare, subscription queue, binding with subject as key)",
                      "Producer.__init__/open on an existing / declared exchange"],
           outside=["x-bindings given explicitly together with a subject; headers exchanges"])
def frames_topic_subscription(aio_mod: bool, name: str, subject: str, declare: bool, link: int) -> bool:
    """
    requires: 1 <= len(name) <= @N@ and 1 <= len(subject) <= @N@ and ok_text(name, @AL@) and ok_text(subject, @AL@ + '*')
    requires: link in (0, 3)
    ensures: _
    """
    name = norm(name); subject = norm(subject)
    # documented examples: "news-service/sports" (exchange must exist) and
    # 'news-service/sports; {"node": {"x-declare": {"exchange": "news-service", "exchange-type": "topic"}}[, "link": {...}]}'
    b, c, s = open_session(aio_mod)
    lt, lv = LINKS[pick([0, 3], 0 if link == 0 else 1)]
    if declare:
        opts = '{"node": {"x-declare": {"exchange": "' + name + '", "exchange-type": "topic"}}' + (', "link": ' + lt if lt else "") + "}"
        addr = name + "/" + subject + "; " + opts
    else:
        # the exchange has been created by somebody else
        ch = fake_pika.BlockingConnection().channel()
        ch.exchange_declare(name, "topic"); ch.close()
        addr = name + "/" + subject + ("; {\"link\": " + lt + "}" if lt else "")
    b.frames = []
    try:
        cons = await_(s.consumer(addr))
    except MessagingError:
        return False
    qn = lv["x-declare"]["queue"] if lv else "amq.gen-1"
    f = clean(b.frames)
    probe_ch = f[1][1]
    want = [qos(500), xd(probe_ch, name, passive=True)]
    if not declare:
        want.append(("channel_close", probe_ch, {}))
    if declare:
        want.append(xd(1, name, "topic"))
    want.append(("queue_declare", 1, {"queue": lv["x-declare"]["queue"] if lv else "", "passive": False, "durable": False,
                                      "exclusive": False if lv else True, "auto_delete": True, "arguments": None}))
    want.append(("queue_bind", 1, {"queue": lv["x-declare"]["queue"] if lv else "", "exchange": name, "routing_key": subject, "arguments": None}))
    return same(f, want) and cons.name == qn


# =========================================================================== 3. message mapping

def encodable(text):
    """No lone surrogates: every such str has a UTF-8 encoding (json.dumps output always has)."""
    for ch in text:
        if 0xD800 <= ord(ch) <= 0xDFFF:
            return False
    return True

def expected_props(msg, expiration):
    return {"content_type": msg.content_type, "content_encoding": msg.content_encoding, "headers": msg.properties,
            "delivery_mode": 2 if msg.durable else 1, "priority": msg.priority, "correlation_id": msg.correlation_id,
            "reply_to": msg.reply_to, "expiration": expiration, "message_id": msg.message_id, "timestamp": msg.timestamp,
            "type": msg.type, "user_id": msg.user_id, "app_id": msg.app_id, "cluster_id": msg.cluster_id}


def send_and_receive(aio_mod, target, msg, threadsafe=False):
    """Consumer on queue 'q', producer on `target`; returns (publish frames, received Messages, broker)."""
    b, c, s = open_session(aio_mod)
    cons = await_(s.consumer('q; {"node": {"durable": true}}'))
    got = []
    await_(cons.set_message_listener(lambda m_: got.append(m_)))
    prod = await_(s.producer(target))
    b.frames = []
    prod.send(msg, threadsafe)
    b.pump()
    return b.calls("basic_publish"), got, b


def received_equals(r, msg, body, subject, hdrs, durable):
    return (r.body == body.encode("utf-8") and r.subject == (subject if subject else None) and same(r.properties, hdrs)
            and r.content_type == msg.content_type and r.content_encoding == msg.content_encoding and r.durable == durable
            and r.priority == msg.priority and r.correlation_id == msg.correlation_id and r.reply_to == msg.reply_to
            and r.expiration is None and r.message_id == msg.message_id and r.timestamp == msg.timestamp and r.type == msg.type
            and r.user_id == msg.user_id and r.app_id == msg.app_id and r.cluster_id == msg.cluster_id and r.redelivered is False)


def _make_send_roundtrip(aio_mod, tgt):
    target = ["", "q"][tgt]     # "" = the rpc producer (default exchange); "q" = like the event producer: a queue name, no such exchange

    @condition(timeout={"quick": 90, "thorough": 900}, bounds={"quick": {"N": 1}, "thorough": {"N": 2}},
               functions=["Producer.send>publish (%s)" % MODS[aio_mod], "Message.__init__", "Message.subject", "Consumer.message_listener (%s)" % MODS[aio_mod],
                          "Producer.__init__/open: default-exchange fall back (404 on the probe)"],
               outside=["publisher confirms / enable_exceptions (unused by the engine)",
                        "message bodies that are not str (the engine always sends json.dumps text)"])
    def send_roundtrip(shape: int, body: str, subject: str, durable: bool, mandatory: bool) -> bool:
        """
        requires: 0 <= shape <= 3
        requires: len(body) <= @N@ and len(subject) <= @N@ and encodable(body)
        ensures: _
        """
        m = M(aio_mod)
        # shape 0: only body/subject; 1: every optional field present; 2: correlation id + reply-to + message id
        # (an RPC request / an event); 3: like 0 but sent with threadsafe=True (deferred to the connection's thread)
        if shape == 0 or shape == 3:
            msg = m.Message(body, durable=durable, mandatory=mandatory, subject=subject)
            hdrs = {}
        elif shape == 1:
            msg = m.Message(body, properties={"k": "v", "n": 1}, content_type="application/json", durable=durable, mandatory=mandatory,
                            correlation_id="c-1", reply_to="rq", message_id="m-1", subject=subject, content_encoding="utf-8",
                            priority=3, timestamp=1700000000, type="t", user_id="guest", app_id="app", cluster_id="c")
            hdrs = {"k": "v", "n": 1}
        else:
            msg = m.Message(body, content_type="application/json", durable=durable, mandatory=mandatory, correlation_id="c-1",
                            reply_to="rq", message_id="m-1", subject=subject)
            hdrs = {}
        pubs, got, b = send_and_receive(aio_mod, target, msg, shape == 3)
        if len(pubs) != 1:
            return False
        p = pubs[0]
        rk = subject if subject else target
        if subject: hdrs["x-amqp-0-9-1.subject"] = subject
        if not (p["exchange"] == "" and p["routing_key"] == rk and p["body"] == body and p["mandatory"] == mandatory):
            return False
        if not same(p["properties"].as_dict(), expected_props(msg, None)) or not same(p["properties"].headers, hdrs):
            return False
        # arrival: the message reaches the consumer of queue 'q' iff it was addressed to 'q', with every field intact
        if rk != "q":
            return got == []
        return len(got) == 1 and received_equals(got[0], msg, body, subject, hdrs, durable)
    _register(send_roundtrip, "send_roundtrip_%s_%s" % (MODS[aio_mod], ["default", "queue"][tgt]))


for _a in (0, 1):
    for _t in (0, 1):
        _make_send_roundtrip(_a, _t)


def _make_send_fields(aio_mod):
    @condition(timeout={"quick": 60, "thorough": 300}, bounds={"quick": {"N": 2}, "thorough": {"N": 3}},
               functions=["Producer.send>publish (%s): correlation id, reply-to, message id, content type, header values" % MODS[aio_mod],
                          "Consumer.message_listener (%s)" % MODS[aio_mod]],
               outside=["header keys are concrete ('k', 'x-amqp-0-9-1.subject'); only header values are symbolic"])
    def send_fields(corr: str, reply: str, mid: str, hv: str, ct: str) -> bool:
        """
        requires: len(corr) <= @N@ and len(reply) <= @N@ and len(mid) <= @N@ and len(hv) <= @N@ and len(ct) <= @N@
        ensures: _
        """
        m = M(aio_mod)
        msg = m.Message("{}", properties={"k": hv}, content_type=ct, correlation_id=corr, reply_to=reply, message_id=mid, subject="q")
        pubs, got, b = send_and_receive(aio_mod, "", msg, False)
        if len(pubs) != 1 or len(got) != 1:
            return False
        pr = pubs[0]["properties"]
        hdrs = {"k": hv, "x-amqp-0-9-1.subject": "q"}
        if not (pr.correlation_id == corr and pr.reply_to == reply and pr.message_id == mid and pr.content_type == ct and same(pr.headers, hdrs)):
            return False
        r = got[0]
        return (r.correlation_id == corr and r.reply_to == reply and r.message_id == mid and r.content_type == ct
                and same(r.properties, hdrs) and received_equals(r, msg, "{}", "q", hdrs, True))
    _register(send_fields, "send_fields_" + MODS[aio_mod])


_make_send_fields(0); _make_send_fields(1)


def send_expiration(aio_mod, exp):
    """Returns (expiration on the wire, expiration seen by the receiver, number delivered)."""
    m = M(aio_mod)
    msg = m.Message("x", expiration=exp)
    pubs, got, b = send_and_receive(aio_mod, "q", msg)
    if len(pubs) != 1:
        return ("pubs", len(pubs), None)
    return (pubs[0]["properties"].expiration, got[0].expiration if got else None, len(got))


EXP_RANGE = {"quick": (-3, 12), "thorough": (-20, 130)}


@condition(timeout={"quick": 90, "thorough": 600}, bounds={"quick": {"LO": -3, "HI": 12}, "thorough": {"LO": -20, "HI": 130}},
           functions=["Producer.send>publish: expiration clamp (both modules)"],
           outside=["integers outside the tier's range (each value in range is executed concretely: float() of a symbolic int is a real-valued symbolic float that CrossHair cannot close)"])
def expiration_int(aio_mod: bool, as_str: bool, n: int) -> bool:
    """
    requires: @LO@ <= n <= @HI@
    ensures: _
    """
    lo, hi = EXP_RANGE[vf.tier()]
    n = pick(list(range(lo, hi + 1)), n - lo)
    exp = str(n) if as_str else n
    wire, seen, delivered = send_expiration(aio_mod, exp)
    want = str(n) if n >= 0 else "0"
    return wire == want and seen == want and delivered == 1 and fake_pika.is_decimal_nonneg(wire)


INF = float("inf")
EXP_POOL = [None, 0.0, 1.5, 2.999, 1e3, 60000.0, 99999999000.0, -0.5, -1.0, -1e9, 1e22,
            "0", "15", "007", " 42 ", "1.5", "1e3", "-5", "-0.0", "", "abc", "12abc", "0x10", "1_000", "٣",
            float("nan"), "nan", True, False,
            INF, -INF, "inf", "-inf", "Infinity", "1e400"]
EXP_WANT = [None, "0", "1", "2", "1000", "60000", "99999999000", "0", "0", "0", "10000000000000000000000",
            "0", "15", "7", "42", "1", "1000", "0", "0", "0", "0", "0", "0", "1000", "3",
            "0", "0", "1", "0",
            "*", "0", "*", "0", "*", "*"]


def exp_is_infinite(i):
    """Region of the known finding: the pool entries whose float() is +/- infinity."""
    v = EXP_POOL[i]
    if v is None or isinstance(v, bool):
        return False
    try:
        f = float(v)
    except ValueError:
        return False
    return f == INF or f == -INF


EXP_INF_FROM = 29        # known-finding region of expiration_pool: `i >= EXP_INF_FROM`
assert all(exp_is_infinite(_i) == (_i >= EXP_INF_FROM) for _i in range(len(EXP_POOL))) and len(EXP_POOL) == len(EXP_WANT)


@condition(timeout={"quick": 60, "thorough": 300},
           functions=["Producer.send>publish: expiration clamp for float / str / None / NaN / infinite inputs (both modules)"],
           outside=["expiration values of types other than int/float/str/bool/None"])
def expiration_pool(aio_mod: bool, i: int) -> bool:
    """
    requires: 0 <= i < len(EXP_POOL)
    ensures: _
    """
    # statement: the expiration put on the wire is None (no expiry) or the decimal text of a
    # non-negative integer for EVERY input; a non-negative number arrives intact (truncated to
    # an integer), anything negative or non-numeric is clamped to "0" (documented in send())
    k = pick(list(range(len(EXP_POOL))), i)
    exp = EXP_POOL[k]; want = EXP_WANT[k]
    wire, seen, delivered = send_expiration(aio_mod, exp)
    if delivered != 1 or seen != wire:
        return False
    if exp is None:
        return wire is None
    if want == "*":      # +infinity: the text does not say which legal value; "never expires" (None) or any non-negative integer
        return wire is None or fake_pika.is_decimal_nonneg(wire)
    return fake_pika.is_decimal_nonneg(wire) and wire == want


def listen_once(aio_mod, method, props, body_bytes):
    b, c, s = open_session(aio_mod)
    cons = await_(s.consumer("q"))
    got = []
    await_(cons.set_message_listener(lambda m_: got.append(m_)))
    cons.message_listener(s.channel, method, props, body_bytes)
    return got, s.channel


def _make_listener_mapping(aio_mod):
    @condition(timeout={"quick": 60, "thorough": 300}, bounds={"quick": {"N": 2}, "thorough": {"N": 3}},
               functions=["Consumer.message_listener (%s): method frame / delivery mode / body -> Message" % MODS[aio_mod]],
               outside=["coroutine message listeners of the asyncio module (scheduled with create_task on a live loop)"])
    def listener_mapping(tag: int, redelivered: bool, mode: int, full: bool, body: str) -> bool:
        """
        requires: 0 <= mode <= 3 and len(body) <= @N@ and encodable(body)
        ensures: _
        """
        hdrs = {"x-amqp-0-9-1.subject": "s", "k": 1} if full else None
        o = (lambda v: v) if full else (lambda v: None)
        props = fake_pika.BasicProperties(content_type=o("application/json"), headers=hdrs, delivery_mode=pick([None, 1, 2, 3], mode),
                                          correlation_id=o("c"), reply_to=o("r"), message_id=o("m"), expiration=o("10"),
                                          priority=o(1), timestamp=o(5), type=o("t"), user_id=o("u"), app_id=o("a"), cluster_id=o("c"),
                                          content_encoding=o("e"))
        method = fake_pika.Basic.Deliver(consumer_tag="ct", delivery_tag=tag, redelivered=redelivered, exchange="", routing_key="q")
        got, chan = listen_once(aio_mod, method, props, body.encode("utf-8"))
        if len(got) != 1:
            return False
        r = got[0]
        return (r.body == body.encode("utf-8") and same(r.properties, hdrs if full else {}) and r.subject == o("s")
                and r.content_type == o("application/json") and r.content_encoding == o("e") and r.redelivered == redelivered
                and r.durable == (mode == 2) and r.priority == o(1) and r.correlation_id == o("c")
                and r.reply_to == o("r") and r.expiration == o("10") and r.message_id == o("m")
                and r.timestamp == o(5) and r.type == o("t") and r.user_id == o("u") and r.app_id == o("a") and r.cluster_id == o("c")
                and r._channel is chan and r._delivery_tag == tag and r.mandatory is False)
    _register(listener_mapping, "listener_mapping_" + MODS[aio_mod])

    @condition(timeout={"quick": 60, "thorough": 300}, bounds={"quick": {"N": 2}, "thorough": {"N": 3}},
               functions=["Consumer.message_listener (%s): string properties -> Message" % MODS[aio_mod]])
    def listener_fields(corr: str, reply: str, mid: str, exp: str, subj: str) -> bool:
        """
        requires: len(corr) <= @N@ and len(reply) <= @N@ and len(mid) <= @N@ and len(exp) <= @N@ and len(subj) <= @N@
        ensures: _
        """
        hdrs = {"x-amqp-0-9-1.subject": subj}
        props = fake_pika.BasicProperties(headers=hdrs, delivery_mode=2, correlation_id=corr, reply_to=reply, message_id=mid, expiration=exp)
        method = fake_pika.Basic.Deliver(consumer_tag="ct", delivery_tag=7, redelivered=False, exchange="", routing_key="q")
        got, chan = listen_once(aio_mod, method, props, b"{}")
        if len(got) != 1:
            return False
        r = got[0]
        return (r.correlation_id == corr and r.reply_to == reply and r.message_id == mid and r.expiration == exp and r.subject == subj
                and same(r.properties, hdrs) and r.body == b"{}" and r.durable is True and r.content_type is None)
    _register(listener_fields, "listener_fields_" + MODS[aio_mod])


_make_listener_mapping(0); _make_listener_mapping(1)


# =========================================================================== 4. acknowledge


class _RecChannel(object):
    def __init__(self):
        self.acks = []
        self.deferred = []
        self.connection = self

    def basic_ack(self, delivery_tag=0, multiple=False):
        self.acks.append((delivery_tag, multiple))

    def add_callback_threadsafe(self, cb):
        self.deferred.append(cb)

    _adapter_add_callback_threadsafe = add_callback_threadsafe


def ack_kernel(m, tag, multiple, threadsafe, via_session):
    ch = _RecChannel()
    msg = m.Message("b")
    msg._channel = ch
    msg._delivery_tag = tag
    if via_session:
        sess = m.Session.__new__(m.Session)
        sess.channel = ch
        sess.acknowledge(msg, threadsafe=threadsafe)
    else:
        msg.acknowledge(multiple=multiple, threadsafe=threadsafe)
    before = list(ch.acks)
    n_def = len(ch.deferred)
    for cb in ch.deferred:
        cb()
    return before, n_def, ch.acks


@condition(timeout={"quick": 40, "thorough": 120},
           functions=["Message.acknowledge>ack (both modules)", "Session.acknowledge(message) (both modules)"],
           outside=["Message.acknowledge(multiple=True) is the documented JMS-style 'acknowledge everything on the session' (basic_ack(0, multiple=True)); the engine never uses it - checked here only as 'honours the flag as documented'",
                    "delivery tag 0 (never assigned to a delivery; used for returned messages, which must not be acknowledged)"])
def acknowledge_kernel(aio_mod: bool, tag: int, multiple: bool, threadsafe: bool, via_session: bool) -> bool:
    """
    requires: tag >= 0
    ensures: _
    """
    before, n_def, acks = ack_kernel(M(aio_mod), tag, multiple, threadsafe, via_session)
    if threadsafe:
        if before != [] or n_def != 1:
            return False       # deferred to the connection's thread, exactly one callback
    if via_session or not multiple:
        # the engine's form: exactly this delivery and no other
        return acks == ([(tag, False)] if tag != 0 else [])
    return acks == [(0, True)]


@condition(timeout={"quick": 90, "thorough": 300}, bounds={"quick": {"K": 3}, "thorough": {"K": 4}},
           functions=["Consumer.message_listener", "Message.acknowledge(multiple=False)", "EventDispatcher.dispatch", "EventDispatcher.acknowledge",
                      "fake broker: basic.ack bookkeeping"])
def acknowledge_that_delivery_only(aio_mod: bool, quorum: bool, k: int, j: int, shared: bool) -> bool:
    """
    requires: 1 <= k <= @K@ and 0 <= j < k
    ensures: _
    """
    # k events are delivered to the engine (none acknowledged yet); the engine acknowledges the
    # j-th: at the broker exactly that delivery is settled, the other k-1 stay outstanding.
    k = pick(list(range(1, 5)), k - 1)
    j = pick(list(range(4)), j)
    out = {}

    def script(b, se, t, e):
        for i in range(k):
            e.publish({"n": i}, use_shared_queue=shared)
        b.pump()
        ids = [x[1] for x in se.notified]
        out["ids"] = ids
        out["before"] = [u[0] for u in e.session.channel._core.unacked]
        if len(ids) == k:
            e.acknowledge(ids[j])
        out["after"] = [u[0] for u in e.session.channel._core.unacked]
        out["acks"] = b.calls("basic_ack")
        out["left"] = list(e.unacknowledged_messages.keys())
    b, se, t, e = start_engine(aio_mod, quorum, "i1", script)
    tags = list(range(1, k + 1))
    if len(out["ids"]) != k or out["before"] != tags:
        return False
    tag = tags[j]
    return (same(out["acks"], [{"delivery_tag": tag, "multiple": False}]) and out["after"] == [x for x in tags if x != tag]
            and out["left"] == [x for x in out["ids"] if x != out["ids"][j]])


# =========================================================================== 5. transport parity (differential)


def outcome(fn):
    try:
        return ("ok", fn())
    except Exception as e:
        return ("raised", type(e).__name__)


SUFFIXES = ["", "}", ";x", " /"]
PARITY_COMBOS = [(0, 0), (2, 1), (5, 0), (9, 4), (10, 3)]


@condition(timeout={"quick": 90, "thorough": 900}, bounds={"quick": {"N": 2, "AL": "'a;/{'"}, "thorough": {"N": 3, "AL": "'a;/{'"}},
           functions=["Destination.parse_address: blocking vs asyncio on identical input (including malformed addresses)"])
def parity_parse_address(prefix: str, combo: int, with_opts: bool, suffix: int) -> bool:
    """
    requires: 0 <= combo < len(PARITY_COMBOS) and 0 <= suffix < len(SUFFIXES)
    requires: len(prefix) <= @N@ and ok_text(prefix, @AL@)
    ensures: _
    """
    prefix = norm(prefix)
    node, link = PARITY_COMBOS[pick(list(range(len(PARITY_COMBOS))), combo)]
    text, val = options_of(node, link)
    addr = prefix + ((";" + text) if (with_opts and text) else "") + pick(SUFFIXES, suffix)
    return same(outcome(lambda: parsed(blk, addr)), outcome(lambda: parsed(aio, addr)))


def send_kernel(m, aio_mod, target, body, subject, exp, durable, mandatory, corr, threadsafe):
    def go():
        msg = m.Message(body, expiration=exp, durable=durable, mandatory=mandatory, correlation_id=corr, subject=subject,
                        reply_to="r", message_id="m", content_type="application/json")
        pubs, got, b = send_and_receive(aio_mod, target, msg, threadsafe)
        return ([(p["exchange"], p["routing_key"], p["body"], p["mandatory"], p["properties"].as_dict()) for p in pubs],
                [(r.body, r.properties, r.expiration, r.correlation_id, r.reply_to, r.message_id, r.durable, r.redelivered, r._delivery_tag) for r in got])
    return outcome(go)


TARGETS = ["", "q", "amq.topic/q", "amq.fanout"]


@condition(timeout={"quick": 90, "thorough": 600}, bounds={"quick": {"N": 1}, "thorough": {"N": 2}},
           functions=["Producer.__init__/open + send>publish + Consumer.message_listener: blocking vs asyncio on identical input"])
def parity_send_fields(tgt: int, body: str, subject: str, durable: bool, mandatory: bool, corr: str) -> bool:
    """
    requires: 0 <= tgt < len(TARGETS) and len(body) <= @N@ and len(subject) <= @N@ and len(corr) <= @N@
    requires: encodable(body)
    ensures: _
    """
    target = pick(TARGETS, tgt)
    return same(send_kernel(blk, False, target, body, subject, None, durable, mandatory, corr, False),
                send_kernel(aio, True, target, body, subject, None, durable, mandatory, corr, False))


@condition(timeout={"quick": 60, "thorough": 300},
           functions=["Producer.send>publish expiration mapping: blocking vs asyncio on identical input (including the inputs on which send raises)"])
def parity_send_expiration(e: int, threadsafe: bool) -> bool:
    """
    requires: 0 <= e < len(EXP_POOL)
    ensures: _
    """
    exp = EXP_POOL[pick(list(range(len(EXP_POOL))), e)]
    return same(send_kernel(blk, False, "q", "x", "", exp, True, False, "c", threadsafe),
                send_kernel(aio, True, "q", "x", "", exp, True, False, "c", threadsafe))


@condition(timeout={"quick": 40, "thorough": 120},
           functions=["Message.acknowledge / Session.acknowledge: blocking vs asyncio on identical input"])
def parity_acknowledge(tag: int, multiple: bool, threadsafe: bool, via_session: bool) -> bool:
    """
    requires: True
    ensures: _
    """
    return ack_kernel(blk, tag, multiple, threadsafe, via_session) == ack_kernel(aio, tag, multiple, threadsafe, via_session)


@condition(timeout={"quick": 90, "thorough": 600},
           functions=["EventDispatcher.start vs start_asyncio, publish, broadcast, TaskDispatcher.start vs start_asyncio: frames on the wire of the two transports"])
def parity_engine_frames(cfg: int, shared: bool) -> bool:
    """
    requires: 0 <= cfg < len(CFGS)
    ensures: _
    """
    quorum, iid = pick(CFGS, cfg)

    def script(b, se, t, e):
        e.publish({"a": 1}, use_shared_queue=shared)
        e.broadcast("s.t", {"detail": 1})
    b1, se1, _, _ = start_engine(False, quorum, iid, script)
    b2, se2, _, _ = start_engine(True, quorum, iid, script)
    f1 = [f for f in clean(b1.frames) if f[0] != "connection_close"]
    return same(f1, clean(b2.frames)) and same(se1.notified, se2.notified) and len(se1.notified) == 1


DELAYS = [-5, -1, 0, 1, 999, 1000, 2500, 1500.5, 99999999000.0]


@condition(timeout={"quick": 40, "thorough": 120},
           functions=["Connection.set_timeout / clear_timeout (both modules): ms -> s, negative delays clamped to 0"])
def set_timeout_mapping(aio_mod: bool, i: int, clear: bool) -> bool:
    """
    requires: 0 <= i < len(DELAYS)
    ensures: _
    """
    b, c, s = open_session(aio_mod)
    d = pick(DELAYS, i)
    fired = []
    tid = c.set_timeout(lambda: fired.append(1), d)
    timers = [(t[1]) for t in c.connection.timers]
    if timers != [max(d, 0) / 1000]:
        return False
    if clear:
        c.clear_timeout(tid)
    c.connection.fire_timers()
    return fired == ([] if clear else [1])


# =========================================================================== 6. routing decisions in the engine


@condition(timeout={"quick": 90, "thorough": 600},
           functions=["EventDispatcher.publish", "EventDispatcher.dispatch", "Producer.send (event producer)", "Consumer.message_listener"],
           outside=["which of several instances consuming the shared queue receives a start event (whole-run affinity is checked by the schedule harness)",
                    "(queue type, instance id) other than the three CFGS pool values (symbolic ids are covered by frames_engine_start / address_engine_strings)"])
def publish_routing(aio_mod: bool, cfg: int, first_shared: bool, second_shared: bool, threadsafe: bool) -> bool:
    """
    requires: 0 <= cfg < len(CFGS)
    ensures: _
    """
    quorum, iid = pick(CFGS, cfg)

    def script(b, se, t, e):
        e.publish({"n": 1}, threadsafe, use_shared_queue=first_shared)
        e.publish({"n": 2}, threadsafe, use_shared_queue=second_shared)
    b, se, t, e = start_engine(aio_mod, quorum, iid, script)
    n = names(quorum, iid)
    pubs = b.calls("basic_publish")
    if len(pubs) != 2:
        return False
    want_q = [n["shared"] if first_shared else n["instance"], n["shared"] if second_shared else n["instance"]]
    ids = ["u000001", "u000002"]             # the two values uuid4() handed out: fresh and distinct per publish
    for p, q, i, body in zip(pubs, want_q, ids, ['{"n": 1}', '{"n": 2}']):
        pr = p["properties"]
        if not (p["exchange"] == "" and p["routing_key"] == q and p["body"] == body and pr.message_id == i
                and same(pr.headers, {"x-amqp-0-9-1.subject": q}) and pr.content_type == "application/json"
                and pr.delivery_mode == 2 and pr.expiration is None and pr.reply_to is None and pr.correlation_id is None):
            return False
    # each event was delivered from exactly the queue it was addressed to, to this instance's consumer of it
    # (the broker serves the shared queue before the instance queue; within a queue FIFO)
    order = [0, 1] if (first_shared or not second_shared) else [1, 0]
    dl = [(d.queue, d.msg.properties.message_id) for d in b.deliveries]
    if dl != [(want_q[i], ids[i]) for i in order]:
        return False
    return same(se.notified, [({"n": i + 1}, ids[i], False) for i in order])


SM_ARN = "arn:aws:states:local:0123456789:stateMachine:parent"
CHILD_ARN = "arn:aws:states:local:0123456789:stateMachine:child"
EX_ARN = "arn:aws:states:local:0123456789:execution:parent:e1"
TIMEOUTS = [0, 2500.75, 99999999000.0]


def task_context():
    return {"Execution": {"Id": EX_ARN, "Name": "e1"}, "State": {"Name": "T"}, "StateMachine": {"Id": SM_ARN}, "Tracer": {}}


def _make_rpc(aio_mod):
    @condition(timeout={"quick": 90, "thorough": 900}, bounds={"quick": {"N": 1, "AL": "'f1'", "EL": "'e9'"}, "thorough": {"N": 2, "AL": "'f1'", "EL": "'e9'"}},
               functions=["TaskDispatcher.execute_task>asl_service_rpcmessage", "asl_service_states (rpcmessage:invoke dispatch)", "TaskDispatcher.start" + ("_asyncio" if aio_mod else ""),
                          "Producer.send (rpc producer, %s)" % MODS[aio_mod], "Consumer.message_listener (reply consumer)", "arn.parse_arn"],
               outside=["handling of the reply after it has reached this instance's reply listener (C16)", "redelivered Task events (no request is sent)",
                        "function names containing ':' or '/' (ARN syntax)"])
    def rpc_request_routing(cfg: int, form: int, fname: str, eid: str, to: int) -> bool:
        """
        requires: 0 <= form <= 2 and 0 <= to < len(TIMEOUTS) and 0 <= cfg < len(CFGS)
        requires: 1 <= len(fname) <= @N@ and ok_text(fname, @AL@) and 1 <= len(eid) <= @N@ and ok_text(eid, @EL@)
        ensures: _
        """
        fname = norm(fname); eid = norm(eid)
        quorum, iid = pick(CFGS, cfg)
        timeout = pick(TIMEOUTS, to)
        replies = []
        out = {}

        def script(b, se, t, e):
            se.machines[SM_ARN] = {"type": "STANDARD", "name": "parent"}
            # a worker listening on the queue named by the function: it answers to reply_to with the correlation id
            wc = fake_pika.BlockingConnection().channel()
            wc.queue_declare(fname)

            def worker(ch, method, props, body):
                out["request"] = (method.routing_key, props.as_dict(), body)
                wc.basic_publish("", props.reply_to, b'{"ok": 1}', fake_pika.BasicProperties(correlation_id=props.correlation_id))
                wc.basic_ack(method.delivery_tag)
            wc.basic_consume(fname, worker)
            mark = len(b.frames)
            if form == 0:
                arn = "arn:aws:rpcmessage:local::function:" + fname
                params = {"x": 1}
            else:
                arn = "arn:aws:states:local::rpcmessage:" + ("invoke" if form == 1 else "invoke.waitForTaskToken")
                params = {"FunctionName": "arn:aws:rpcmessage:local::function:" + fname, "Payload": {"x": 1}}
            t.execute_task(arn, params, lambda r: None, timeout, True, task_context(), eid, False)
            out["pubs"] = [a for (m_, ch, a) in b.frames[mark:] if m_ == "basic_publish"]
            out["reply_name"] = t.reply_to.name
            out["pending"] = list(t.pending_requests.keys())

        # the reply listener is observed, not executed (its semantics belong to C16)
        orig = td.TaskDispatcher.handle_rpcmessage_response
        td.TaskDispatcher.handle_rpcmessage_response = lambda self, message: replies.append((message.correlation_id, message.body))
        try:
            b, se, t, e = start_engine(aio_mod, quorum, iid, script)
        finally:
            td.TaskDispatcher.handle_rpcmessage_response = orig
        n = names(quorum, iid)
        cid = eid + pick(["", ".invoke", ".waitForTaskToken"], form)
        if len(out["pubs"]) != 1 or out["reply_name"] != n["reply"] or out["pending"] != [cid]:
            return False
        p = out["pubs"][0]
        pr = p["properties"]
        if not (p["exchange"] == "" and p["routing_key"] == fname and p["mandatory"] is True and p["body"] == '{"x": 1}'
                and pr.reply_to == n["reply"] and pr.correlation_id == cid and pr.expiration == str(int(timeout))
                and pr.content_type == "application/json" and same(pr.headers, {"x-amqp-0-9-1.subject": fname})):
            return False
        # the request arrived at the function's queue and the worker's answer came back to this instance's reply consumer
        if out.get("request", (None,))[0] != fname or out["request"][1]["reply_to"] != n["reply"]:
            return False
        return replies == [(cid, b'{"ok": 1}')] and [d.queue for d in b.deliveries] == [fname, n["reply"]]
    _register(rpc_request_routing, "rpc_request_routing_" + MODS[aio_mod])


_make_rpc(0); _make_rpc(1)

RESOURCES = ["states:startExecution", "states:startExecution.sync", "states:startExecution.sync:2",
             "states:startExecution.waitForTaskToken", "aws-sdk:sfn:startSyncExecution"]


@condition(timeout={"quick": 90, "thorough": 600},
           functions=["TaskDispatcher.execute_task>asl_service_states>asl_service_states_startExecution", "EventDispatcher.publish (child start event)"],
           outside=["the child execution itself and the completion signal back to the parent (C06/C16)"])
def child_execution_routing(aio_mod: bool, cfg: int, res: int, named: bool) -> bool:
    """
    requires: 0 <= res < len(RESOURCES) and 0 <= cfg < len(CFGS)
    ensures: _
    """
    quorum, iid = pick(CFGS, cfg)
    res = pick(list(range(len(RESOURCES))), res)
    resource = RESOURCES[res]
    out = {"cb": []}

    def script(b, se, t, e):
        se.machines[SM_ARN] = {"type": "STANDARD", "name": "parent"}
        se.machines[CHILD_ARN] = {"type": "EXPRESS" if res == 4 else "STANDARD", "name": "child", "roleArn": "r"}
        params = {"StateMachineArn": CHILD_ARN, "Input": {"v": 1}}
        if named:
            params["Name"] = "kid"
        mark = len(b.frames)
        t.execute_task("arn:aws:states:local:0123456789:" + resource, params, lambda r: out["cb"].append(r), 60000.0, True,
                       task_context(), "ev1", False)
        out["pubs"] = [a for (m_, ch, a) in b.frames[mark:] if m_ == "basic_publish"]
    b, se, t, e = start_engine(aio_mod, quorum, iid, script)
    n = names(quorum, iid)
    if len(out["pubs"]) != 1:
        return False
    p = out["pubs"][0]
    fire_and_forget = (res == 0)
    want_q = n["shared"] if fire_and_forget else n["instance"]
    if not (p["exchange"] == "" and p["routing_key"] == want_q and same(p["properties"].headers, {"x-amqp-0-9-1.subject": want_q})):
        return False
    # the start event of the child came back through that queue to an engine's dispatch()
    child_ex = "arn:aws:states:local:0123456789:execution:child:" + ("kid" if named else "ev1")
    if [d.queue for d in b.deliveries] != [want_q] or len(se.notified) != 1:
        return False
    item = se.notified[0][0]
    if item["context"]["Execution"]["Id"] != child_ex or not same(item["data"], {"v": 1}) or item["context"]["State"]["Name"] != "":
        return False
    return (len(out["cb"]) == 1 and out["cb"][0]["executionArn"] == child_ex) if fire_and_forget else out["cb"] == []


# ---------------------------------------------------------------------------
# Whole-run instance affinity over the simulated broker (see c19_affinity.py)
# ---------------------------------------------------------------------------
import c19_affinity as _aff
_aff.register(globals())


# ---------------------------------------------------------------------------
# "acknowledging a message acknowledges that delivery and no other", at the engine's own call sites: whole runs over
# the simulated broker, whose Message.acknowledge has the transports' default multiple=True, watched by the
# multiple-ack monitor (a settle of any delivery other than the acknowledged one is a violation)
# ---------------------------------------------------------------------------
import s2_found as _found
_found.register(globals(), {"C19", "C03"}, ["orphan_dropped_beside_waiting"])
globals()["orphan_dropped_beside_waiting"].__module__ = __name__
import vh_c15 as _c15


@condition(timeout={"quick": 300, "thorough": 900},
           functions=["TaskDispatcher.handle_rpcmessage_response (every acknowledge call site: reply, ignored reply of a callback Task, duplicate/late callback)", "EventDispatcher.acknowledge"],
           note="callback Task streams (valid token, duplicate, forged then valid, ordinary reply first) beside the Task's own outstanding event")
def ack_settles_only_that_delivery(stream: int, c0: int, c1: int, c2: int, c3: int) -> str:
    """
    requires: 0 <= stream < 4
    ensures: _ == ""
    """
    return _c15._cb_scenario({"C19", "C03"}, stream, c0, c1, c2, c3)
