"""C01 - executions compute what the Amazon States Language prescribes (canonical schedule)."""
import copy, json
import vf; vf.setup_paths()
from vf.api import condition
from vf import stubs
from vf.stubs import pick
from vf.ref import asl_step as ref
from asl_workflow_engine import state_engine as se

PROPERTY = "C01"
ASSUMPTIONS = [
    "oracle: vf/ref/asl_step.py, a reference interpreter written from the States Language specification (InputPath -> Parameters -> work -> ResultSelector -> ResultPath -> OutputPath, Next/End, Choice first match else Default, Fail Error, Parallel/Map results in branch/item order)",
    "canonical schedule (stubs.run_fifo): events handled in publication order, task replies delivered immediately, timers fired at once on the virtual clock; other schedules are C02-C06's subject",
    "machines are drawn from selector-built families (field presence flags, path pool, End/Next); documents have a fixed shape with small symbolic leaves (ints 0..2) and presence flags",
    "error *names* are compared for Fail states and task errors; for path/intrinsic runtime failures only FAILED vs SUCCEEDED is compared (the name is C12/C13's subject)",
    "json codec = stubs.FastJson: arguments are realised (as CrossHair does at any C boundary) and the real codec then runs outside the tracer (CrossHair's pure-Python JSON model costs ~1 s per document); documents are small so realisation is finite; recording dispatcher stubs, clock/uuid/logger stubs",
]
RES = "arn:aws:rpcmessage:local::function:f"
IPATHS = ["ABSENT", "$", "$.a", "$.a.b", "$.zz", None]
RPATHS = ["ABSENT", "$", None, "$.r", "$.a.r"]
OPATHS = ["ABSENT", "$", "$.a", "$.r", None]
PARAMS = ["ABSENT", {"k.$": "$.a", "lit": 1}, {"n": {"m.$": "$"}, "e.$": "$$.Execution.Name"}, {"q.$": "$.zz"}]
RSEL = ["ABSENT", {"v.$": "$.val"}, {"w": 7}]


def mkdoc(x, has_a, has_b):
    x = pick([0, 1, 2, 3], x)          # concrete per path: one fork here instead of one per use
    d = {"x": x}
    if has_a:
        d["a"] = {"b": x + 1, "c": [x]} if has_b else {"c": [x]}
    return d


def setf(state, name, v):
    if v != "ABSENT":
        state[name] = copy.deepcopy(v)


def run_engine(asl, data, task_reply):
    eng, log = stubs.make_engine(asl)
    stubs.install_fast_json(se)
    ev = {"data": copy.deepcopy(data), "context": {"StateMachine": {"Id": stubs.SM_ARN}, "Execution": {"Name": "e1"}}}
    bcs = stubs.run_fifo(eng, log, ev, task_reply)
    terms = [cw["detail"] for _, cw in bcs if cw["detail"]["status"] != "RUNNING"]
    if len(terms) != 1:
        return ("?", len(terms))
    d = terms[0]
    if d["status"] == "SUCCEEDED":
        return ("SUCCEEDED", stubs.FastJson.loads(d["output"]))
    return ("FAILED", d.get("error"))


def agree(got, want, exact_error=True):
    if want[0] == "SUCCEEDED":
        return got[0] == "SUCCEEDED" and stubs.same(got[1], want[1])
    if got[0] != "FAILED":
        return False
    if want[1] in ("States.Runtime", "States.ResultPathMatchFailure"):
        return isinstance(got[1], str) and got[1].startswith("States.")
    return got[1] == want[1]


def ctx_for():
    return {"Execution": {"Name": "e1", "Id": stubs.EX_ARN}}


def in_band_error(data):
    return isinstance(data, dict) and bool(data.get("Error"))


def _pass(ip, pm, rp, op, has_result, end, x, has_a, has_b):
    st = {"Type": "Pass"}
    setf(st, "InputPath", pick(IPATHS, ip)); setf(st, "Parameters", pick(PARAMS, pm))
    setf(st, "ResultPath", pick(RPATHS, rp)); setf(st, "OutputPath", pick(OPATHS, op))
    if has_result:
        st["Result"] = {"res": 1}
    if end:
        st["End"] = True
    else:
        st["Next"] = "S"
    asl = {"StartAt": "P", "States": {"P": st, "S": {"Type": "Succeed"}}}
    data = mkdoc(x, has_a, has_b)
    want = ref.run(asl, copy.deepcopy(data), ctx_for(), None)
    got = run_engine(asl, data, None)
    return agree(got, want)


PASS_F = ["asl_state_Pass", "apply_path", "evaluate_payload_template", "merge_result", "change_state", "handle_terminal_state", "end_execution"]


@condition(timeout={"quick": 300, "thorough": 900}, functions=PASS_F)
def pass_input_side(ip: int, pm: int, has_result: bool, x: int, has_a: bool, has_b: bool) -> bool:
    """
    requires: 0 <= ip < 6 and 0 <= pm < 4 and 0 <= x <= 1
    ensures: _
    """
    return _pass(ip, pm, 3, 0, has_result, False, x, has_a, has_b)


@condition(timeout={"quick": 300, "thorough": 900}, functions=PASS_F)
def pass_output_side(rp: int, op: int, has_result: bool, end: bool, x: int, has_a: bool) -> bool:
    """
    requires: 0 <= rp < 5 and 0 <= op < 5 and 0 <= x <= 1
    ensures: _
    """
    return _pass(0, 0, rp, op, has_result, end, x, has_a, True)


@condition(timeout={"quick": 300, "thorough": 900}, functions=PASS_F)
def pass_all_stages(ip: int, pm: int, rp: int, op: int, end: bool, has_a: bool) -> bool:
    """
    requires: ip in (0, 2, 3) and pm in (0, 1, 2) and rp in (0, 3, 4) and op in (0, 2, 3)
    ensures: _
    """
    return _pass(ip, pm, rp, op, False, end, 1, has_a, True)


def _task(ip, pm, rs, rp, op, fail, ei, end, x, has_a):
    st = {"Type": "Task", "Resource": RES}
    setf(st, "InputPath", pick(IPATHS, ip)); setf(st, "Parameters", pick(PARAMS, pm)); setf(st, "ResultSelector", pick(RSEL, rs))
    setf(st, "ResultPath", pick(RPATHS, rp)); setf(st, "OutputPath", pick(OPATHS, op))
    if end:
        st["End"] = True
    else:
        st["Next"] = "S"
    asl = {"StartAt": "T", "States": {"T": st, "S": {"Type": "Succeed"}}}
    data = mkdoc(x, has_a, True)
    err = pick(["Boom", "States.TaskFailed", "Custom.Error"], ei)

    def task_ref(resource, params):
        return ("err", err) if fail else ("ok", {"val": params, "r": 5})

    def task_real(resource, params):
        return {"errorType": err, "errorMessage": "m"} if fail else {"val": params, "r": 5}
    want = ref.run(asl, copy.deepcopy(data), ctx_for(), task_ref)
    got = run_engine(asl, data, task_real)
    return agree(got, want)


TASK_F = ["asl_state_Task_delegate (+ on_response)", "evaluate_payload_template (Parameters, ResultSelector)", "merge_result", "handle_error (unhandled error)"]


@condition(timeout={"quick": 300, "thorough": 900}, functions=TASK_F)
def task_input_side(ip: int, pm: int, fail: bool, ei: int, x: int, has_a: bool) -> bool:
    """
    requires: ip in (0, 2, 4, 5) and pm in (0, 1, 2, 3) and 0 <= ei < 3 and 0 <= x <= 1
    ensures: _
    """
    return _task(ip, pm, 0, 3, 0, fail, ei, False, x, has_a)


@condition(timeout={"quick": 300, "thorough": 900}, functions=TASK_F)
def task_output_side(rs: int, rp: int, op: int, end: bool, x: int, has_a: bool) -> bool:
    """
    requires: 0 <= rs < 3 and 0 <= rp < 5 and op in (0, 2, 3, 4) and 0 <= x <= 1
    ensures: _
    """
    return _task(0, 0, rs, rp, op, False, 0, end, x, has_a)


@condition(timeout={"quick": 300, "thorough": 600}, functions=["asl_state_Choice", "asl_state_Fail", "asl_state_Succeed", "asl_state_Wait"])
def choice_fail_wait(x: int, t1: int, has_default: bool, has_err: bool, has_cause: bool, ip: int, op: int) -> bool:
    """
    requires: 0 <= x <= 2 and 0 <= t1 <= 2 and ip in (0, 2, 4) and op in (0, 2)
    ensures: _
    """
    t1 = pick([0, 1, 2], t1)
    ch = {"Type": "Choice", "Choices": [{"Variable": "$.x", "NumericGreaterThan": t1, "Next": "W"},
                                         {"Variable": "$.x", "NumericEquals": 0, "Next": "F"}]}
    if has_default:
        ch["Default"] = "S"
    w = {"Type": "Wait", "Seconds": 1, "Next": "S"}
    setf(w, "InputPath", pick(IPATHS, ip)); setf(w, "OutputPath", pick(OPATHS, op))
    f = {"Type": "Fail"}
    if has_err: f["Error"] = "MyError"
    if has_cause: f["Cause"] = "because"
    asl = {"StartAt": "C", "States": {"C": ch, "W": w, "F": f, "S": {"Type": "Succeed"}}}
    data = mkdoc(x, True, True)
    want = ref.run(asl, copy.deepcopy(data), ctx_for(), None)
    got = run_engine(asl, data, None)
    return agree(got, want)


@condition(timeout={"quick": 300, "thorough": 900}, functions=["asl_state_Parallel_delegate", "asl_state_Map_delegate", "asl_state_collect_results", "find_state"])
def fanout(kind: int, n: int, ip: int, rp: int, op: int, sel: bool, fail_at: int, x: int) -> bool:
    """
    requires: 0 <= kind < 2 and 0 <= n <= 2 and ip in (0, 1) and rp in (0, 2, 3) and op in (0, 3) and -1 <= fail_at < 2 and 0 <= x <= 1
    requires: (kind == 1 or (n == 0 and not sel))
    ensures: _
    """
    if kind == 0:
        st = {"Type": "Parallel", "Branches": [
            {"StartAt": "A", "States": {"A": {"Type": "Pass", "Result": "a", "ResultPath": "$.m", "End": True}}},
            {"StartAt": "B", "States": {"B": {"Type": "Task", "Resource": RES, "Next": "B2"}, "B2": {"Type": "Pass", "End": True}}}]}
        data = {"x": x, "items": [], "sub": {"x": x, "s": 1}}
    else:
        st = {"Type": "Map", "ItemsPath": "$.items", "MaxConcurrency": 1,
              "Iterator": {"StartAt": "I", "States": {"I": {"Type": "Task", "Resource": RES, "End": True}}}}
        if sel:
            st["ItemSelector"] = {"it.$": "$$.Map.Item.Value", "ix.$": "$$.Map.Item.Index", "top.$": "$.x"}
        data = {"x": x, "items": [{"i": k + x} for k in range(n)], "sub": {"x": x, "items": [{"i": k + x + 5} for k in range(n)]}}
    if ip == 1:
        st["InputPath"] = "$.sub"
    setf(st, "ResultPath", pick(RPATHS, rp)); setf(st, "OutputPath", pick(OPATHS, op))
    st["Next"] = "Z"
    asl = {"StartAt": "F", "States": {"F": st, "Z": {"Type": "Pass", "Result": "z", "ResultPath": "$.z", "End": True}}}
    calls = [0]

    def outcome(params):
        k = calls[0]; calls[0] += 1
        return k == fail_at

    def task_ref(resource, params):
        return ("err", "Boom") if outcome(params) else ("ok", {"echo": params})

    def task_real(resource, params):
        return {"errorType": "Boom", "errorMessage": "m"} if outcome(params) else {"echo": params}
    want = ref.run(asl, copy.deepcopy(data), ctx_for(), task_ref)
    calls[0] = 0
    got = run_engine(asl, data, task_real)
    return agree(got, want)


@condition(timeout={"quick": 300, "thorough": 900}, functions=["asl_state_Map_delegate", "asl_state_collect_results (MaxConcurrency batches; a last batch shorter than MaxConcurrency)"],
           outside=["Maps longer than 3 items in this condition (batch arithmetic on long lists: C05's one-step kernels)"])
def fanout_map_batches(n: int, mc: int, fail_at: int, caught: bool, x: int) -> bool:
    """
    requires: 1 <= n <= 3 and 0 <= mc <= 4 and -1 <= fail_at < 3 and 0 <= x <= 1
    ensures: _
    """
    # outcome and error name of a Map whose MaxConcurrency does not divide the item count (or exceeds it), with one
    # failing iteration anywhere - also in the short last batch - and optionally a Catcher on the Map state
    n = stubs.cint(n, 1, 3); mc = stubs.cint(mc, 0, 4); fail_at = stubs.cint(fail_at, -1, 2); x = stubs.cint(x, 0, 1)
    caught = stubs.cbool(caught)
    from vf import s2 as _s2
    with _s2.untraced():        # every argument is concrete now: the engine runs outside the tracer
        return _fanout_map_batches(n, mc, fail_at, caught, x)


def _fanout_map_batches(n, mc, fail_at, caught, x):
    st = {"Type": "Map", "ItemsPath": "$.items", "MaxConcurrency": mc, "ResultPath": "$.r", "Next": "Z",
          "Iterator": {"StartAt": "I", "States": {"I": {"Type": "Task", "Resource": RES, "End": True}}}}
    if caught:
        st["Catch"] = [{"ErrorEquals": ["Boom"], "ResultPath": "$.err", "Next": "Z"}]
    data = {"x": x, "items": [{"i": k + x} for k in range(n)]}
    asl = {"StartAt": "F", "States": {"F": st, "Z": {"Type": "Pass", "Result": "z", "ResultPath": "$.z", "End": True}}}
    calls = [0]

    def outcome(params):
        k = calls[0]; calls[0] += 1
        return k == fail_at

    def task_ref(resource, params):
        return ("err", "Boom") if outcome(params) else ("ok", {"echo": params})

    def task_real(resource, params):
        return {"errorType": "Boom", "errorMessage": "m"} if outcome(params) else {"echo": params}
    want = ref.run(asl, copy.deepcopy(data), ctx_for(), task_ref, catch=True)
    calls[0] = 0
    got = run_engine(asl, data, task_real)
    if want[0] == "SUCCEEDED" and got[0] == "SUCCEEDED":
        return ref.strip_cause(got[1]) == ref.strip_cause(want[1])
    return agree(got, want)


from vf.api import variants
variants(globals(), fanout, [("_parallel", "kind == 0"), ("_map_n0", "kind == 1 and n == 0"), ("_map_n1", "kind == 1 and n == 1"), ("_map_n2_sel", "kind == 1 and n == 2 and sel"), ("_map_n2", "kind == 1 and n == 2 and not sel")])


@condition(timeout={"quick": 120, "thorough": 300}, functions=["whole notify pipeline over a 4-state chain"])
def chain(x: int, fail: bool, has_a: bool) -> bool:
    """
    requires: 0 <= x <= 2
    ensures: _
    """
    asl = {"StartAt": "P", "States": {
        "P": {"Type": "Pass", "Parameters": {"v.$": "$.x"}, "ResultPath": "$.p", "Next": "C"},
        "C": {"Type": "Choice", "Choices": [{"Variable": "$.p.v", "NumericGreaterThanEquals": 1, "Next": "T"}], "Default": "Z"},
        "T": {"Type": "Task", "Resource": RES, "InputPath": "$.p", "ResultSelector": {"out.$": "$.val.v"}, "ResultPath": "$.t", "OutputPath": "$", "Next": "Z"},
        "Z": {"Type": "Pass", "InputPath": "$.a", "ResultPath": "$.za", "End": True}}}
    data = mkdoc(x, has_a, True)

    def task_ref(resource, params):
        return ("err", "Boom") if fail else ("ok", {"val": params})

    def task_real(resource, params):
        return {"errorType": "Boom", "errorMessage": "m"} if fail else {"val": params}
    want = ref.run(asl, copy.deepcopy(data), ctx_for(), task_ref)
    got = run_engine(asl, data, task_real)
    return agree(got, want)


@condition(timeout={"quick": 60, "thorough": 120}, functions=["end_execution / handle_terminal_state (in-band failure signalling)"])
def error_key_in_data(k: str, v: int, via: int) -> bool:
    """
    requires: k in ("Error", "error", "Err") and 0 <= v <= 1 and 0 <= via < 2
    ensures: _
    """
    k = "".join([c for c in k])
    res = {k: "x" if v else ""}
    if via == 0:
        asl = {"StartAt": "P", "States": {"P": {"Type": "Pass", "Result": res, "End": True}}}
    else:
        asl = {"StartAt": "P", "States": {"P": {"Type": "Pass", "Result": res, "Next": "S"}, "S": {"Type": "Succeed"}}}
    want = ref.run(asl, {}, ctx_for(), None)
    got = run_engine(asl, {}, None)
    return agree(got, want)


@condition(timeout={"quick": 120, "thorough": 300}, functions=["start_execution ($$.Execution.Input)", "asl_state_Pass", "apply_path ($$ paths)", "apply_resultpath"])
def execution_input_in_context(x: int, has_a: bool, has_b: bool, rp: int, ip: int) -> bool:
    """
    requires: 0 <= x <= 1 and 0 <= rp < 5 and ip in (0, 2)
    ensures: _
    """
    # the first state places a result into its input; a later state must still read the execution's ORIGINAL input
    # through $$.Execution.Input (started by an event that carries no Execution.Input of its own)
    p = {"Type": "Pass", "Result": {"res": 1}, "Next": "Q"}
    setf(p, "ResultPath", pick(RPATHS, rp)); setf(p, "InputPath", pick(IPATHS, ip))
    q = {"Type": "Pass", "Parameters": {"orig.$": "$$.Execution.Input", "cur.$": "$"}, "End": True}
    asl = {"StartAt": "P", "States": {"P": p, "Q": q}}
    data = mkdoc(x, has_a, has_b)
    ctx = ctx_for()
    ctx["Execution"]["Input"] = copy.deepcopy(data)
    want = ref.run(asl, copy.deepcopy(data), ctx, None)
    got = run_engine(asl, data, None)
    return agree(got, want)

import s2_more as more
more.register(globals(), {"C02"}, ["gen_nested"], {"gen_nested": [("_canonical", "c0 == 0 and c1 == 0 and c2 == 0 and c3 == 0 and c4 == 0 and c5 == 0 and c6 == 0 and c7 == 0 and c8 == 0 and c9 == 0 and c10 == 0 and c11 == 0 and c12 == 0 and c13 == 0 and c14 == 0 and c15 == 0")]})


@condition(timeout={"quick": 120, "thorough": 300}, functions=["apply_path ($$ paths)", "asl_state_Pass", "change_state (updates the Context Object in place)"])
def context_selection_is_a_value(where: int, second: int, x: int) -> bool:
    """
    requires: 0 <= where < 3 and 0 <= second < 2 and 0 <= x <= 1
    ensures: _
    """
    # state First selects (part of) the Context Object: what it selected describes the moment of selection (State.Name
    # == "First"), however the engine goes on updating its context for the next state
    first = {"Type": "Pass", "Next": "Second"}
    if where == 0:
        first["InputPath"] = "$$.State"
    elif where == 1:
        first["Parameters"] = {"ctx.$": "$$.State", "x.$": "$.x"}
    else:
        first["OutputPath"] = "$$.State"
    secondst = {"Type": "Pass", "End": True} if second == 0 else {"Type": "Pass", "Parameters": {"seen.$": "$", "now.$": "$$.State.Name"}, "End": True}
    asl = {"StartAt": "First", "States": {"First": first, "Second": secondst}}
    got = run_engine(asl, {"x": x}, None)
    if got[0] != "SUCCEEDED":
        return False
    out = got[1]
    if second == 1:
        if out.get("now") != "Second":
            return False
        out = out.get("seen")
    sel = out.get("ctx") if where == 1 else out
    return isinstance(sel, dict) and sel.get("Name") == "First"
