"""Third scenario corpus: machines and schedules behind genuine defects that were found by reading / random review
(sub-agent bug hunts) rather than by the earlier corpus - each is now a whole-run condition whose every schedule the
solver closes.  All arguments except the schedule vector are made concrete by explicit forks (fast mode)."""
import vf; vf.setup_paths()
from vf import s2, sim, stubs
from vf.stubs import pick, cbool, cint
import s2_scenarios as scn
from s2_scenarios import task, worker, _run, _fanout_checks, SCN

T0 = 1_700_000_000.0


def _names(*n):
    return n


def caught_then_outer_fails(which, a_fails: bool, c_fails: bool, c0: int, c1: int, c2: int, c3: int, c4: int, c5: int, c6: int, c7: int,
                            c8: int, c9: int, c10: int, c11: int):
    """P = Parallel[ b0: Task a | b1: Q -> (caught) CR ], Q = Parallel[ Task q1 (fails) | Pass q2 -> Pass q3 ] with a
    Catch on Q that continues in b1 with the Task cr.  When a fails after Q's failure was caught, P fails: nothing
    of b1 - neither Q's stale sibling events nor the catch continuation - may go on."""
    a_fails = cbool(a_fails); c_fails = cbool(c_fails)
    Q = {"Type": "Parallel", "Next": "QZ", "Catch": [{"ErrorEquals": ["States.ALL"], "ResultPath": "$.err", "Next": "CR"}], "Branches": [
        {"StartAt": "Q1", "States": {"Q1": task("q1", End=True)}},
        {"StartAt": "Q2", "States": {"Q2": {"Type": "Pass", "Next": "Q3"}, "Q3": {"Type": "Pass", "End": True}}}]}
    asl = {"StartAt": "P", "States": {"P": {"Type": "Parallel", "End": True, "Branches": [
        {"StartAt": "A", "States": {"A": task("a", End=True)}},
        {"StartAt": "Q", "States": {"Q": Q, "QZ": {"Type": "Pass", "End": True}, "CR": task("cr", ResultPath="$.cr", Next="CZ"),
                                    "CZ": {"Type": "Pass", "Parameters": {"recovered.$": "$.cr"}, "End": True}}}]}}}
    workers = {"a": worker(a_fails, "ErrA", "a"), "q1": worker(True, "ErrQ", "q1"), "cr": worker(c_fails, "ErrC", "cr")}
    if a_fails:
        expect = None          # ErrA, or ErrC when the continuation's own failure is handled first
    elif c_fails:
        expect = ("FAILED", "ErrC")
    else:
        expect = None

    def chk(run, inst, mon):
        got = s2.result_of()
        if a_fails:
            if got[0] != "FAILED" or got[1] not in (("ErrA", "ErrC") if c_fails else ("ErrA",)):
                return "outcome %r" % (got,)
        elif not c_fails:
            if got[0] != "SUCCEEDED" or not isinstance(got[1], list) or got[1][0].get("ok") != "a" or (got[1][1].get("recovered") or {}).get("ok") != "cr":
                return "outcome %r" % (got,)
        return _fanout_checks(2, ("A", "Q", "Q1", "Q2", "Q3", "CR", "CZ", "QZ"), None, None)(run, inst, mon)
    return _run(asl, {"x": 1}, [c0, c1, c2, c3, c4, c5, c6, c7, c8, c9, c10, c11], workers, which, "STANDARD", expect, extra_check=chk, max_steps=300)


SCN["caught_then_outer_fails"] = ([], 900, 2400, ("quick", "thorough"))
scn.__dict__["caught_then_outer_fails"] = caught_then_outer_fails


def register(glob, which, names, split=None):
    scn.register(glob, which, names, split)


def three_levels(which, fails: bool, c0: int, c1: int, c2: int, c3: int, c4: int, c5: int, c6: int, c7: int, c8: int, c9: int, c10: int, c11: int):
    """Three levels of nesting: L1 = Parallel[ L2 = Parallel[ L3 = Parallel[ A -> B -> C ] ] | X1 -> X2 -> X3 ] where X3
    is a Fail state (fails) or a Pass.  When X3 fails the execution, the events of the innermost branch are three
    levels below the terminated state: they must be dropped all the same."""
    fails = cbool(fails)
    L3 = {"Type": "Parallel", "End": True, "Branches": [{"StartAt": "A", "States": {
        "A": {"Type": "Pass", "Next": "B"}, "B": {"Type": "Pass", "Next": "C"}, "C": {"Type": "Pass", "Result": "c", "End": True}}}]}
    L2 = {"Type": "Parallel", "End": True, "Branches": [{"StartAt": "L3", "States": {"L3": L3}}]}
    X3 = {"Type": "Fail", "Error": "Boom", "Cause": "x"} if fails else {"Type": "Pass", "Result": "x", "End": True}
    asl = {"StartAt": "L1", "States": {"L1": {"Type": "Parallel", "Next": "After", "Branches": [
        {"StartAt": "L2", "States": {"L2": L2}},
        {"StartAt": "X1", "States": {"X1": {"Type": "Pass", "Next": "X2"}, "X2": {"Type": "Pass", "Next": "X3"}, "X3": X3}}]},
        "After": {"Type": "Pass", "End": True}}}
    expect = ("FAILED", "Boom") if fails else ("SUCCEEDED", [[["c"]], "x"])
    return _run(asl, {"x": 1}, [c0, c1, c2, c3, c4, c5, c6, c7, c8, c9, c10, c11], {}, which, "STANDARD", expect,
                extra_check=_fanout_checks(2, ("A", "B", "C", "L2", "L3", "X1", "X2", "X3"), "After", "ParallelStateFailed"), max_steps=300)


SCN["three_levels"] = ([], 600, 1800, ("quick", "thorough"))
scn.__dict__["three_levels"] = three_levels


def backstop_after_end(which, caught: bool, c0: int, c1: int, c2: int, c3: int, c4: int, c5: int, c6: int, c7: int):
    """TimeoutSeconds 30.  P = Parallel[ A: Task fa (fails) | B: Task fb with Retry(IntervalSeconds 120) that failed
    once and is sitting out its retry delay ] with (caught) or without a Catch on P.  The execution ends at t ~ 0
    (SUCCEEDED through the Catcher, or FAILED); B's retry timer cannot be cancelled, so the engine still holds join
    state when the 60 s heartbeat runs the time-out back-stop at t = 60 > TimeoutSeconds: the ended execution must
    not be ended again."""
    caught = cbool(caught)
    P = {"Type": "Parallel", "Next": "Z", "Branches": [
        {"StartAt": "A", "States": {"A": task("fa", End=True)}},
        {"StartAt": "B", "States": {"B": task("fb", End=True, Retry=[{"ErrorEquals": ["Flaky"], "IntervalSeconds": 120, "MaxAttempts": 2, "BackoffRate": 1.0}])}}]}
    if caught:
        P["Catch"] = [{"ErrorEquals": ["States.ALL"], "ResultPath": "$.err", "Next": "H"}]
    asl = {"StartAt": "P", "TimeoutSeconds": 30, "States": {"P": P, "Z": {"Type": "Pass", "End": True},
                                                           "H": {"Type": "Pass", "Parameters": {"handled.$": "$.err.Error"}, "End": True}}}
    n = [0]

    def wb(req):
        n[0] += 1
        return {"errorType": "Flaky", "errorMessage": "first"} if n[0] == 1 else {"ok": "fb"}

    def pre(run, inst):
        # the engine's own periodic back-stop, as EventDispatcher.heartbeat would call it on its 60th beat
        def harness_heartbeat():
            inst.eng.heartbeat(60)
        inst.conn.set_timeout(harness_heartbeat, 60000)
    expect = ("SUCCEEDED", {"handled": "Boom"}) if caught else ("FAILED", "Boom")
    return _run(asl, {"x": 1}, [c0, c1, c2, c3, c4, c5, c6, c7], {"fa": worker(True, "Boom", "fa"), "fb": wb}, which, "STANDARD", expect,
                pre_run=pre, max_steps=200)


SCN["backstop_after_end"] = ([], 300, 900, ("quick", "thorough"))
scn.__dict__["backstop_after_end"] = backstop_after_end


def inner_join_failure(which, kind: int, how: int, c0: int, c1: int, c2: int, c3: int, c4: int, c5: int, c6: int, c7: int):
    """P = Parallel[ b0: Task t0 | b1: Task w -> Q ], where Q is a nested Parallel (kind 0) / Map (kind 1) whose
    branches all succeed but whose own JOIN fails - its ResultSelector raises States.IntrinsicFailure - and that
    failure is caught (how 0) or retried once and then caught (how 1).  b0's result, already held in P's join,
    must survive: P completes with both outputs."""
    kind = cint(kind, 0, 1); how = cint(how, 0, 1)
    Q = {"ResultSelector": {"v.$": "States.ArrayGetItem($, 5)"}, "Next": "QZ",
         "Catch": [{"ErrorEquals": ["States.IntrinsicFailure"], "ResultPath": None, "Next": "H"}]}
    if how == 1:
        Q["Retry"] = [{"ErrorEquals": ["States.IntrinsicFailure"], "IntervalSeconds": 1, "MaxAttempts": 1, "BackoffRate": 1.0}]
    if kind == 0:
        Q.update({"Type": "Parallel", "Branches": [{"StartAt": "L", "States": {"L": {"Type": "Pass", "End": True}}}]})
    else:
        Q.update({"Type": "Map", "ItemsPath": "$.items", "Iterator": {"StartAt": "L", "States": {"L": {"Type": "Pass", "End": True}}}})
    asl = {"StartAt": "P", "States": {"P": {"Type": "Parallel", "End": True, "Branches": [
        {"StartAt": "T0", "States": {"T0": task("t0", End=True)}},
        {"StartAt": "W", "States": {"W": task("w", ResultPath=None, Next="Q"), "Q": Q, "QZ": {"Type": "Pass", "End": True},
                                    "H": {"Type": "Pass", "Result": "handled", "End": True}}}]}}}
    data = {"x": 1, "items": [1]}
    expect = ("SUCCEEDED", [{"ok": "t0", "in": data}, "handled"])
    return _run(asl, data, [c0, c1, c2, c3, c4, c5, c6, c7], {"t0": worker(False, "", "t0"), "w": worker(False, "", "w")}, which, "STANDARD", expect, max_steps=200)


SCN["inner_join_failure"] = (["0 <= kind < 2 and 0 <= how < 2"], 300, 900, ("quick", "thorough"))
scn.__dict__["inner_join_failure"] = inner_join_failure


def empty_map_in_branch(which, n: int, end: bool, c0: int, c1: int, c2: int, c3: int, c4: int, c5: int):
    """Parallel[ M = Map over n (0 or 1) items, End:true or Next | Pass ]: the event of an EMPTY Map that ends its Branch
    must be acknowledged like any other."""
    n = cint(n, 0, 1); end = cbool(end)
    M = {"Type": "Map", "ItemsPath": "$.items", "Iterator": {"StartAt": "I", "States": {"I": {"Type": "Pass", "End": True}}}}
    states = {"M": M}
    if end:
        M["End"] = True
    else:
        M["Next"] = "MZ"; states["MZ"] = {"Type": "Pass", "End": True}
    asl = {"StartAt": "P", "States": {"P": {"Type": "Parallel", "End": True, "Branches": [
        {"StartAt": "M", "States": states}, {"StartAt": "B", "States": {"B": {"Type": "Pass", "Result": 2, "End": True}}}]}}}
    items = [{"i": k} for k in range(n)]
    expect = ("SUCCEEDED", [items, 2])
    return _run(asl, {"items": items}, [c0, c1, c2, c3, c4, c5], {}, which, "STANDARD", expect, max_steps=100)


SCN["empty_map_in_branch"] = (["0 <= n < 2"], 300, 900, ("quick", "thorough"))
scn.__dict__["empty_map_in_branch"] = empty_map_in_branch


def raw_start_events(which, first: int, c0: int, c1: int, c2: int, c3: int, c4: int, c5: int):
    """Two start events put on the shared queue by an outside client, WITHOUT a message id (as the project's own example
    clients publish them): first state a Wait (first 0) or a Task (first 1).  Each event is acknowledged for itself,
    both executions end once."""
    first = cint(first, 0, 1)
    if first == 0:
        asl = {"StartAt": "W", "States": {"W": {"Type": "Wait", "Seconds": 1, "Next": "Z"}, "Z": {"Type": "Pass", "End": True}}}
    else:
        asl = {"StartAt": "T", "States": {"T": task("f", ResultPath="$.t", Next="Z"), "Z": {"Type": "Pass", "End": True}}}

    def pre(run, inst):
        for k in (1, 2):
            m = sim.Message(stubs.FastJson.dumps(sim.start_event({"x": k})))
            m.message_id = None
            sim.BROKER.publish("ev", m)
    want = {"x": 1} if first == 0 else {"x": 1, "t": {"ok": "f", "in": {"x": 1}}}

    def chk(run, inst, mon):
        res = sorted(str(s2.result_of(a)) for a in mon.per_exec())
        exp = []
        for k in (1, 2):
            exp.append(("SUCCEEDED", {"x": k} if first == 0 else {"x": k, "t": {"ok": "f", "in": {"x": k}}}))
        if res != sorted(str(e) for e in exp):
            return "outcomes %s, expected %s" % (res, exp)
        return ""
    return _run(asl, {"x": 0}, [c0, c1, c2, c3, c4, c5], {"f": worker(False, "", "f")}, which, "STANDARD", None, n_exec=0, pre_run=pre,
                extra_check=chk, max_steps=100)


SCN["raw_start_events"] = (["0 <= first < 2"], 300, 900, ("quick", "thorough"))
scn.__dict__["raw_start_events"] = raw_start_events


FALSY = [None, 0, "", False, [], {}]


def falsy_branch_output(which, kind: int, vi: int, c0: int, c1: int, c2: int, c3: int, c4: int, c5: int):
    """A branch / iteration whose output is a falsy JSON value (null, 0, "", false, [], {}): it is a result like any
    other - the join completes and delivers it at its position."""
    kind = cint(kind, 0, 1); vi = cint(vi, 0, 5)
    v = pick(FALSY, vi)
    sub = {"StartAt": "V", "States": {"V": {"Type": "Pass", "OutputPath": "$.v", "End": True}}}
    if kind == 0:
        st = {"Type": "Parallel", "End": True, "Branches": [sub, {"StartAt": "O", "States": {"O": {"Type": "Pass", "Result": 1, "End": True}}}]}
        data = {"v": v}
        expect = ("SUCCEEDED", [v, 1])
    else:
        st = {"Type": "Map", "ItemsPath": "$.items", "End": True, "Iterator": sub}
        data = {"items": [{"v": 1}, {"v": v}, {"v": 3}]}
        expect = ("SUCCEEDED", [1, v, 3])
    asl = {"StartAt": "F", "States": {"F": st}}
    return _run(asl, data, [c0, c1, c2, c3, c4, c5], {}, which, "STANDARD", expect, max_steps=100)


SCN["falsy_branch_output"] = (["0 <= kind < 2 and 0 <= vi < 6"], 300, 900, ("quick", "thorough"))
scn.__dict__["falsy_branch_output"] = falsy_branch_output


def map_selector_failure(which, bad: int, catch: bool, mc: int, nested: bool, c0: int, c1: int, c2: int, c3: int, c4: int, c5: int):
    """A Map whose ItemSelector raises States.IntrinsicFailure for item `bad` (0 or 1 of two; 2: none), with or without
    a matching Catcher on the Map; the Map at top level or (nested) in a Parallel branch.  The Map state itself fails:
    the Catcher gets the Error Output placed into the MAP's input; without a Catcher the execution fails with
    States.IntrinsicFailure; either way exactly once, nothing left behind."""
    bad = cint(bad, 0, 2); catch = cbool(catch); mc = cint(mc, 0, 1); nested = cbool(nested)
    M = {"Type": "Map", "ItemsPath": "$.items", "MaxConcurrency": mc, "Next": "Z",
         "Parameters": {"v.$": "States.StringToJson($$.Map.Item.Value)"},
         "Iterator": {"StartAt": "I", "States": {"I": {"Type": "Pass", "End": True}}}}
    if catch:
        M["Catch"] = [{"ErrorEquals": ["States.IntrinsicFailure"], "ResultPath": "$.err", "Next": "H"}]
    inner = {"M": M, "Z": {"Type": "Pass", "End": True}, "H": {"Type": "Pass", "Parameters": {"keep.$": "$.keep", "caught.$": "$.err.Error"}, "End": True}}
    if nested:
        asl = {"StartAt": "P", "States": {"P": {"Type": "Parallel", "End": True, "Branches": [
            {"StartAt": "M", "States": inner}, {"StartAt": "O", "States": {"O": {"Type": "Pass", "Result": "o", "End": True}}}]}}}
    else:
        asl = {"StartAt": "M", "States": inner}
    items = ["1", "2"]
    if bad < 2:
        items[bad] = "{bad json"
    data = {"items": items, "keep": "me"}
    if bad == 2:
        out = [{"v": 1}, {"v": 2}]
    elif catch:
        out = {"keep": "me", "caught": "States.IntrinsicFailure"}
    else:
        out = None
    if out is None:
        expect = ("FAILED", "States.IntrinsicFailure")
    else:
        expect = ("SUCCEEDED", [out, "o"] if nested else out)
    return _run(asl, data, [c0, c1, c2, c3, c4, c5], {}, which, "STANDARD", expect, max_steps=150)


SCN["map_selector_failure"] = (["0 <= bad <= 2 and 0 <= mc <= 1"], 300, 900, ("quick", "thorough"))
scn.__dict__["map_selector_failure"] = map_selector_failure


def oversize_result_handled(which, big: bool, how: int, c0: int, c1: int, c2: int, c3: int):
    """A Task whose result, placed by ResultPath, makes the state's output exceed 262144 characters (big) fails with
    States.DataLimitExceeded; a Catcher (how 0) gets the Error Output placed into the state's ORIGINAL input, a Retrier
    (how 1) re-runs the Task with its original input."""
    big = cbool(big); how = cint(how, 0, 1)
    t = task("f", ResultPath="$.r", Next="Z")
    if how == 0:
        t["Catch"] = [{"ErrorEquals": ["States.DataLimitExceeded"], "ResultPath": "$.error", "Next": "H"}]
    else:
        t["Retry"] = [{"ErrorEquals": ["States.DataLimitExceeded"], "IntervalSeconds": 1, "MaxAttempts": 1, "BackoffRate": 1.0}]
    asl = {"StartAt": "T", "States": {"T": t, "Z": {"Type": "Pass", "Parameters": {"k.$": "$.k", "n.$": "States.ArrayLength($.r.a)"}, "End": True},
                                      "H": {"Type": "Pass", "Parameters": {"k.$": "$.k", "caught.$": "$.error.Error"}, "End": True}}}
    seen = []

    def w(req):
        seen.append(sorted(req) if isinstance(req, dict) else req)
        # ~262000 characters: within the limit for a Task reply, over it once placed next to the 600-character input
        n = 1 if (not big or len(seen) > 1) else 43650
        return {"a": ["xy"] * n}
    data = {"k": "v" * 600}

    def chk(run, inst, mon):
        if any(s != ["k"] for s in seen):
            return "C07 the Task was re-run with %s as its input, not with the state's original input ['k']" % (seen,)
        return ""
    if not big:
        expect = ("SUCCEEDED", {"k": "v" * 600, "n": 1})
    elif how == 0:
        expect = ("SUCCEEDED", {"k": "v" * 600, "caught": "States.DataLimitExceeded"})
    else:
        expect = ("SUCCEEDED", {"k": "v" * 600, "n": 1})
    return _run(asl, data, [c0, c1, c2, c3], {"f": w}, which, "STANDARD", expect, extra_check=chk, max_steps=60)


SCN["oversize_result_handled"] = (["0 <= how < 2"], 300, 900, ("quick", "thorough"))
scn.__dict__["oversize_result_handled"] = oversize_result_handled


def odd_task_replies(which, kind: int, c0: int, c1: int, c2: int, c3: int):
    """A Task's processor answers oddly: errorMessage is a JSON object (kind 0) / null (kind 1), or a stray message
    without a correlation id lands on the reply queue before the real reply (kind 2).  The reply listener must not
    raise (an exception there unwinds into EventDispatcher.start and stops the engine): the Task fails with the
    reported error name, or - kind 2 - completes with the real reply."""
    kind = cint(kind, 0, 2)
    asl = {"StartAt": "T", "States": {"T": task("f", ResultPath="$.t", Next="Z"), "Z": {"Type": "Pass", "End": True}}}

    def w(req):
        if kind == 0:
            return {"errorType": "Boom", "errorMessage": {"code": 42}}
        if kind == 1:
            return {"errorType": "Boom", "errorMessage": None}
        m = sim.Message('{"stray": true}')
        m.message_id = "stray"
        sim.BROKER.publish("asl_workflow_reply_to-i1", m)
        return {"ok": 1}
    expect = ("SUCCEEDED", {"x": 1, "t": {"ok": 1}}) if kind == 2 else ("FAILED", "Boom")
    return _run(asl, {"x": 1}, [c0, c1, c2, c3], {"f": w}, which, "STANDARD", expect, max_steps=60)


SCN["odd_task_replies"] = (["0 <= kind < 3"], 300, 900, ("quick", "thorough"))
scn.__dict__["odd_task_replies"] = odd_task_replies


def orphan_dropped_beside_waiting(which, stray: bool, c0: int, c1: int, c2: int, c3: int, c4: int, c5: int, c6: int, c7: int):
    """P = Parallel[ Task a | Fail ] whose Catcher goes on to a 30 s Wait.  Under the schedules where a's reply arrives
    after P has failed (its request was cancelled) the reply has no requestor: the engine keeps it for the retention
    period and then drops it, while the Wait's event is the other outstanding delivery.  Dropping the orphan must
    settle that one delivery and no other (stray: a second reply without any request arrives as well)."""
    stray = cbool(stray)
    asl = {"StartAt": "P", "States": {
        "P": {"Type": "Parallel", "ResultPath": "$.p", "Next": "Z",
              "Catch": [{"ErrorEquals": ["States.ALL"], "ResultPath": "$.err", "Next": "W"}],
              "Branches": [{"StartAt": "A", "States": {"A": task("a", End=True)}},
                           {"StartAt": "F", "States": {"F": {"Type": "Fail", "Error": "Boom", "Cause": "c"}}}]},
        "W": {"Type": "Wait", "Seconds": 30, "Next": "Z"},
        "Z": {"Type": "Pass", "Parameters": {"done": True}, "End": True}}}

    def w(req):
        if stray:
            m = sim.Message('{"late": true}')
            m.message_id = "stray"; m.correlation_id = "no-such-request"
            sim.BROKER.publish("asl_workflow_reply_to-i1", m)
        return {"ok": "a"}
    return _run(asl, {"x": 1}, [c0, c1, c2, c3, c4, c5, c6, c7], {"a": w}, which, "STANDARD", ("SUCCEEDED", {"done": True}), max_steps=120)


SCN["orphan_dropped_beside_waiting"] = ([], 300, 900, ("quick", "thorough"))
scn.__dict__["orphan_dropped_beside_waiting"] = orphan_dropped_beside_waiting


def exec_timeout_handled(which, kind: int, c0: int, c1: int, c2: int, c3: int, c4: int, c5: int):
    """The machine's TimeoutSeconds (2 s) expires while the execution is blocked inside a state that HAS error handling:
    a Task with a catch-all Catcher (kind 0), a Parallel [Wait 5 s | Task that never replies] with a catch-all Catcher
    (kind 1) or Retrier (kind 3), a Map over Waits with a catch-all Catcher (kind 2), a Task with Retriers for
    States.Timeout and States.ALL (kind 4).  "... fails with States.Timeout that no Retry or Catch can intercept":
    FAILED/States.Timeout at exactly +2 s, the Catcher's state never entered."""
    kind = cint(kind, 0, 4)
    W = {"Type": "Wait", "Seconds": 5, "End": True}
    T = task("never", End=True)
    catch = [{"ErrorEquals": ["States.Timeout"], "Next": "R"}, {"ErrorEquals": ["States.ALL"], "Next": "R"}]
    retry = [{"ErrorEquals": ["States.Timeout"], "IntervalSeconds": 1, "MaxAttempts": 2}, {"ErrorEquals": ["States.ALL"], "IntervalSeconds": 1, "MaxAttempts": 2}]
    if kind == 0:
        a = task("never", Next="Z", Catch=catch)
    elif kind == 1:
        a = {"Type": "Parallel", "Next": "Z", "Catch": catch, "Branches": [{"StartAt": "W", "States": {"W": W}}, {"StartAt": "T", "States": {"T": T}}]}
    elif kind == 2:
        a = {"Type": "Map", "ItemsPath": "$.items", "Next": "Z", "Catch": catch, "Iterator": {"StartAt": "W", "States": {"W": W}}}
    elif kind == 3:
        a = {"Type": "Parallel", "Next": "Z", "Retry": retry, "Branches": [{"StartAt": "W", "States": {"W": W}}, {"StartAt": "T", "States": {"T": T}}]}
    else:
        a = task("never", Next="Z", Retry=retry)
    asl = {"StartAt": "A", "TimeoutSeconds": 2, "States": {"A": a, "Z": {"Type": "Pass", "End": True},
                                                           "R": {"Type": "Pass", "Result": "recovered", "End": True}}}

    def chk(run, inst, mon):
        ts = sim.terminals()
        if len(ts) != 1:
            return "terminals %d" % len(ts)
        d = ts[0]
        if (d["stopDate"] - d["startDate"]) != 2000:
            return "C08 execution time-out after %d ms, expected 2000" % (d["stopDate"] - d["startDate"])
        return ""
    return _run(asl, {"x": 1, "items": [1, 2]}, [c0, c1, c2, c3, c4, c5], {"never": lambda req: None}, which, "STANDARD",
                ("FAILED", "States.Timeout"), extra_check=chk, max_steps=160)


SCN["exec_timeout_handled"] = (["0 <= kind < 5"], 300, 900, ("quick", "thorough"))
scn.__dict__["exec_timeout_handled"] = exec_timeout_handled
