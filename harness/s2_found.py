"""Third scenario corpus: machines and schedules behind genuine defects that were found by reading / random review
(sub-agent bug hunts) rather than by the earlier corpus - each is now a whole-run condition whose every schedule the
solver closes.  All arguments except the schedule vector are made concrete by explicit forks (fast mode)."""
import vf; vf.setup_paths()
from vf import s2, sim, stubs
from vf.stubs import pick, cbool, cint
import s2_scenarios as scn
from s2_scenarios import task, worker, _run, _fanout_checks, SCN

T0 = 1_700_000_000.0


def _names(*n):
    return n


def caught_then_outer_fails(which, a_fails: bool, c_fails: bool, c0: int, c1: int, c2: int, c3: int, c4: int, c5: int, c6: int, c7: int,
                            c8: int, c9: int, c10: int, c11: int):
    """P = Parallel[ b0: Task a | b1: Q -> (caught) CR ], Q = Parallel[ Task q1 (fails) | Pass q2 -> Pass q3 ] with a
    Catch on Q that continues in b1 with the Task cr.  When a fails after Q's failure was caught, P fails: nothing
    of b1 - neither Q's stale sibling events nor the catch continuation - may go on."""
    a_fails = cbool(a_fails); c_fails = cbool(c_fails)
    Q = {"Type": "Parallel", "Next": "QZ", "Catch": [{"ErrorEquals": ["States.ALL"], "ResultPath": "$.err", "Next": "CR"}], "Branches": [
        {"StartAt": "Q1", "States": {"Q1": task("q1", End=True)}},
        {"StartAt": "Q2", "States": {"Q2": {"Type": "Pass", "Next": "Q3"}, "Q3": {"Type": "Pass", "End": True}}}]}
    asl = {"StartAt": "P", "States": {"P": {"Type": "Parallel", "End": True, "Branches": [
        {"StartAt": "A", "States": {"A": task("a", End=True)}},
        {"StartAt": "Q", "States": {"Q": Q, "QZ": {"Type": "Pass", "End": True}, "CR": task("cr", ResultPath="$.cr", Next="CZ"),
                                    "CZ": {"Type": "Pass", "Parameters": {"recovered.$": "$.cr"}, "End": True}}}]}}}
    workers = {"a": worker(a_fails, "ErrA", "a"), "q1": worker(True, "ErrQ", "q1"), "cr": worker(c_fails, "ErrC", "cr")}
    if a_fails:
        expect = None          # ErrA, or ErrC when the continuation's own failure is handled first
    elif c_fails:
        expect = ("FAILED", "ErrC")
    else:
        expect = None

    def chk(run, inst, mon):
        got = s2.result_of()
        if a_fails:
            if got[0] != "FAILED" or got[1] not in (("ErrA", "ErrC") if c_fails else ("ErrA",)):
                return "outcome %r" % (got,)
        elif not c_fails:
            if got[0] != "SUCCEEDED" or not isinstance(got[1], list) or got[1][0].get("ok") != "a" or (got[1][1].get("recovered") or {}).get("ok") != "cr":
                return "outcome %r" % (got,)
        return _fanout_checks(2, ("A", "Q", "Q1", "Q2", "Q3", "CR", "CZ", "QZ"), None, None)(run, inst, mon)
    return _run(asl, {"x": 1}, [c0, c1, c2, c3, c4, c5, c6, c7, c8, c9, c10, c11], workers, which, "STANDARD", expect, extra_check=chk, max_steps=300)


SCN["caught_then_outer_fails"] = ([], 900, 2400, ("quick", "thorough"))
scn.__dict__["caught_then_outer_fails"] = caught_then_outer_fails


def register(glob, which, names, split=None):
    scn.register(glob, which, names, split)
