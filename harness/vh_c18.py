"""C18 - Validator-accepted machines run; uninterpretable ones hurt only themselves.

Three groups of conditions, all on the repository's real code:

 (A) lint_*    StateLint().validate(v) returns a list (never raises) for JSON values
               built from selectors: arbitrary top-level values and, inside a fixed
               well-formed frame, one field of one role (State of each Type, Retrier,
               Catcher, Choice Rule, Nested Rule, Branch) carrying a value of every JSON
               kind (right and wrong types, strings/ints from concrete pools); plus
               lint_sym_string: a symbolic string at every sink that looks inside strings.
 (B) agree_*   a two-level machine skeleton whose structure fields are chosen by symbolic
               selectors goes through the real validator AND (when accepted) through
               the real StateEngine.notify under a FIFO driver; an accepted definition
               must never end FAILED/States.Runtime with one of the engine's four
               "Illegal State Machine" defences (nor restart itself through an empty
               state name).
 (C) poison_*  the real EventDispatcher.dispatch/acknowledge + StateEngine.notify are
               fed a poison delivery between the deliveries of a healthy execution.
"""
import vf; vf.setup_paths()
import copy
import json as _json
from vf.api import condition
from vf import stubs
from vf.stubs import pick
from statelint.statelint import StateLint
from asl_workflow_engine import state_engine as se
from asl_workflow_engine import event_dispatcher as edm

PROPERTY = "C18"
ASSUMPTIONS = [
    "StateLint is constructed once at import (parses the repository's StateMachine.j2119 natively); the J2119 text itself is taken as given",
    "clock/uuid/logger stubs (vf.stubs); in (B) EventDispatcher/TaskDispatcher are the recording stubs of stubs.make_engine; a FIFO driver re-delivers every published event in order (single instance, no redelivery, no reordering)",
    "Task states: the recorded execute_task callback is invoked once with the success result {'ok': 1}; Wait states: the recorded timer callback is fired; retry/heartbeat timers never fire on their own",
    "every run is bounded to 14 driver steps (unwinding bound; the skeleton needs at most 9); a run that is still live at the bound is classified 'live', not as a failure",
    "structure fields (Type, targets, End, presence / JSON kind of required fields, state names) are concrete per path, chosen by symbolic selectors from small pools; genuinely symbolic data (short strings, small ints) is used in lint_sym_string and poison_symbolic",
    "concrete fast path: when every input of a path is a plain concrete JSON value (checked: exact builtin types, a symbolic proxy is refused) the real validator / engine / dispatcher are run outside the CrossHair tracer (natively()); the solver enumerates the selector space exhaustively; agree_traced_slice cross-checks a slice fully traced",
    "(C) EventDispatcher is built without a broker (__new__): publish/broadcast/set_timeout/clear_timeout are recording instance attributes, dispatch and acknowledge are the real methods; the delivery is a fake message object with body/message_id/redelivered/acknowledge(multiple=False)",
    "(C) opentracing is the no-op tracer the engine installs when no tracer is configured",
]

LINT = StateLint()
SM_ARN = stubs.SM_ARN
ILLEGAL = "Illegal State Machine"
RES = "arn:aws:lambda:local:0123456789:function:f"
MAXSTEPS = 14


# --------------------------------------------------------------------------- validator
def lint(v):
    """("ok", problems) or ("raised", ExcName). Only Exception is caught."""
    try:
        p = LINT.validate(v)
    except Exception as e:
        return ("raised", type(e).__name__)
    return ("ok", p)


def lint_total(v):
    r = lint(v)
    return r[0] == "ok" and isinstance(r[1], list)


# --------------------------------------------------------------------------- engine driver
def drive(asl, data, maxsteps=MAXSTEPS):
    """Run the real engine on `asl` (stored under SM_ARN) from a start event, FIFO.
    Returns (outcome, detail):
      ("illegal", cause)   terminal FAILED, States.Runtime, cause from one of the four defences
      ("restarted", n)     the execution was started n > 1 times: a transition to an empty/missing state
                           name is taken for a start event (the silent fifth manifestation of a dangling target)
      ("failed", error)    any other terminal FAILED
      ("succeeded", out)   terminal SUCCEEDED
      ("crashed", Exc)     an exception escaped StateEngine.notify (dispatch would drop the event)
      ("stalled", n)       nothing left to deliver and no terminal status
      ("live", n)          still delivering at the unwinding bound
    """
    stubs.SeqUUID.reset()
    eng, log = stubs.make_engine(asl)
    ed = eng.event_dispatcher
    td = eng.task_dispatcher
    ev = {"data": data, "context": {"StateMachine": {"Id": SM_ARN}}}
    n = 0
    consumed = 0
    tcalls = 0
    pending = [ev]
    steps = 0
    crashed = None
    while steps < maxsteps:
        steps += 1
        if pending:
            e = pending.pop(0)
            n += 1
            mid = "m%d" % n
            ed.unacknowledged_messages[mid] = True
            try:
                eng.notify(e, mid)
            except Exception as x:
                crashed = type(x).__name__
        elif tcalls < len(td.calls):
            cb = td.calls[tcalls][2]
            tcalls += 1
            try:
                cb({"ok": 1})
            except Exception as x:
                crashed = type(x).__name__
        elif ed.timers:
            k = sorted(ed.timers)[0]
            cb, _delay = ed.timers.pop(k)
            try:
                cb()
            except Exception as x:
                crashed = type(x).__name__
        else:
            break
        pubs = [l for l in log if l[0] == "publish"]
        while consumed < len(pubs):
            pending.append(copy.deepcopy(pubs[consumed][1]))
            consumed += 1
    term = None
    running = 0
    for l in log:
        if l[0] == "broadcast":
            d = l[2].get("detail", {})
            if d.get("status") == "RUNNING":
                running += 1
            if term is None and d.get("status") in ("FAILED", "SUCCEEDED", "ABORTED", "TIMED_OUT"):
                term = d
    if term is not None and term.get("error") == "States.Runtime" and ILLEGAL in (term.get("cause") or ""):
        return ("illegal", defence(term.get("cause") or ""))
    if running > 1:
        return ("restarted", running)
    if term is not None:
        if term["status"] == "SUCCEEDED":
            return ("succeeded", term.get("output"))
        cause = term.get("cause") or ""
        if term.get("error") == "States.Runtime" and ILLEGAL in cause:
            return ("illegal", defence(cause))
        return ("failed", term.get("error"))
    if crashed:
        return ("crashed", crashed)
    if pending or tcalls < len(td.calls) or ed.timers:
        return ("live", steps)
    return ("stalled", steps)


def defence(cause):
    if "Mandatory \"Next\" field is missing" in cause: return "missing-next"
    if "non-existent state" in cause: return "non-existent"
    if "non-unique state" in cause: return "non-unique"
    if "illegal Type" in cause: return "illegal-type"
    return "other"


DATA1 = {"x": 1, "items": [0]}      # Choice rule ($.x present) matches
DATA2 = {"items": [0]}              # Choice falls to Default


def agree(asl, both=True):
    """The agreement verdict for one definition:
    "rejected" | "raised:<Exc>" | "<outcome1>/<outcome2>" for an accepted definition."""
    r = lint(asl)
    if r[0] != "ok":
        return "raised:" + r[1]
    if r[1]:
        return "rejected"
    o1 = drive(copy.deepcopy(asl), copy.deepcopy(DATA1))
    out = o1[0] + (":" + o1[1] if o1[0] == "illegal" else "")
    if both:
        o2 = drive(copy.deepcopy(asl), copy.deepcopy(DATA2))
        out += "/" + o2[0] + (":" + o2[1] if o2[0] == "illegal" else "")
    return out


def agrees(verdict):
    """Post of group (B): the validator did not raise, and an accepted definition did
    not die on one of the four Illegal-State-Machine defences (nor restart itself through
    a transition to an empty state name)."""
    return not verdict.startswith("raised") and "illegal" not in verdict and "restarted" not in verdict


# --------------------------------------------------------------------------- skeleton
ABSENT = "<absent>"        # selector value: field not present
ENDT = "<end>"             # selector value: End: true instead of Next
TNAMES = ["A", "P", "B", "I", "J", "X", "", ABSENT, ENDT]
TYPES = ["Pass", "Succeed", "Fail", "Task", "Choice", "Wait", "Parallel", "Map", "Foo"]


def put_next(st, t, field="Next"):
    if t == ABSENT:
        return st
    if t == ENDT:
        st["End"] = True
        return st
    st[field] = t
    return st


def branch(start="I", i_next="J", j_next=ENDT, i_name="I", j_name="J", i_type="Pass", i_extra=None):
    i = {"Type": i_type}
    if i_type == "Fail":
        i["Error"] = "E"
    else:
        put_next(i, i_next)
    if i_extra:
        i.update(i_extra)
    j = put_next({"Type": "Pass"}, j_next)
    b = {"States": {}}
    if start != ABSENT:
        b["StartAt"] = start
    b["States"][i_name] = i
    if j_name != ABSENT:
        b["States"][j_name] = j
    return b


def body(tp, rule_next="P", default="B", br=None):
    """A state of Type `tp` with the fields that Type requires (no Next/End)."""
    st = {"Type": tp}
    if tp == "Task": st["Resource"] = RES
    elif tp == "Choice":
        st["Choices"] = [put_next({"Variable": "$.x", "IsPresent": True}, rule_next)]
        put_next(st, default, "Default")
    elif tp == "Wait": st["Seconds"] = 1
    elif tp == "Parallel": st["Branches"] = [br if br is not None else branch()]
    elif tp == "Map":
        st["ItemsPath"] = "$.items"
        st["Iterator"] = br if br is not None else branch()
    elif tp == "Fail":
        st["Error"] = "E"
    return st


def machine(start="A", a=None, p=None, b=None):
    m = {"States": {}}
    if start != ABSENT:
        m["StartAt"] = start
    m["States"]["A"] = a if a is not None else put_next(body("Pass"), "P")
    m["States"]["P"] = p if p is not None else put_next(body("Parallel"), "B")
    m["States"]["B"] = b if b is not None else {"Type": "Succeed"}
    return m


# --------------------------------------------------------------------------- fast path
def _concrete(x):
    t = type(x)
    if t is dict:
        return all(type(k) is str and _concrete(v) for k, v in x.items())
    if t is list:
        return all(_concrete(v) for v in x)
    return t in (str, int, bool, float, type(None))


def _why(x, path="$"):
    t = type(x)
    if t is dict:
        for k, v in x.items():
            if type(k) is not str:
                return path + " key " + t.__name__
            w = _why(v, path + "." + k)
            if w:
                return w
        return ""
    if t is list:
        for n, v in enumerate(x):
            w = _why(v, path + "[%d]" % n)
            if w:
                return w
        return ""
    return "" if t in (str, int, bool, float, type(None)) else path + ":" + t.__name__


def sel(i, n):
    """Concrete int equal to the symbolic selector i (0 <= i < n)."""
    for k in range(n):
        if i == k:
            return k
    return 0


def natively(fn, *args):
    """Run fn(*args) outside the CrossHair tracer when every argument is a plain
    concrete JSON value (exact builtin types - a symbolic proxy is refused).  The real
    code then runs exactly as in production; the solver's role on such a path was to
    choose the selectors."""
    from crosshair.tracers import NoTracing, is_tracing
    if not is_tracing():
        return fn(*args)
    with NoTracing():
        for a in args:
            if not _concrete(a):
                raise RuntimeError("harness: symbolic value on the concrete fast path: " + _why(a))
        return fn(*args)


def verdict(asl, both=True):
    return natively(agree, asl, both)


# --------------------------------------------------------------------------- (B) builders
TOP = ["A", "P", "B", "I", "X", "", ABSENT, ENDT]          # targets used at the top level ("I" = inner-level name)
INNER = ["J", "I", "B", "X", "", ABSENT, ENDT]             # targets used inside the branch ("B" = outer-level name)
CATCH = ["<nocatch>", "B", "A", "I", "X", "", ABSENT]
CONT = ["Parallel", "Iterator", "ItemProcessor"]


def container(kind, br, nxt="B", catch="<nocatch>"):
    if kind == "Parallel":
        st = {"Type": "Parallel", "Branches": [br]}
    else:
        st = {"Type": "Map", "ItemsPath": "$.items", kind: br}
    put_next(st, nxt)
    if catch != "<nocatch>":
        st["Catch"] = [put_next({"ErrorEquals": ["States.ALL"]}, catch)]
    return st


def build_targets_top(choice, sa, n1, n2, np_):
    a = body("Choice", pick(TOP, n1), pick(TOP, n2)) if choice else put_next(body("Pass"), pick(TOP, n1))
    return machine(start=pick(TOP, sa), a=a, p=put_next(body("Parallel"), pick(TOP, np_)))


def build_targets_catch(kind, fails, nc, np_):
    br = branch()
    if fails:
        br["States"]["J"] = {"Type": "Fail", "Error": "E"}
    return machine(p=container(pick(CONT, kind), br, pick(TOP, np_), pick(CATCH, nc)))


def build_targets_inner(kind, ichoice, isa, ni, nd, nj):
    br = branch(start=pick(["I", "J", "A", "X", "", ABSENT], isa), i_next=pick(INNER, ni), j_next=pick(INNER, nj))
    if ichoice:
        br["States"]["I"] = body("Choice", pick(INNER, ni), pick(INNER, nd))
    return machine(p=container(pick(CONT, kind), br))


def retag(st, tp):
    st["Type"] = tp
    return st


def build_types_a(ta, fa, na):
    f = pick(TYPES, fa)
    a = body(f)
    if f not in ("Choice", "Succeed", "Fail"):
        put_next(a, pick(["P", ENDT, ABSENT], na))
    return machine(a=retag(a, pick(TYPES, ta)))


JT = [("Pass", ENDT), ("Succeed", ABSENT), ("Fail", ABSENT), ("Foo", ENDT), ("Foo", ABSENT)]


def build_types_p(tp, fp, ti, tj):
    it = pick(TYPES, ti)
    i = body(it, "J", "J")
    if it not in ("Choice", "Succeed", "Fail"):
        put_next(i, "J")
    jt = pick(JT, tj)
    j = put_next(body(jt[0]), jt[1])
    br = {"StartAt": "I", "States": {"I": i, "J": j}}
    f = pick(["Parallel", "Iterator", "ItemProcessor", "<none>"], fp)
    p = container(f, br) if f != "<none>" else put_next({"Type": "Pass"}, "B")
    return machine(p=retag(p, pick(TYPES, tp)))


KINDS = [ABSENT, None, False, True, 0, 1, 1.5, "", "B", "x", [], ["B"], [{}], {}, {"x": 1}]
REQ = {"Pass": "Result", "Succeed": "Comment", "Fail": "Error", "Task": "Resource", "Choice": "Choices", "Wait": "Seconds",
       "Parallel": "Branches", "Map": "Iterator"}


def set_path(m, path, k):
    """Replace (or delete, k == ABSENT) the member at `path`; parents must exist."""
    node = m
    for key in path[:-1]:
        node = node[key]
    last = path[-1]
    if isinstance(node, dict) and not isinstance(last, str):
        raise KeyError(last)            # an array index into what is now an object: the member no longer exists
    if k == ABSENT:
        if isinstance(node, dict):
            node.pop(last, None)
        else:
            del node[last]
    else:
        node[last] = copy.deepcopy(k)
    return m


def fields_a(tp):
    s = ("States", "A")
    out = [s, s + ("Type",), s + ("End",), s + (REQ[tp],), s + ("Comment",), s + ("InputPath",)]
    out.append(s + (("Default",) if tp == "Choice" else ("Next",)))
    if tp == "Choice":
        c = s + ("Choices", 0)
        out += [c, c + ("Next",), c + ("Variable",), c + ("IsPresent",)]
    if tp in ("Parallel", "Map"):
        b = s + (("Branches", 0) if tp == "Parallel" else ("Iterator",))
        out += [b + ("StartAt",), b + ("States",), b + ("States", "I")]
    return out


def build_kinds_a(ta, f, k):
    tp = pick(TYPES[:8], ta)
    a = body(tp)
    if tp not in ("Choice", "Succeed", "Fail"):
        put_next(a, "P")
    m = machine(a=a)
    fl = fields_a(tp)
    return set_path(m, pick(fl, f), pick(KINDS, k))


_P = ("States", "P")
_BR = _P + ("Branches", 0)
FIELDS_REST = [("StartAt",), ("States",), ("Comment",), ("TimeoutSeconds",), ("States", "B"), ("States", "B", "Type"),
               ("States", "A"), _P,
               _P + ("Next",), _P + ("End",), _P + ("Branches",), _BR, _BR + ("StartAt",), _BR + ("States",),
               _BR + ("States", "I"), _BR + ("States", "I", "Type"), _BR + ("States", "I", "Next"),
               _BR + ("States", "J", "End"), _BR + ("States", "J", "Type"),
               _P + ("Catch",), _P + ("Catch", 0), _P + ("Catch", 0, "ErrorEquals"), _P + ("Catch", 0, "Next"),
               _P + ("Retry",), _P + ("Retry", 0), _P + ("Retry", 0, "ErrorEquals"), _P + ("Retry", 0, "MaxAttempts")]


def rest_machine(fails, achoice=False):
    br = branch()
    if fails:
        br["States"]["J"] = {"Type": "Fail", "Error": "E"}
    p = container("Parallel", br, "B", "B")
    p["Retry"] = [{"ErrorEquals": ["E2"], "MaxAttempts": 1}]
    return machine(p=p, a=body("Choice", "P", "B") if achoice else None)


def build_kinds_rest(fails, achoice, f, k):
    return set_path(rest_machine(fails, achoice), pick(FIELDS_REST, f), pick(KINDS, k))


def build_kinds_pair(achoice, f1, k1, f2, k2):
    m = rest_machine(False, achoice)
    p1 = pick(FIELDS_REST, f1); p2 = pick(FIELDS_REST, f2)
    try:
        set_path(m, p1, pick(KINDS, k1))
        set_path(m, p2, pick(KINDS, k2))
    except (KeyError, IndexError, TypeError):
        pass            # second path no longer exists after the first mutation: single mutation
    return m


NPOOL = ["I", "J", "A", "P", "B", "Type", "Next", "States", "x", "End", ""]


def build_names(kind, ni, nj, nk, pay, an):
    i_name = pick(NPOOL, ni); j_name = pick(NPOOL, nj)
    extra = None
    pk = pick(["<none>", "<j>", "zz"], pay)
    if pk != "<none>":
        extra = {"Result": {(j_name if pk == "<j>" else pk): 1}}
    br = branch(start=i_name, i_next=j_name, i_name=i_name, j_name=j_name, i_extra=extra)
    c = pick(CONT, kind)
    p = container(c, br)
    k_name = pick(["<none>", "K", "<i>", "A"], nk)
    if c == "Parallel" and k_name != "<none>":
        k_name = i_name if k_name == "<i>" else k_name
        p["Branches"].append({"StartAt": k_name, "States": {k_name: {"Type": "Pass", "End": True}}})
    a_name = pick(["A", "Type", "Branches", "I"], an)
    m = {"StartAt": a_name, "States": {a_name: put_next(body("Pass"), "P"), "P": p, "B": {"Type": "Succeed"}}}
    return m


# --------------------------------------------------------------------------- (A) validator totality
NK = 13
SPOOL = ["", "A", "$", "$.a", "Z", "2020-01-01T00:00:00Z", "arn:aws:x", "States.ALL", "Pass", "$$", "a b", "\u00e9\n"]
IPOOL = [-1, 0, 1, 2, 99999999, 100000000]
NS = len(SPOOL)
NI = len(IPOOL)


def val(kind, i, si, b):
    """A JSON value of the selected kind.  i, si index concrete pools, b is a bool; all
    are forked per path (explicit pick), so the value is a plain concrete JSON value."""
    if kind == 0: return None
    if kind == 1: return True if b else False
    if kind == 2: return pick(IPOOL, i)
    if kind == 3: return pick(SPOOL, si)
    if kind == 4: return 1.5
    if kind == 5: return []
    if kind == 6: return [pick(IPOOL, i)]
    if kind == 7: return [pick(SPOOL, si)]
    if kind == 8: return [{}]
    if kind == 9: return {}
    if kind == 10: return {"x": pick(SPOOL, si)}
    s = pick(SPOOL, si)
    if kind == 11: return [{"ErrorEquals": [s], "Next": s, "Variable": s, "StartAt": s, "States": {}}]
    return {"StartAt": s, "States": {"I": {"Type": "Pass", "End": True if b else False}}, "Type": s, "Next": s}


def leaves_ok(kinds, i, si, b, ns=NS):
    """Selectors that the chosen kinds do not use are pinned (no duplicate paths)."""
    uses_s = any(k in (3, 7, 10, 11, 12) for k in kinds)
    uses_i = any(k in (2, 6) for k in kinds)
    uses_b = any(k in (1, 12) for k in kinds)
    if not (0 <= i < NI and 0 <= si < ns):
        return False
    if not uses_s and si != 0:
        return False
    if not uses_i and i != 0:
        return False
    if not uses_b and b:
        return False
    return True


TOPKEYS = ["StartAt", "States", "Comment", "Version", "TimeoutSeconds", "Type", "Next", "End", "Branches", "Iterator", "Zz", ""]
_A_OUT = ["JSON values outside the generated shapes: one mutated member (any JSON kind, strings/ints from the pools SPOOL/IPOOL) inside a well-formed frame, "
          "or the top-level shapes of lint_any_top; string CONTENT is covered symbolically only at the sinks of lint_sym_string"]


@condition(timeout={"quick": 180, "thorough": 300}, bounds={"quick": {"K2": "k2 in (0, 3)", "NS": 7}, "thorough": {"K2": "True", "NS": 12}},
           functions=["StateLint.validate", "Validator.validate", "NodeValidator.validate_node", "StateNode.check"], outside=_A_OUT)
def lint_any_top(shape: int, k1: int, k2: int, i: int, si: int, b: bool) -> bool:
    """
    requires: 0 <= shape <= 4 and 0 <= k1 < NK and 0 <= k2 < NK
    requires: (shape in (2, 3) and (@K2@)) or (shape == 4 and k2 < len(TOPKEYS)) or k2 == 0
    requires: leaves_ok((k1, k2) if shape in (2, 3) else (k1,), i, si, b, @NS@)
    ensures: _
    """
    v1 = val(k1, i, si, b)
    if shape == 0: v = v1
    elif shape == 1: v = [v1]
    elif shape == 2: v = {"StartAt": v1, "States": val(k2, i, si, b)}
    elif shape == 3: v = {"StartAt": "A", "States": {"A": v1, "B": val(k2, i, si, b)}}
    else: v = {pick(TOPKEYS, k2): v1, "StartAt": "A"}
    return natively(lint_total, v)


COMMON = ["Type", "Next", "End", "Comment", "InputPath", "OutputPath", "Zz"]
ROLE_FIELDS = {
    "Pass": ["Result", "ResultPath", "Parameters"],
    "Succeed": [],
    "Fail": ["Error", "Cause"],
    "Task": ["Resource", "TimeoutSeconds", "HeartbeatSeconds", "TimeoutSecondsPath", "HeartbeatSecondsPath", "Retry", "Catch",
             "ResultPath", "ResultSelector", "Parameters"],
    "Choice": ["Choices", "Default"],
    "Wait": ["Seconds", "SecondsPath", "Timestamp", "TimestampPath"],
    "Parallel": ["Branches", "Retry", "Catch", "ResultPath", "ResultSelector", "Parameters"],
    "Map": ["Iterator", "ItemProcessor", "ItemsPath", "ItemSelector", "MaxConcurrency", "Retry", "Catch", "Parameters"],
}
SUBROLES = [
    ("Retrier", ["ErrorEquals", "IntervalSeconds", "MaxAttempts", "BackoffRate", "Zz"]),
    ("Catcher", ["ErrorEquals", "Next", "ResultPath", "Zz"]),
    ("Rule", ["And", "Or", "Not", "Next", "Variable", "StringEquals", "NumericEquals", "BooleanEquals", "TimestampEquals", "IsNull",
              "StringMatches", "StringEqualsPath", "Zz"]),
    ("Nested", ["And", "Or", "Not", "Next", "Variable", "StringEquals", "NumericLessThan", "TimestampLessThan", "IsPresent",
                "BooleanEqualsPath", "Zz"]),
    ("Branch", ["StartAt", "States", "Comment", "Zz"]),
]


def state_frame(tp, field, v):
    st = body(tp)
    if tp not in ("Choice", "Succeed", "Fail"):
        st["Next"] = "B"
    st[field] = v
    return {"StartAt": "A", "States": {"A": st, "B": {"Type": "Succeed"}}}


def sub_frame(role, field, v):
    if role == "Retrier":
        a = {"Type": "Task", "Resource": RES, "End": True, "Retry": [{"ErrorEquals": ["E"], field: v}]}
    elif role == "Catcher":
        a = {"Type": "Task", "Resource": RES, "End": True, "Catch": [{"ErrorEquals": ["E"], "Next": "B", field: v}]}
    elif role == "Rule":
        a = {"Type": "Choice", "Default": "B", "Choices": [{"Variable": "$.x", "IsPresent": True, "Next": "B", field: v}]}
    elif role == "Nested":
        a = {"Type": "Choice", "Default": "B", "Choices": [{"Next": "B", "And": [{"Variable": "$.x", "IsString": True, field: v}]}]}
    else:
        a = {"Type": "Parallel", "End": True, "Branches": [{"StartAt": "I", "States": {"I": {"Type": "Pass", "End": True}}, field: v}]}
    return {"StartAt": "A", "States": {"A": a, "B": {"Type": "Succeed"}}}


_A_FUNCS = ["NodeValidator.validate_node (roles, child and grandchild roles)", "FieldTypeConstraint.check/value_check", "FieldValueConstraint.check",
            "HasFieldConstraint/DoesNotHaveFieldConstraint/OnlyOneOfConstraint/NonEmptyConstraint.check", "RoleFinder.find_more_roles",
            "JSONPathChecker.is_path/is_reference_path", "StateNode.check/probe_choice_state/probe_payload_template/check_States_ALL"]


def _make_lint_state(tp):
    fields = COMMON + ROLE_FIELDS[tp]
    name = "lint_state_" + tp

    @condition(timeout={"quick": 180, "thorough": 300}, functions=_A_FUNCS, outside=_A_OUT,
               bounds={"quick": {"NS": 7}, "thorough": {"NS": 12}})
    def cond(f: int, k: int, i: int, si: int, b: bool) -> bool:
        """
        requires: 0 <= f < NF and 0 <= k < NK and leaves_ok((k,), i, si, b, @NS@)
        ensures: _
        """
        return natively(lint_total, state_frame(tp, pick(fields, f), val(k, i, si, b)))
    cond.__doc__ = cond.__doc__.replace("NF", str(len(fields)))
    cond.__name__ = cond.__qualname__ = name
    globals()[name] = cond


for _tp in TYPES[:8]:
    _make_lint_state(_tp)


def _make_lint_sub(idx):
    role, fields = SUBROLES[idx]
    name = "lint_sub_" + role

    @condition(timeout={"quick": 180, "thorough": 300}, functions=_A_FUNCS, outside=_A_OUT,
               bounds={"quick": {"NS": 7}, "thorough": {"NS": 12}})
    def cond(f: int, k: int, i: int, si: int, b: bool) -> bool:
        """
        requires: 0 <= f < NF and 0 <= k < NK and leaves_ok((k,), i, si, b, @NS@)
        ensures: _
        """
        return natively(lint_total, sub_frame(role, pick(fields, f), val(k, i, si, b)))
    cond.__doc__ = cond.__doc__.replace("NF", str(len(fields)))
    cond.__name__ = cond.__qualname__ = name
    globals()[name] = cond


for _i in range(len(SUBROLES)):
    _make_lint_sub(_i)


# string CONTENT, symbolically: the sinks of the validator that look inside a string
SINKS = [("state", "Wait", "Timestamp"), ("sub", "Rule", "TimestampEquals"), ("state", "Task", "Resource"), ("state", "Pass", "InputPath"),
         ("state", "Pass", "ResultPath"), ("state", "Pass", "Type"), ("state", "Pass", "Next"), ("state", "Pass", "Comment"),
         ("sub", "Rule", "Variable"), ("sub", "Catcher", "ErrorEquals"), ("sub", "Branch", "StartAt"), ("state", "Pass", "Parameters"),
         ("sub", "Rule", "StringEqualsPath"), ("state", "Choice", "Default")]


@condition(timeout={"quick": 180, "thorough": 900}, bounds={"quick": {"N": 2, "AL": "'Z.$a:T'"}, "thorough": {"N": 4, "AL": "'Z.$a:T'"}},
           functions=["FieldTypeConstraint.value_check (timestamp / URI / JSONPath / referencePath / string branches) on a symbolic string",
                      "FieldValueConstraint.check (enum)", "StateNode.add_next", "StateNode.probe_payload_template/is_intrinsic_invocation",
                      "JSONPathChecker regexes"],
           outside=["strings longer than the tier bound or outside the tier alphabet (every reported problem formats the value, which realises it)"])
def lint_sym_string(w: int, s: str) -> bool:
    """
    requires: 0 <= w < len(SINKS) and len(s) <= @N@ and all(c in @AL@ for c in s)
    ensures: _
    """
    how, role, field = pick(SINKS, w)
    v = s
    if field == "ErrorEquals": v = [s]
    if field == "Parameters": v = {"k.$": s}
    m = state_frame(role, field, v) if how == "state" else sub_frame(role, field, v)
    return lint_total(m)


# --------------------------------------------------------------------------- (C) poison isolation
H_ARN = "arn:aws:states:local:0123456789:stateMachine:healthy"
P_ARN = "arn:aws:states:local:0123456789:stateMachine:poison"
U_ARN = "arn:aws:states:local:0123456789:stateMachine:unknown"
HEALTHY = {"StartAt": "H1", "States": {"H1": {"Type": "Pass", "Next": "H2"}, "H2": {"Type": "Pass", "End": True}}}
W_ARN = "arn:aws:states:local:0123456789:stateMachine:waiting"
WAITING = {"StartAt": "W1", "States": {"W1": {"Type": "Wait", "Seconds": 5, "Next": "W2"}, "W2": {"Type": "Pass", "End": True}}}
stubs.install_env(edm)


class FakeMsg:
    """The delivery as the messaging layer hands it to dispatch().  acknowledge() has the signature and the AMQP
    meaning of the real Message.acknowledge of both transports: multiple=True (the default) settles every
    outstanding delivery of the channel up to and including this one."""
    def __init__(self, body, mid, channel=None):
        self.body = body
        self.message_id = mid
        self.redelivered = False
        self.acks = 0                 # basic.ack frames naming this delivery
        self.settled_by_other = 0     # times this delivery was settled by the multiple-ack of another one
        self.channel = channel if channel is not None else []
        self.channel.append(self)

    def acknowledge(self, multiple=True, threadsafe=False):
        self.acks += 1
        if multiple:
            for m in self.channel:
                if m is self:
                    break
                if m.acks == 0 and m.settled_by_other == 0:
                    m.settled_by_other += 1


class World:
    """A real StateEngine + a real EventDispatcher (dispatch/acknowledge) without a broker."""
    def __init__(self, stored):
        self.eng, self.log = stubs.make_engine(HEALTHY)
        rec = self.eng.asl_store[SM_ARN]
        del self.eng.asl_store[SM_ARN]
        h = dict(rec); h["stateMachineArn"] = H_ARN; h["name"] = "healthy"
        self.eng.asl_store[H_ARN] = h
        wrec = dict(rec); wrec["stateMachineArn"] = W_ARN; wrec["name"] = "waiting"; wrec["definition"] = WAITING
        self.eng.asl_store[W_ARN] = wrec
        if stored is not ABSENT:
            p = dict(rec); p["stateMachineArn"] = P_ARN; p["name"] = "poison"; p["definition"] = stored
            self.eng.asl_store[P_ARN] = p
        ed = edm.EventDispatcher.__new__(edm.EventDispatcher)
        ed.logger = stubs.SILENT
        ed.unacknowledged_messages = {}
        ed.state_engine = self.eng
        self.queue = []            # published, not yet delivered event bodies (FIFO)
        self.timers = []
        log = self.log

        def publish(item, threadsafe=False, use_shared_queue=False):
            self.queue.append(_json.dumps(item).encode("utf8"))

        def broadcast(subject, item, carrier_properties=None):
            log.append(("broadcast", subject, copy.deepcopy(item)))

        def set_timeout(cb, delay):
            if delay == 0:
                cb()
            else:
                self.timers.append(cb)
            return len(self.timers)

        ed.publish = publish; ed.broadcast = broadcast; ed.set_timeout = set_timeout
        ed.clear_timeout = lambda tid: None
        self.ed = ed
        self.eng.event_dispatcher = ed
        self.n = 0
        self.msgs = []
        self.escaped = None
        self.channel = []

    def fire_timers(self):
        ts, self.timers = self.timers, []
        for cb in ts:
            try:
                cb()
            except Exception as e:
                self.escaped = type(e).__name__

    def deliver(self, body):
        self.n += 1
        m = FakeMsg(body, "d%d" % self.n, self.channel)
        self.msgs.append(m)
        try:
            self.ed.dispatch(m)
        except Exception as e:
            self.escaped = type(e).__name__
        return m

    def drain(self, bound=8):
        k = 0
        while self.queue and k < bound:
            self.deliver(self.queue.pop(0))
            k += 1

    def statuses(self, execution_arn):
        return [l[2]["detail"].get("status") for l in self.log
                if l[0] == "broadcast" and l[2].get("detail", {}).get("executionArn") == execution_arn]

    def output(self, execution_arn):
        for l in self.log:
            if l[0] == "broadcast" and l[2]["detail"].get("executionArn") == execution_arn and l[2]["detail"].get("status") == "SUCCEEDED":
                return l[2]["detail"].get("output")
        return None


def ex_arn(arn, name):
    return arn.replace(":stateMachine:", ":execution:") + ":" + name


def start_event(arn, name, data, extra_ctx=None, sm_extra=None):
    sm = {"Id": arn}
    if sm_extra:
        sm.update(sm_extra)
    ctx = {"StateMachine": sm, "Execution": {"Id": ex_arn(arn, name), "Name": name}}
    if extra_ctx:
        ctx.update(extra_ctx)
    return {"data": data, "context": ctx}


BROKEN = [
    {"StartAt": "X", "States": {"A": {"Type": "Pass", "End": True}}},          # 9/0 StartAt dangling
    {"StartAt": "A"},                                                          # 9/1 States missing
    {"StartAt": "A", "States": {"A": {"End": True}}},                          # 9/2 state without Type
    {"States": {"A": {"Type": "Pass", "End": True}}},                          # 9/3 StartAt missing
    {"StartAt": "A", "States": None},                                          # 9/4
    {"StartAt": "A", "States": {"A": None}},                                   # 9/5
    {"StartAt": "A", "States": {"A": {"Type": "Foo", "End": True}}},           # 9/6 unknown Type
    {"StartAt": "A", "States": {"A": {"Type": "Pass", "Next": "X"}}},          # 9/7 dangling Next
    {"StartAt": "A", "States": {"A": {"Type": "Pass"}}},                       # 10/0 missing Next
    {"StartAt": "A", "States": {"A": {"Type": "Choice"}}},                     # 10/1 missing Choices
    {"StartAt": "A", "States": {"A": {"Type": "Parallel", "Branches": [{}], "End": True}}},                       # 10/2 branch without StartAt
    {"StartAt": "A", "States": {"A": {"Type": "Map", "Iterator": {"StartAt": "Q"}, "End": True}}},                # 10/3 iterator without States
    5, "x", [1], True,                                                          # 10/4-7 stored definition is not an object
    {"StartAt": "", "States": {"A": {"Type": "Pass", "End": True}}},           # 13/0 empty-string targets
    {"StartAt": "A", "States": {"A": {"Type": "Pass", "Next": ""}}},           # 13/1
    {"StartAt": "A", "States": {"A": {"Type": "Parallel", "Branches": [], "End": True}}},                          # 13/2
    {"StartAt": "A", "States": {"A": {"Type": "Parallel", "Branches": [{"StartAt": "", "States": {}}], "End": True}}},   # 13/3
    {"StartAt": "A", "States": {"A": {"Type": "Choice", "Choices": [], "Default": ""}}},                           # 13/4
    {"StartAt": "A", "States": [{"A": {"Type": "Pass", "End": True}}]},        # 13/5 wrong JSON types
    {"StartAt": ["A"], "States": {"A": {"Type": "Pass", "End": True}}},        # 13/6
    {"StartAt": "A", "States": {"A": {"Type": ["Pass"], "End": True}}},        # 13/7
]
WRONG = [5, "x", [], {}, None, True, [1], {"x": 1}]
NOTJSON = [b"", b"{", b"abc", b"[1,", b"\xff\xfe", b"{'a': 1}", b"{\"context\": ", b"nul"]


def poison_body(kind, sub):
    """(body bytes, stored definition for P_ARN or ABSENT, execution ARN identified by the event or None)"""
    pex = ex_arn(P_ARN, "p1")
    if kind == 0:
        return pick(NOTJSON, sub), ABSENT, None
    if kind == 1:
        return _json.dumps(pick([5, "x", True, None, 1.5, -1, "", 0], sub)).encode(), ABSENT, None
    if kind == 2:
        return _json.dumps(pick([[], [1], [{"context": {}}], [[]], ["context"], [None], [{}], [1, 2]], sub)).encode(), ABSENT, None
    if kind == 3:
        return _json.dumps(pick([{}, {"data": {}}, {"context": None}, {"Context": {}}, {"data": None}, {"x": 1}, {"": 0},
                                 {"data": {"context": {}}}], sub)).encode(), ABSENT, None
    if kind == 4:
        return _json.dumps({"data": {}, "context": pick(WRONG, sub)}).encode(), ABSENT, None
    if kind == 5:
        return _json.dumps({"data": {}, "context": {"StateMachine": pick(WRONG, sub)}}).encode(), ABSENT, None
    if kind == 6:
        ident = pick([5, [], {}, "", "x", None, "arn:aws", "a:b:c:d:e:f:g"], sub)
        return _json.dumps({"data": {}, "context": {"StateMachine": {"Id": ident}}}).encode(), ABSENT, None
    if kind == 7:
        ev = start_event(U_ARN, "p1", {})
        ev["context"].update(pick([{}, {"State": {"Name": "A"}}, {"State": {}}, {"State": None}, {"State": 5},
                                   {"Execution": 5}, {"Execution": {}}, {"Tracer": 5}], sub))
        return _json.dumps(ev).encode(), ABSENT, ex_arn(U_ARN, "p1")
    if kind == 8:
        ev = start_event(P_ARN, "p1", {}, sm_extra={"Definition": pick(WRONG, sub)})
        return _json.dumps(ev).encode(), ABSENT, pex
    if kind in (9, 10, 13):
        i = sub + (0 if kind == 9 else 8 if kind == 10 else 16)
        return _json.dumps(start_event(P_ARN, "p1", [0])).encode(), pick(BROKEN, i), pex
    if kind == 11:      # in-flight event of a stored well-formed machine naming an impossible position
        ev = start_event(P_ARN, "p1", {})
        ev["context"].update(pick([{"State": {"Name": "Q"}}, {"State": {"Name": 5}}, {"State": {"Name": ["H1"]}}, {"State": 5},
                                   {"State": "H1"}, {"Execution": 5}, {"Execution": None}, {"State": {"Name": "H1", "Branch": 5}}], sub))
        return _json.dumps(ev).encode(), HEALTHY, pex
    # kind 12: data of an unusual shape for a well-formed definition stored under the poison ARN (control: may succeed)
    ev = start_event(P_ARN, "p1", pick([None, 5, "x", [], [1], True, {"Error": "x"}, {"x": {"y": []}}], sub))
    return _json.dumps(ev).encode(), HEALTHY, pex


def poison_run(kind, sub, late):
    """Verdict string; "ok" when every clause of the isolation claim holds."""
    stubs.SeqUUID.reset()
    body, stored, pex = poison_body(kind, sub)
    w = World(stored)
    h1 = ex_arn(H_ARN, "h1"); h2 = ex_arn(H_ARN, "h2"); h0 = ex_arn(W_ARN, "h0")
    # a healthy execution parked in a Wait state: its event stays unacknowledged (crash protection) while the poison arrives
    parked = w.deliver(_json.dumps(start_event(W_ARN, "h0", {"v": 0})).encode())
    w.deliver(_json.dumps(start_event(H_ARN, "h1", {"v": 1})).encode())
    if late:
        w.drain(1)
    pm = w.deliver(body)
    if w.escaped:
        return "escaped:" + w.escaped
    if pm.acks != 1:
        return "poison-acks:%d" % pm.acks
    if parked.acks or parked.settled_by_other:
        return "parked-delivery-settled-by-the-poison-ack"
    w.drain()
    w.fire_timers()                   # the Wait of h0 ends: h0 goes on and acknowledges its own event
    w.drain()
    if w.statuses(h0) != ["RUNNING", "SUCCEEDED"]:
        return "healthy0:%s" % w.statuses(h0)
    w.deliver(_json.dumps(start_event(H_ARN, "h2", {"v": 2})).encode())
    w.drain()
    if w.escaped:
        return "escaped-later:" + w.escaped
    if w.statuses(h1) != ["RUNNING", "SUCCEEDED"] or w.output(h1) != '{"v": 1}':
        return "healthy1:%s" % w.statuses(h1)
    if w.statuses(h2) != ["RUNNING", "SUCCEEDED"] or w.output(h2) != '{"v": 2}':
        return "healthy2:%s" % w.statuses(h2)
    for m in w.msgs:
        if m.acks != 1 or m.settled_by_other:
            return "acks:%s=%d+%d" % (m.message_id, m.acks, m.settled_by_other)
    if w.queue:
        return "poison-live"            # healthy executions fine, but the poison execution is still circulating
    if pex is not None:
        st = w.statuses(pex)
        term = [s for s in st if s != "RUNNING"]
        if kind != 12 and (len(term) > 1 or any(s != "FAILED" for s in term)):
            return "poison-status:%s" % st
    return "ok"


# --------------------------------------------------------------------------- (B) conditions
_B_FUNCS = ["StateLint.validate", "NodeValidator.validate_node + every J2119 constraint class", "StateNode.check/check_next/add_next/check_for_terminal",
            "StateEngine.notify (all asl_state_* handlers, handle_error, handle_terminal_state, asl_state_collect_results)",
            "StateEngine.change_state", "StateEngine.start_execution/end_execution", "find_state"]
_B_OUT = ["machines larger than the skeleton (3 top-level states; one Parallel/Map with one 2-state branch, optionally a second 1-state branch)",
          "run-time outcomes other than the four 'Illegal State Machine' defences (an accepted definition may still fail for data reasons, loop, or stall: reported in notes/C18.md, not part of the claim's oracle)"]


@condition(timeout={"quick": 180, "thorough": 600}, functions=_B_FUNCS, outside=_B_OUT,
           bounds={"quick": {"SA": "(0, 1, 3, 4, 5, 6)", "NP": "(0, 1, 2, 4, 5, 6)"}, "thorough": {"SA": "range(7)", "NP": "range(8)"}})
def agree_targets_top(choice: bool, sa: int, n1: int, n2: int, np_: int) -> bool:
    """
    requires: sa in @SA@ and 0 <= n1 < 8 and 0 <= n2 < 7 and np_ in @NP@
    requires: choice or n2 == 0
    ensures: _
    """
    return agrees(verdict(build_targets_top(choice, sa, n1, n2, np_)))


@condition(timeout={"quick": 180, "thorough": 300}, functions=_B_FUNCS, outside=_B_OUT)
def agree_targets_catch(kind: int, fails: bool, nc: int, np_: int) -> bool:
    """
    requires: 0 <= kind < 3 and 0 <= nc < 7 and 0 <= np_ < 8
    ensures: _
    """
    return agrees(verdict(build_targets_catch(kind, fails, nc, np_)))


@condition(timeout={"quick": 180, "thorough": 900}, functions=_B_FUNCS, outside=_B_OUT,
           bounds={"quick": {"K": "(kind == 0 and (not ichoice or nj == 6)) or (not ichoice and nj == 6)"}, "thorough": {"K": "True"}})
def agree_targets_inner(kind: int, ichoice: bool, isa: int, ni: int, nd: int, nj: int) -> bool:
    """
    requires: 0 <= kind < 3 and 0 <= isa < 6 and 0 <= ni < 7 and 0 <= nd < 7 and 0 <= nj < 7
    requires: ichoice or nd == 0
    requires: @K@
    ensures: _
    """
    return agrees(verdict(build_targets_inner(kind, ichoice, isa, ni, nd, nj)))


@condition(timeout={"quick": 180, "thorough": 300}, functions=_B_FUNCS, outside=_B_OUT)
def agree_types_a(ta: int, fa: int, na: int) -> bool:
    """
    requires: 0 <= ta < 9 and 0 <= fa < 9 and 0 <= na < 3
    ensures: _
    """
    return agrees(verdict(build_types_a(ta, fa, na)))


@condition(timeout={"quick": 180, "thorough": 300}, functions=_B_FUNCS, outside=_B_OUT)
def agree_types_p(tp: int, fp: int, ti: int, tj: int) -> bool:
    """
    requires: 0 <= tp < 9 and 0 <= fp < 4 and 0 <= ti < 9 and 0 <= tj < 5
    ensures: _
    """
    return agrees(verdict(build_types_p(tp, fp, ti, tj)))


@condition(timeout={"quick": 180, "thorough": 300}, functions=_B_FUNCS, outside=_B_OUT)
def agree_kinds_a(ta: int, f: int, k: int) -> bool:
    """
    requires: 0 <= ta < 8 and 0 <= f < len(fields_a(TYPES[ta])) and 0 <= k < len(KINDS)
    ensures: _
    """
    return agrees(verdict(build_kinds_a(ta, f, k)))


@condition(timeout={"quick": 180, "thorough": 300}, functions=_B_FUNCS, outside=_B_OUT)
def agree_kinds_rest(fails: bool, achoice: bool, f: int, k: int) -> bool:
    """
    requires: 0 <= f < len(FIELDS_REST) and 0 <= k < len(KINDS)
    ensures: _
    """
    return agrees(verdict(build_kinds_rest(fails, achoice, f, k)))


PK = [0, 1, 7, 8, 10, 13]       # kinds used in pairs: absent, null, "", "B", [], {}


@condition(timeout={"quick": 180, "thorough": 1500}, tiers=("thorough",), functions=_B_FUNCS, outside=_B_OUT)
def agree_kinds_pair(achoice: bool, f1: int, k1: int, f2: int, k2: int) -> bool:
    """
    requires: 0 <= f1 < f2 < len(FIELDS_REST) and 0 <= k1 < len(PK) and 0 <= k2 < len(PK)
    ensures: _
    """
    return agrees(verdict(build_kinds_pair(achoice, f1, pick(PK, k1), f2, pick(PK, k2))))


@condition(timeout={"quick": 180, "thorough": 900}, functions=_B_FUNCS, outside=_B_OUT,
           bounds={"quick": {"K": "(kind == 0 and an == 0) or (nk == 0 and pay == 0 and ni < 2)"}, "thorough": {"K": "True"}})
def agree_names(kind: int, ni: int, nj: int, nk: int, pay: int, an: int) -> bool:
    """
    requires: 0 <= kind < 3 and 0 <= ni < 11 and 0 <= nj < 11 and ni != nj and 0 <= nk < 4 and 0 <= pay < 3 and 0 <= an < 4
    requires: kind == 0 or nk == 0
    requires: @K@
    ensures: _
    """
    return agrees(verdict(build_names(kind, ni, nj, nk, pay, an), both=False))


# a fully traced slice: the same real code under the CrossHair tracer (no fast path), as a cross-check of natively()
@condition(timeout={"quick": 180, "thorough": 300}, functions=_B_FUNCS,
           outside=["cross-check of the concrete fast path on a 36-definition slice of agree_targets_top / agree_types_a"])
def agree_traced_slice(which: bool, a: int, b: int) -> bool:
    """
    requires: 0 <= a < 6 and 0 <= b < 3
    ensures: _
    """
    if which:
        m = build_targets_top(True, pick([0, 5], b), a, 2, 2)
    else:
        m = build_types_a(a + 3, a + 3, b)
    return agree(m, both=False) == verdict(m, both=False)


# --------------------------------------------------------------------------- (C) conditions
_C_FUNCS = ["EventDispatcher.dispatch", "EventDispatcher.acknowledge", "StateEngine.notify (head: log_and_drop paths, embedded Definition, start_execution)",
            "StateEngine.log_and_drop", "find_state", "handle_error/end_execution on broken definitions"]


@condition(timeout={"quick": 180, "thorough": 300}, functions=_C_FUNCS,
           outside=["a poison event that embeds a Definition under the ARN of ANOTHER machine (documented by-value update of that machine)",
                    "a poison event that reuses the execution ARN of a healthy execution",
                    "redelivered=True deliveries; Task/Wait states inside the poison machine (their events are legitimately acknowledged later)",
                    "broker behaviour (the fake message only counts acknowledge calls)"])
def poison_isolation(kind: int, sub: int, late: bool) -> bool:
    """
    requires: 0 <= kind <= 13 and 0 <= sub < 8
    ensures: _
    """
    return natively(poison_run, sel(kind, 14), sel(sub, 8), True if late else False) == "ok"


def poison_sym_run(pos, s, i):
    """Traced variant: a short symbolic string / small int placed in the poison delivery."""
    stubs.SeqUUID.reset()
    stored = ABSENT
    if pos == 0:
        body = s.encode("utf8")                                   # raw body: not JSON, or a JSON scalar/array/object fragment
    elif pos == 1:
        ev = start_event(P_ARN, "p1", {}); ev["context"]["State"] = {"Name": s}
        body = _json.dumps(ev).encode(); stored = HEALTHY         # in-flight event naming state s
    elif pos == 2:
        body = _json.dumps({"data": {}, "context": {"StateMachine": {"Id": s}}}).encode()
    elif pos == 3:
        body = _json.dumps(start_event(P_ARN, "p1", {}, sm_extra={"Definition": i})).encode()
    else:
        body = _json.dumps({"data": i, "context": {"StateMachine": {"Id": P_ARN}, "State": {"Name": i}}}).encode(); stored = HEALTHY
    w = World(stored)
    pm = w.deliver(body)
    if w.escaped:
        return "escaped:" + w.escaped
    if pm.acks != 1:
        return "poison-acks:%d" % pm.acks
    w.drain(3)
    w.deliver(_json.dumps(start_event(H_ARN, "h2", {"v": 2})).encode())
    w.drain(3)
    if w.escaped:
        return "escaped-later:" + w.escaped
    if w.statuses(ex_arn(H_ARN, "h2")) != ["RUNNING", "SUCCEEDED"]:
        return "healthy2"
    for m in w.msgs:
        if m.acks != 1:
            return "acks:%s=%d" % (m.message_id, m.acks)
    return "ok"


@condition(timeout={"quick": 180, "thorough": 1200}, bounds={"quick": {"N": 1, "AL": "'H1{\"'"}, "thorough": {"N": 2, "AL": "'H1{\"[:'"}},
           functions=_C_FUNCS + ["json.loads of the delivered body"],
           outside=["strings longer than the tier bound / outside the tier alphabet; ints outside -1..2"])
def poison_symbolic(pos: int, s: str, i: int) -> bool:
    """
    requires: 0 <= pos <= 4 and len(s) <= @N@ and all(c in @AL@ for c in s) and -1 <= i <= 2
    requires: (pos < 3 and i == 0) or (pos >= 3 and s == "")
    ensures: _
    """
    return poison_sym_run(sel(pos, 5), s, i) == "ok"


# --------------------------------------------------------------------- addition after the seeded-change round
# Two levels of nesting (a Parallel inside a branch of a Parallel): accepted by the validator, so it must run.
import s2_scenarios as _scn
from vf.api import condition as _condition


@_condition(timeout={"quick": 600, "thorough": 1800}, functions=["StateLint.validate on a depth-2 machine", "find_state (inner-most States object)"] + _scn.ENGINE_FUNCS)
def nested_accepted_runs(c0: int, c1: int, c2: int, c3: int, c4: int, c5: int, c6: int, c7: int, c8: int, c9: int) -> str:
    """
    requires: True
    ensures: _ == ""
    """
    inner = {"Type": "Parallel", "End": True, "Branches": [
        {"StartAt": "L0", "States": {"L0": {"Type": "Pass", "Result": "l0", "Next": "Leaf1"}, "Leaf1": {"Type": "Pass", "Result": "l1", "End": True}}},
        {"StartAt": "QT", "States": {"QT": _scn.task("fq", End=True)}}]}
    asl = {"StartAt": "P", "States": {"P": {"Type": "Parallel", "End": True, "Branches": [
        {"StartAt": "Q", "States": {"Q": inner}},
        {"StartAt": "O", "States": {"O": _scn.task("fo", End=True)}}]}}}
    from statelint.statelint import StateLint
    problems = StateLint().validate(asl)
    if problems:
        return "validator rejects the nested machine: %r" % (problems,)
    r = _scn.nested_par({"C18", "C02"}, False, c0, c1, c2, c3, c4, c5, c6, c7, c8, c9)
    return r


# states NAMED like the fields of the language: a checker that treats a member by its name (skipping "Result",
# recursing into "States", ...) must still treat it as a state when it is a member of a States object
KEYWORD_NAMES = ["Result", "Parameters", "ItemSelector", "ResultSelector", "Next", "Default", "States", "Branches", "Catch", "Retry",
                 "Choices", "Iterator", "ItemProcessor", "Type", "End", "StartAt", "Comment", "InputPath", "Variable", "And",
                 # names that are not identifiers: a look-up that pastes the name into a path expression goes wrong on these
                 "Step 1.2", "retry[1]", "a;b", "1", "*", "a.b", "$", "'q'", "x,y", ".."]
DEFECTS = ["none", "dangling Next", "dangling Default", "dangling Choice Next", "dangling Catch Next", "branch StartAt dangling",
           "branch re-uses a top-level state name", "branch Next dangling", "iterator re-uses the state's own name"]


def build_keyword_named(ni, di, inner):
    nm = pick(KEYWORD_NAMES, ni)
    d = pick(DEFECTS, di)
    if d == "none":
        st = put_next(body("Pass"), "B")
    elif d == "dangling Next":
        st = put_next(body("Pass"), "X")
    elif d == "dangling Default":
        st = body("Choice", rule_next="B", default="X")
    elif d == "dangling Choice Next":
        st = body("Choice", rule_next="X", default="B")
    elif d == "dangling Catch Next":
        st = put_next(body("Task"), "B"); st["Catch"] = [{"ErrorEquals": ["States.ALL"], "Next": "X"}]
    elif d == "branch StartAt dangling":
        st = put_next(body("Parallel", br=branch(start="X")), "B")
    elif d == "branch re-uses a top-level state name":
        st = put_next(body("Parallel", br=branch(i_name="B", start="B", i_next="J")), "B")
    elif d == "branch Next dangling":
        st = put_next(body("Map", br=branch(i_next="X")), "B")
    else:
        st = put_next(body("Map", br=branch(i_name=nm, start=nm, i_next="J")), "B")
    # every other state is reachable from a state with an ordinary name (a Choice leads to the keyword-named state
    # and to B), so that only the keyword-named state's own transitions decide the verdict
    level = {"StartAt": "A0", "States": {"A0": body("Choice", rule_next=nm, default="B"), nm: st, "B": {"Type": "Succeed"}}}
    if inner:
        # the keyword-named state sits one level down, inside a Parallel branch
        return {"StartAt": "A", "States": {"A": put_next(body("Parallel", br=level), "Z"), "Z": {"Type": "Succeed"}}}
    return level


@condition(timeout={"quick": 180, "thorough": 300}, functions=_B_FUNCS, outside=_B_OUT)
def agree_keyword_named_states(ni: int, di: int, inner: bool) -> bool:
    """
    requires: 0 <= ni < len(KEYWORD_NAMES) and 0 <= di < len(DEFECTS)
    ensures: _
    """
    return agrees(verdict(build_keyword_named(ni, di, True if inner else False)))



# numeric fields whose legal values are a sub-range of the numbers: what the validator accepts must run to a terminal
# status (never stall with nothing left to deliver, never escape notify), and must not fail for being ill-typed
NUM_VALUES = [-1, -2, 0, 1, 2, 3, 1.5, -0.5, True, 2.0, "2", None]
NUM_FIELDS = ["Map.MaxConcurrency (Iterator, End)", "Map.MaxConcurrency (ItemProcessor, Next)", "Map.MaxConcurrency inside a Parallel branch",
              "Wait.Seconds", "Task.TimeoutSeconds", "Task.HeartbeatSeconds", "top-level TimeoutSeconds"]
NUM_DATA = {"x": 1, "items": [0], "items3": [1, 2, 3]}


def build_numeric(fi, vi):
    v = NUM_VALUES[vi]
    it = {"StartAt": "P", "States": {"P": {"Type": "Pass", "End": True}}}
    task = {"Type": "Task", "Resource": "arn:aws:rpcmessage:local::function:f", "End": True}
    if fi == 0:
        return {"StartAt": "M", "States": {"M": {"Type": "Map", "ItemsPath": "$.items3", "MaxConcurrency": v, "Iterator": it, "End": True}}}
    if fi == 1:
        return {"StartAt": "M", "States": {"M": {"Type": "Map", "ItemsPath": "$.items3", "MaxConcurrency": v, "ItemProcessor": it, "Next": "Z"}, "Z": {"Type": "Succeed"}}}
    if fi == 2:
        br = {"StartAt": "M", "States": {"M": {"Type": "Map", "ItemsPath": "$.items3", "MaxConcurrency": v, "ItemProcessor": it, "End": True}}}
        other = {"StartAt": "Q", "States": {"Q": {"Type": "Pass", "End": True}}}
        return {"StartAt": "A", "States": {"A": {"Type": "Parallel", "Branches": [br, other], "Next": "Z"}, "Z": {"Type": "Succeed"}}}
    if fi == 3:
        return {"StartAt": "W", "States": {"W": {"Type": "Wait", "Seconds": v, "End": True}}}
    if fi == 4:
        return {"StartAt": "T", "States": {"T": dict(task, TimeoutSeconds=v)}}
    if fi == 5:
        return {"StartAt": "T", "States": {"T": dict(task, HeartbeatSeconds=v)}}
    return {"StartAt": "T", "TimeoutSeconds": v, "States": {"T": {"Type": "Pass", "End": True}}}


def numeric_verdict(fi, vi):
    asl = build_numeric(fi, vi)
    r = lint(asl)
    if r[0] != "ok":
        return "raised:" + r[1]
    if r[1]:
        return "rejected"
    o = drive(copy.deepcopy(asl), copy.deepcopy(NUM_DATA))
    return o[0] + ":" + str(o[1])


@condition(timeout={"quick": 180, "thorough": 300}, functions=_B_FUNCS + ["asl_state_Map_delegate (MaxConcurrency)", "StateMachine.j2119: numeric field constraints"],
           outside=_B_OUT + ["numeric fields of Retriers (C07) and of Choice comparisons (C14)"],
           note="a validator-accepted value of a numeric field must lead to a terminal status that is not a run-time failure for an ill-typed definition")
def agree_numeric_fields(fi: int, vi: int) -> bool:
    """
    requires: 0 <= fi < len(NUM_FIELDS) and 0 <= vi < len(NUM_VALUES)
    ensures: _
    """
    v = natively(numeric_verdict, stubs.cint(fi, 0, len(NUM_FIELDS) - 1), stubs.cint(vi, 0, len(NUM_VALUES) - 1))
    return v == "rejected" or v.startswith("succeeded:") or (v.startswith("failed:") and not v.startswith("failed:States.Runtime"))


@condition(timeout={"quick": 180, "thorough": 300}, functions=_C_FUNCS + ["asl_state_Map_delegate (MaxConcurrency)"],
           note="the same definitions stored WITHOUT validation (the REST API validates only on request): an uninterpretable value at worst "
                "fails the execution - it must not leave it RUNNING with nothing left to deliver, nor escape notify")
def unvalidated_numeric_fields(fi: int, vi: int) -> bool:
    """
    requires: 0 <= fi < len(NUM_FIELDS) and 0 <= vi < len(NUM_VALUES)
    ensures: _
    """
    def run(fi, vi):
        return drive(copy.deepcopy(build_numeric(fi, vi)), copy.deepcopy(NUM_DATA))[0]
    return natively(run, stubs.cint(fi, 0, len(NUM_FIELDS) - 1), stubs.cint(vi, 0, len(NUM_VALUES) - 1)) in ("succeeded", "failed")


# a poison REPLY on the reply queue: "the engine keeps serving" (whole-run, simulated broker)
import s2_found as found
found.register(globals(), {"C18", "C02", "C03"}, ["odd_task_replies"])
