"""C09 - execution history is a gap-free, ordered, faithful log."""
import vf; vf.setup_paths()
import s2_scenarios as scn
import vh_c02

PROPERTY = "C09"
ASSUMPTIONS = vh_c02.ASSUMPTIONS[:4] + [
    "history monitor after every step on the complete history: ids 1..n contiguous with previousEventId = id-1, timestamps non-decreasing, first event ExecutionStarted carrying the record's input, terminal iff exactly one ExecutionSucceeded/ExecutionFailed that is last and agrees with the record; every StateExited has an earlier unmatched StateEntered of the same name and an execution that succeeds without any failure event has no entered-but-not-exited state; EXPRESS executions store neither record nor history",
]
SPLIT = {"par2": [("_none", "not fa and not fb"), ("_a", "fa and not fb"), ("_ab", "fa and fb")],
         "par_catch": [("_s%d_a" % s, "sib == %d and fa and not fb" % s) for s in range(3)],
         "map_items": [("_ok", "failing == -1"), ("_fail", "failing >= 0 and n >= 1")]}
scn.register(globals(), {"C09"}, ["seq_chain", "seq_misc", "two_execs", "start_routes", "par2", "par_pass_task", "par_catch", "par_retry", "map_items"], SPLIT)
