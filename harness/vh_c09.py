"""C09 - execution history is a gap-free, ordered, faithful log."""
import vf; vf.setup_paths()
import s2_scenarios as scn
import vh_c02

PROPERTY = "C09"
ASSUMPTIONS = vh_c02.ASSUMPTIONS[:4] + [
    "history monitor after every step on the complete history: ids 1..n contiguous with previousEventId = id-1, timestamps non-decreasing, first event ExecutionStarted carrying the record's input, terminal iff exactly one ExecutionSucceeded/ExecutionFailed that is last and agrees with the record; every StateExited has an earlier unmatched StateEntered of the same name and an execution that succeeds without any failure event has no entered-but-not-exited state; EXPRESS executions store neither record nor history",
]
SPLIT = {"nested_par": [("_fail", "fail")], "par_branch_retry": [("_fail", "bfail")], "par_inner_catch": [("_fail", "bfail")], "par2": [("_none", "not fa and not fb"), ("_a", "fa and not fb"), ("_ab", "fa and fb")],
         "par_catch": [("_s%d_a" % s, "sib == %d and fa and not fb" % s) for s in range(3)],
         "map_items": [("_ok", "failing == -1"), ("_fail", "failing >= 0 and n >= 1")]}
scn.register(globals(), {"C09"}, ["seq_chain", "seq_misc", "exec_timeout", "two_execs", "start_routes", "par2", "par_pass_task", "par_catch", "par_retry", "map_items", "par_wait_fail", "par_branch_retry", "par_inner_catch", "nested_par"], SPLIT)
import s2_more as more
more.register(globals(), {"C09"}, ["par3_mixed", "map_iter_catch", "map_fail_batches", "map_in_par", "par_in_map", "branch_fail_state", "par_longform", "nested_inner_catch"],
              {"nested_inner_catch": [("_catch", "mode == 0 and q2 == 0"), ("_retry", "mode == 1 and q2 == 0"), ("_catch_task", "mode == 0 and q2 == 1"), ("_retry_task", "mode == 1 and q2 == 1")], "par3_mixed": [("_none", "not fa and not fb"), ("_a", "fa and not fb"), ("_b", "fb and not fa"), ("_ab", "fa and fb")], "map_in_par": [("_k%d" % k, "kind == %d" % k) for k in range(3)]})

import s2_redis as rds
rds.register(globals(), {"C09", "C11"}, ["redis_chain", "redis_name_reused"])
ASSUMPTIONS = ASSUMPTIONS + [
    "redis_* conditions: the engine's stores are the real RedisDictStore/RedisListStore over vf.fake_redis (one connection per process, tracker thread not run: cache invalidation messages are delivered by the harness before each read, or left pending); after every scheduling step DescribeExecution, GetExecutionHistory and ListExecutions are answered by the real REST handlers (asyncio / blocking front end) of the engine's own process or of a second process with its own connection, and compared with the execution's latest notification",
]
more.register(globals(), {"C09"}, ["branch_retry_kinds", "late_nested"], {"branch_retry_kinds": [("_ok", "not bfail"), ("_fail", "bfail")], "late_nested": [("_ok", "not bfail"), ("_fail", "bfail")]})

globals()["nested_inner_catch_retry_task"]._vf.tiers = ("thorough",)   # 1665 schedules: quick tier runs it under C06 only

more.register(globals(), {"C09"}, ["map_in_map"], {"map_in_map": [("_o%d" % k, "omc == %d" % k) for k in range(3)]})

more.register(globals(), {"C09"}, ["fanout_loop", "map_retry_batches"])

import s2_found as found
found.register(globals(), {"C09"}, ["caught_then_outer_fails", "three_levels", "backstop_after_end"], {"caught_then_outer_fails": [("_a", "a_fails"), ("_noa", "not a_fails")]})

found.register(globals(), {"C09"}, ["map_selector_failure"])


# ---------------------------------------------------------------------------
# One-step kernels (Engine A)
# ---------------------------------------------------------------------------
from vf.api import condition
from vf import stubs
from vf.stubs import pick
from asl_workflow_engine import state_engine as se
import vh_c16 as c16
import vh_c10 as api

TYPES = ["PassStateEntered", "PassStateExited", "TaskScheduled", "ExecutionSucceeded", "ExecutionFailed", "MapIterationStarted",
         "NotAHistoryEvent", "LambdaFunctionScheduled"]


@condition(timeout={"quick": 60, "thorough": 120}, functions=["StateEngine.update_execution_history (numbering from an arbitrary history length, EXPRESS, unknown event types)"])
def append_numbering(n: int, ti: int, express: bool, later: int) -> bool:
    """
    requires: 0 <= n and 0 <= ti < 8 and 0 <= later <= 2
    ensures: _
    """
    eng, log = stubs.make_engine({"StartAt": "P", "States": {"P": {"Type": "Succeed"}}}, "EXPRESS" if express else "STANDARD")
    sm = eng.asl_store[stubs.SM_ARN]
    hist = c16.SizedList(n)          # a history that already holds n (symbolic) events
    eng.execution_history[stubs.EX_ARN] = hist
    eng.executions[stubs.EX_ARN] = {"status": "RUNNING"}
    t = pick(TYPES, ti)
    later = pick([0, 1, 2], later)
    stubs.CLOCK.now = 1_700_000_000.0 + later
    eng.update_execution_history(sm, stubs.EX_ARN, t, {"k": 1})
    stubs.CLOCK.now = 1_700_000_000.0
    appended = list.__len__(hist)
    if express or t == "NotAHistoryEvent":
        return appended == 0
    if appended != 1:
        return False
    e = list.__getitem__(hist, 0)
    details = [k for k in e if k.endswith("Details")]
    return (e["id"] == n + 1 and e["previousEventId"] == n and e["type"] == t and e["timestamp"] == 1_700_000_000.0 + later
            and len(details) == 1 and e[details[0]] == {"k": 1})


def _events(k):
    return [{"id": i + 1, "previousEventId": i, "type": "T%d" % i, "timestamp": 1.0 + i} for i in range(k)]


@condition(timeout={"quick": 120, "thorough": 300}, functions=["rest_api_asyncio / rest_api: aws_api_GetExecutionHistory (reverseOrder)"])
def get_history_order(f: int, k: int, rev: int) -> bool:
    """
    requires: 0 <= f < 2 and 0 <= k <= 4 and 0 <= rev < 3
    ensures: _
    """
    fe = api.FE[f]
    fe.reset(True)
    ex = "arn:aws:states:local:0123456789:execution:m:e1"
    evs = _events(pick([0, 1, 2, 3, 4], k))
    fe.engine.execution_history[ex] = list(evs)
    members = {"executionArn": ex}
    r = pick([None, False, True], rev)
    if r is not None:
        members["reverseOrder"] = r
    v, code = fe.call("AWSStepFunctions.GetExecutionHistory", api.CT, stubs.FastJson.dumps(members).encode())
    if not evs:
        return code == 400 and v.get("__type") == "ExecutionDoesNotExist"
    want = list(reversed(evs)) if r else evs
    return code == 200 and v.get("events") == want and fe.engine.execution_history[ex] == evs
